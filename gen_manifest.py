#!/usr/bin/env python3
"""Regenerates MANIFEST.json from the table below (kept in one place so it is always valid)."""
import json, sys
BASELINE_CMD = "cd /repo && cargo nextest run --workspace --no-fail-fast --test-threads 8 --offline || cargo test --workspace --no-fail-fast --offline"
MC = "model_checking"
EX = "exploration"
checks = {}
def add(pid, level, text, note, technique, engine, design):
    checks[pid] = dict(
        property_id=pid,
        quick_cmd=f"./check {pid} quick",
        thorough_cmd=f"./check {pid} thorough",
        evidence_file=f"/verif/evidence/{pid}.json",
        replay_cmd_template="./check --replay {path}",
        engine=engine,
        level_claimed=dict(category=level, text=text, design_ref=design),
        level_note=note,
        technique=technique,
    )

add("C16", EX,
    "Complete enumeration of a bounded input space (all 1-/2-byte encodings, all values 0..2^16, every form boundary, every truncation, all four stream-ID kinds x boundary indices x boundary increments) of the real VarInt/StreamId code against an independent RFC 9000 reference; exhaustive over the stated sets.",
    "Trusted: refimpl::varint (self-tested against RFC 9000 A.1). Values outside the enumerated sets are not covered.",
    "exhaustive bounded input enumeration of the implementation against a reference model", "enumeration", "DESIGN.md 5/C16")

add("C02", MC,
    "Bounded exhaustive exploration of the real FrameStream::{poll_next,poll_data}: every byte string of a frame grammar (all known, HTTP/2-reserved, grease and unknown types; payloads shorter/equal/longer than the fixed fields; all varint length forms), every truncation, both stream endings, and every chunking (all 2^(n-1) chunkings of short strings, bounded cuts above) is executed and compared with an independent RFC 9114 7.1 segmenter. Decides the universally quantified 'independent of chunking' claim within the stated bounds.",
    "Trusted: refimpl::frames. Error classes at seam 1 are mapped through h3's own got_frame_error table (the table itself is checked by the close code at seam 2). Frame type 0x41 is excluded (C19).",
    "exhaustive enumeration of inputs x chunkings x end-of-stream positions on the implementation, reference-model oracle", "enumeration", "DESIGN.md 5/C02")
add("C03", MC,
    "Every frame sequence up to length N over a 15-item alphabet x ending (FIN/RESET/open) x role is played by a scripted peer against a real h3 server / client running the documented call pattern over the simnet transport; delivery is whole, per frame, per byte, and explored under a deviation bound (every chunk cut, delayed delivery and scheduling deviation). Oracle: the RFC 9114 4.1 request-stream automaton.",
    "Trusted: refimpl::h3auto, simnet's model of QUIC stream semantics (RESET discards unread bytes). PUSH_PROMISE asserted for the server role only.",
    "stateless DFS over environment choices (chunk cuts, delays, schedule) with deviation bound, of the implementation against a reference automaton", "dfs", "DESIGN.md 5/C03")

add("C11", EX,
    "Complete enumeration of bounded input spaces of the real encode_stateless/decode_stateless: all byte strings up to 3 (4) bytes after five section prefixes, a structured set (every representation x every index boundary x N/H bits x string-length boundaries x every truncation x over-long integers), and field lists over every static-table name; judged by an independent RFC 9204 decoder/encoder, so symmetric deviations from the RFC are visible. Exhaustive over the stated sets.",
    "Trusted: refimpl::qpack (static table typed from RFC 9204 App. A, self-tested on App. B), Huffman table from the octets crate.",
    "exhaustive bounded input enumeration of the implementation against an independent reference codec", "enumeration", "DESIGN.md 5/C11")
add("C15", EX,
    "Complete enumeration: all byte strings of length <= 2 (3) through encode->decode, all Huffman-flagged payloads of 0..2 (3) bytes, every symbol followed by every padding length 0..15 and every bit pattern, EOS placements; integers for all prefix sizes 1..8 x all flags x boundary values x every continuation-byte sequence up to length 3 (4) over a 6-byte alphabet, over-long tails, every truncation. Oracle: bit-at-a-time RFC 7541 5.2 decoder + u128 integer codec.",
    "Trusted: refimpl::{huffman,qint,qstr}; the Huffman table passes Kraft/canonical/Appendix-C self-checks on every run. Reached through the verif-hooks re-export.",
    "exhaustive bounded input enumeration of the implementation against an independent reference codec", "enumeration", "DESIGN.md 5/C15")
add("C18", EX,
    "Complete enumeration: stream ids 4k for all k < 2^16 and every varint form boundary x payload lengths x EVERY consumption program (7 Buf operations, depth <= 4 (5)) over the encoded datagram; decode of all byte strings up to 2 (3) bytes plus every form of every boundary id and every truncation; and the same through DatagramSender/DatagramReader of real connections over simnet. Oracle refimpl::datagram.",
    "Trusted: refimpl::datagram + refimpl::varint. Payload bytes are position-coded (the codec never branches on them).",
    "exhaustive bounded enumeration of inputs and Buf consumption programs on the implementation, reference-model oracle", "enumeration", "DESIGN.md 5/C18")

add("C04", MC,
    "Every control-stream frame sequence up to length M over a 16-item alphabet x ending x role x delivery mode x four own-side environments (grease on/off, the optional 4th outgoing stream never granted, own writes one byte at a time), and every sequence of up to N unidirectional streams over 11 kinds x type/id varint forms in all arrival orders, is played against real h3 endpoints over simnet; explored mode adds every chunk cut, delayed delivery and scheduling deviation up to the bound. Oracle: RFC 9114 6.2/7.2.4 automaton, duplicate-critical-stream rule, and exactly-once observable effects of SETTINGS and GOAWAY.",
    "Trusted: refimpl::h3auto; simnet stream semantics (a RESET may overtake unread bytes, incl. the stream type). Not asserted: grease before SETTINGS, CANCEL_PUSH, push streams.",
    "stateless DFS over environment choices (chunk cuts, delays, schedule, stream credit, write acceptance) with deviation bound, of the implementation against a reference automaton", "dfs", "DESIGN.md 5/C04")

add("C06", MC,
    "Every byte string up to 2 (3) bytes on each of 8 stream kinds, and grammar strings with one fault (FIN, RESET, STOP_SENDING, connection close, timeout) injected at every byte offset, delivered whole and one byte per read, are played by a scripted peer against real h3 endpoints running the documented call pattern (incl. the sending half) over simnet. Checked build has overflow checks and debug assertions on. The liveness half ('every pending call completes once the peer has ended what it waits on') is decided at quiescence of the closed world, where 'pending forever' is a fact rather than a timeout.",
    "Trusted: simnet's closed-world quiescence (no timers, no I/O). One fault per execution; zero-length transport chunks are outside the contract.",
    "exhaustive enumeration of peer scripts x fault positions x delivery modes on the implementation under a deterministic executor; quiescence-based liveness oracle", "dfs", "DESIGN.md 5/C06")
add("C13", MC,
    "Every builder configuration of a grid (booleans x 12 size values incl. >= 2^62 x grease x seeds x write acceptance, both builders) is built over simnet and its control-stream wire log judged by an independent SETTINGS parser; every SETTINGS payload of a grammar (15 identifiers x values x varint forms, duplicates, HTTP/2-reserved, unknown, every truncation, whole/per-byte) is delivered to a real server and client and the error code and applied values (observed by behaviour) compared with the reference.",
    "Trusted: refimpl::settings. Values >= 2^62: clean refusal or saturation accepted. Repeated unknown identifiers: ignore or reject both accepted.",
    "exhaustive enumeration of configurations and received payloads on the implementation over a deterministic in-memory transport, reference-model oracle", "dfs", "DESIGN.md 5/C13")

add("C12", EX,
    "Complete enumeration of a product grid of field sections (present/absent/invalid/duplicated/contradictory pseudo-header fields, Host, an undefined pseudo name, regular fields over valid and invalid names x values) injected as requests, responses and trailers into a real server/client over simnet, and of the message alphabet through the sending API with the HEADERS frames decoded by an independent QPACK decoder. Gate property: nothing the three-valued reference predicate calls malformed is ever delivered; every refusal is the stream error H3_MESSAGE_ERROR without a connection error.",
    "Trusted: refimpl::fields (the property's list, three-valued), refimpl::qpack literal encoder/decoder. Not demanded: acceptance of every well-formed section.",
    "exhaustive enumeration of a bounded input grid on the implementation over a deterministic in-memory transport, reference-predicate oracle", "enumeration", "DESIGN.md 5/C12")

add("C01", MC,
    "Real h3 client <-> simnet <-> real h3 server. For each message shape of a product alphabet (methods, targets, header multisets incl. duplicates, body piece lists 0..64 KiB, trailers; both directions; request stream whole or split into halves on separate tasks) EVERY execution with at most k deviations is run, where chunk cuts and delayed delivery on the request stream, partial/pending write acceptance and every scheduling choice among client task, drivers, server task, handlers and halves share one deviation budget; plus uniform one-byte-per-read and one-byte-per-write runs. Oracle: message in = message out, exactly one end-of-body, no connection error, every task completes.",
    "Trusted: simnet (stream semantics, FIFO default schedule), position-coded payloads + data independence of h3 for payload bytes. Bound: k=2 deviations per execution; shapes are a covering subset in quick, the full product in thorough.",
    "stateless DFS with iterative deviation bounding over schedule x chunking x back-pressure choices of the running implementation", "dfs", "DESIGN.md 5/C01")

add("C07", MC,
    "N concurrent requests on one connection, every assignment of {healthy, RESET at several byte offsets, STOP_SENDING, three kinds of malformed message, oversized section, FIN before HEADERS} with at least one faulty request, for a real server and a real client against a scripted peer playing the streams round-robin; every execution with at most k deviations (scheduling among handler/request tasks, driver and script; chunk cuts and delayed delivery on every request stream) plus one-byte reads. Oracle: healthy requests deliver exactly their own position-coded bytes and complete, the connection is never closed, each faulty request reports the stream-level error the property names.",
    "Trusted: simnet; the faulty side is scripted because a conforming endpoint cannot produce most faults. Bound: N=2 (quick) / 3 (thorough), k=2.",
    "stateless DFS with deviation bounding over schedule x chunking choices of the running implementation, fault-assignment enumeration", "dfs", "DESIGN.md 5/C07")
add("C14", MC,
    "The inputs are programs: every client call sequence up to length 4 (5) and every server call sequence up to length 3 (5) over the sending API (incl. empty and two-chunk buffers, stop_stream, shutdown(n)), x grease x extension configuration, executed on real endpoints over simnet under the default transport, the uniform one-byte-per-write schedule and every write-acceptance pattern with at most k deviations. Oracle: an independent RFC 9114 parser over the complete byte log of every stream either endpoint wrote.",
    "Trusted: refimpl::{frames,settings,qpack,varint}. A write cut short by connection death or still in flight at quiescence may end inside a frame. Programs stop using a stream at its first error.",
    "exhaustive enumeration of API programs x write-acceptance schedules (deviation-bounded DFS) on the implementation, reference-parser oracle on the wire logs", "dfs", "DESIGN.md 5/C14")

add("C08", MC,
    "Explicit enumeration (no deduplication) of every server history up to length 6 (7) over {arrivals of 4 request streams in any order, accept, shutdown(n) for 4 values of n, serve} executed on a real server connection over simnet with a drain phase, with the GOAWAY identifiers read off the control-stream wire log by an independent parser and rejections read off the transport; and of every client history of up to 3 received GOAWAY identifiers over 8 values interleaved with send_request attempts, with the grease stream granted or starved. Invariants checked on every history.",
    "Trusted: refimpl::frames, simnet. The server application is a single task, so there is no schedule dimension on the server side; the client driver is given time to consume each GOAWAY before the next event.",
    "explicit-state enumeration of operation histories on the implementation (history is the state), invariant oracle on wire log and transport", "bfs", "DESIGN.md 5/C08")

add("C09", MC,
    "0..N requests, every assignment of ten ways of ending (normal, resolver dropped, FIN/RESET before HEADERS, RESET after HEADERS, malformed, oversized, split halves dropped in either order, still running), the peer's GOAWAY at every position, and every execution with at most k scheduling deviations among accept loop, handlers and script, on a real server connection over simnet. Safety (never None while a handle is live) is checked when None is returned; liveness (None once everything ended) is decided at quiescence of the closed world, which turns 'eventually' into a decidable predicate.",
    "Trusted: simnet's quiescence. Bound: N=2 (quick) / 3 (thorough), k=2.",
    "stateless DFS with deviation bounding over schedules of the running implementation; quiescence-based liveness oracle", "dfs", "DESIGN.md 5/C09")

add("C19", MC,
    "Real WebTransportSession over simnet against a scripted client: CONNECT on stream ids with 1-, 2-, 4- and 8-byte varints, accepted first or after ordinary requests; incoming uni and bidi WebTransport streams whose header + payload are delivered under every execution with at most 2 deviations (every single and double chunk cut, delayed delivery, scheduling) plus one-byte reads, stream open or finished, read through poll_data and AsyncRead; server-opened streams under whole and one-byte write acceptance; extension disabled. Oracle: the three session-id observations equal the CONNECT stream id; payload complete and in order.",
    "Trusted: simnet; refimpl::{varint,qpack,settings}. Client role of WebTransport is not implemented by the crate and not covered.",
    "stateless DFS with deviation bounding over chunking x delivery x schedule choices of the running implementation", "dfs", "DESIGN.md 5/C19")

add("C05", MC,
    "Controlled-scheduler exploration of the real code on real OS threads: the connection driver and 1..3 request handles pass a baton, every ConnectionState accessor of h3 (error cell get/set, waker access, closing flag, settings) is a pre-emption point through the verif-hooks callback, and the DFS enumerates ALL interleavings for 2 threads and all interleavings up to a pre-emption bound for 3 and 4 threads, for every subset of five error-raising kinds, with and without an error the driver detects itself, both roles. After each run every handle is called again. Oracle: exactly one distinct connection error over all reports, close() once with its code iff locally detected, and no lost wake-up (a parked driver with no runnable thread is a deadlock).",
    "Trusted: OnceLock and AtomicWaker are atomic (documented contracts); sequentially consistent interleavings only (Relaxed on the closing flag not modelled); the driver keeps one waker for its lifetime. Bounds: quick pre-emption 5 (3 threads) / 3 (4 threads); thorough unbounded / 5.",
    "stateless exploration of thread interleavings of the implementation under a controlled (baton) scheduler with pre-emption bounding", "threads", "DESIGN.md 5/C05")

add("C20", MC,
    "Explicit-state breadth-first search over the REAL Encoder/Decoder/DynamicTable (verif-hooks re-exports) in the history-is-the-state style: each state is rebuilt from fresh objects by replaying its event history; states are deduplicated by the complete canonical digest of both tables plus everything in flight; every configuration (capacity x blocked-streams limit) x three start states to a depth bound; every state is built twice (different hash-map seeds) and must agree; invariants are evaluated in every state against an independent RFC 9204 dynamic-table decoder that receives exactly the bytes the real decoder was given. Plus a 40-section workload per configuration explored by DFS with at most 2 delivery deviations.",
    "Trusted: refimpl::qpack (self-tested on RFC 9204 App. B). Bounds: BFS depth 5 (quick) / 7 (thorough); 6 sections over 3 names x 2 values. Both tables start at the configured capacity.",
    "explicit-state BFS with canonical-state deduplication over the implementation's own transition functions (history replay), reference-model oracle per state; deviation-bounded DFS for the long workload", "bfs", "DESIGN.md 5/C20")

add("C10", MC,
    "Complete enumeration of a boundary grid on the running connection code (both roles over simnet against a scripted peer): field-section limits {0, 1, 33..35, 64, 89, 100, 167, 16383, 2^62-1} x sections whose RFC 9114 4.2.2 size sweeps L-2..L+2 (stretched value and added field, so the per-field 32 is exercised) x the four receive paths (request/response head, request/response trailers) and the four send paths x SETTINGS delivered before / after / never. Every HEADERS frame that reaches the wire is decoded and measured by the reference; on receive the outcome (accepted / HeaderTooBig / 431) is compared with the reference size rule.",
    "Trusted: refimpl::fields::section_size, refimpl::qpack. Exhaustive over the stated grid; sizes far from a limit are represented by the L+-2 sweep only.",
    "exhaustive bounded enumeration (limits x sizes x paths x settings timing) of the running implementation against a reference size rule", "enumeration", "DESIGN.md 5/C10")

add("C17", MC,
    "The UNMODIFIED h3-quinn source compiled against fakequinn, an API stand-in for quinn whose every answer is an explorer choice: every poll_write answer sequence (accept all / 1 / half / n-1 bytes, Pending, and one fault Stopped(c) / ConnectionLost(kind) / ClosedStream from the k-th call on) and every read_chunk answer sequence with at most k deviations, for frame sequences up to 3 frames (+ one 256 KiB frame), framed and unframed writes, uni and bidi streams, an overlapping send_data after every send_data, every operation sequence of length <= 3 over {poll_data, recv_id, stop_sending} before the drain (identifier queries in every read state incl. while a read is pending), all 8 ConnectionError variants x 3 codes on all accept/open/datagram paths, close(code, reason), datagram bytes. Oracle: bytes Quinn saw = reference encoding of the buffers whose write completed, ids constant and equal to Quinn's, no panic, error class and code preserved.",
    "Trusted: fakequinn models the quinn 0.11 API subset the adapter uses (a rewrite using other Quinn calls fails to build = machinery failure, exit 2, not a verdict). Real Quinn's flow control is represented by the answer alphabet, not executed. Bounds: k=4 (quick) / 6 (thorough).",
    "stateless DFS with deviation bounding over the environment-answer sequences (Quinn stand-in) of the unmodified adapter code; reference-encoding and error-table oracle", "dfs", "DESIGN.md 5/C17")

ALL = [f"C{i:02d}" for i in range(1, 21)]
pending_reason = "check not built yet in this revision of /verif (planned, see DESIGN.md section 5)"
manifest = dict(
    version=1,
    setup_cmd="./check --build",
    hooks=dict(
        guard="cargo feature `verif-hooks` of the h3 crate",
        enable="the harness workspace depends on /repo/h3 by path with features=[\"verif-hooks\", ...]; ./check rebuilds it from the working tree on every run",
        baseline_off_cmd=BASELINE_CMD,
        source_commits=["273b61f", "6d237f0"],
        add_only=True,
    ),
    engines=[
        dict(name="enumeration", path="harness/crates/checks", serves_properties=["C11","C12","C15","C16","C18"], kind_free_text="complete enumeration of bounded input spaces of the real codecs against refimpl"),
        dict(name="bfs", path="harness/crates/checks/src/c20.rs (history-replay BFS), harness/crates/checks/src/c08.rs (history enumeration)", serves_properties=["C08","C20"], kind_free_text="explicit-state search where a state is the event history reaching it; real objects are rebuilt and replayed per state; canonical digest for deduplication"),
        dict(name="threads", path="harness/crates/explore/src/threads.rs", serves_properties=["C05"], kind_free_text="baton scheduler over real OS threads: all sequentially consistent interleavings of hooked operations, pre-emption bounded, deadlock = lost wake-up"),
        dict(name="dfs", path="harness/crates/explore/src/dfs.rs", serves_properties=["C01","C02","C03","C04","C06","C07","C08","C09","C10","C13","C14","C19"], kind_free_text="stateless DFS over choice vectors (deviation-bounded) of real h3 over the simnet in-memory transport"),
    ],
    checks=[checks[k] for k in sorted(checks)],
    not_applicable=[dict(property_id=p, reason=pending_reason) for p in ALL if p not in checks],
    notes="All checks rebuild from /repo's working tree. Known findings: /verif/known_findings.txt.",
)
json.dump(manifest, open("MANIFEST.json", "w"), indent=1)
print("wrote MANIFEST.json with", len(checks), "checks")
