#!/usr/bin/env python3
"""Regenerates MANIFEST.json from the table below (kept in one place so it is always valid)."""
import json, sys
BASELINE_CMD = "cd /repo && cargo nextest run --workspace --no-fail-fast --test-threads 8 --offline || cargo test --workspace --no-fail-fast --offline"
MC = "model_checking"
EX = "exploration"
checks = {}
def add(pid, level, text, note, technique, engine, design):
    checks[pid] = dict(
        property_id=pid,
        quick_cmd=f"./check {pid} quick",
        thorough_cmd=f"./check {pid} thorough",
        evidence_file=f"/verif/evidence/{pid}.json",
        replay_cmd_template="./check --replay {path}",
        engine=engine,
        level_claimed=dict(category=level, text=text, design_ref=design),
        level_note=note,
        technique=technique,
    )

add("C16", EX,
    "Complete enumeration of a bounded input space (all 1-/2-byte encodings, all values 0..2^16, every form boundary, every truncation, all four stream-ID kinds x boundary indices x boundary increments) of the real VarInt/StreamId code against an independent RFC 9000 reference; exhaustive over the stated sets.",
    "Trusted: refimpl::varint (self-tested against RFC 9000 A.1). Values outside the enumerated sets are not covered.",
    "exhaustive bounded input enumeration of the implementation against a reference model", "enumeration", "DESIGN.md 5/C16")

ALL = [f"C{i:02d}" for i in range(1, 21)]
pending_reason = "check not built yet in this revision of /verif (planned, see DESIGN.md section 5)"
manifest = dict(
    version=1,
    setup_cmd="./check --build",
    hooks=dict(
        guard="cargo feature `verif-hooks` of the h3 crate",
        enable="the harness workspace depends on /repo/h3 by path with features=[\"verif-hooks\", ...]; ./check rebuilds it from the working tree on every run",
        baseline_off_cmd=BASELINE_CMD,
        source_commits=[],
        add_only=True,
    ),
    engines=[
        dict(name="enumeration", path="harness/crates/checks", serves_properties=["C11","C12","C15","C16","C18"], kind_free_text="complete enumeration of bounded input spaces of the real codecs against refimpl"),
        dict(name="dfs", path="harness/crates/explore/src/dfs.rs", serves_properties=["C01","C02","C03","C04","C06","C07","C08","C09","C10","C13","C14","C19"], kind_free_text="stateless DFS over choice vectors (deviation-bounded) of real h3 over the simnet in-memory transport"),
    ],
    checks=[checks[k] for k in sorted(checks)],
    not_applicable=[dict(property_id=p, reason=pending_reason) for p in ALL if p not in checks],
    notes="All checks rebuild from /repo's working tree. Known findings: /verif/known_findings.txt.",
)
json.dump(manifest, open("MANIFEST.json", "w"), indent=1)
print("wrote MANIFEST.json with", len(checks), "checks")
