//! C17 — the Quinn adapter moves bytes, identifiers and errors faithfully.
//!
//! `quinncheck <quick|thorough>` | `quinncheck --replay <file>`
//!
//! The UNMODIFIED adapter source (/repo/h3-quinn/src/{lib,datagram}.rs, crate
//! `h3-quinn-over-standin`) is explored against `fakequinn`, an API stand-in for quinn whose every
//! answer is a choice: every `poll_write` answer sequence (accept all / 1 / half / n-1 bytes,
//! Pending, Stopped(c), ConnectionLost(kind)) and every `read_chunk` answer sequence up to the
//! deviation bound. Conformance of the stand-in with real Quinn is checked by `quinnreal`.

use bytes::{Buf, Bytes};
use explore::dfs::{self, Caps};
use explore::panics::{guard, install_panic_hook, short_loc};
use explore::report::{Acc, Report, Tier, ViolSet};
use explore::{hex, Fnv};
use fakequinn as fq;
use h3::proto::frame::Frame;
use h3::quic::{self, ConnectionErrorIncoming, RecvStream as _, SendStream as _, SendStreamUnframed as _, StreamErrorIncoming};
use refimpl::frames as rf;
use serde_json::{json, Value};
use std::task::{Context, Poll};

type Conn = h3_quinn::Connection;
type Send = h3_quinn::SendStream<Bytes>;
type Recv = h3_quinn::RecvStream;
type Bidi = h3_quinn::BidiStream<Bytes>;

fn cx_run<R>(f: impl FnOnce(&mut Context<'_>) -> R) -> R {
    cx_run_counted(f).0
}

struct CountingWaker(std::sync::atomic::AtomicUsize);
impl std::task::Wake for CountingWaker {
    fn wake(self: std::sync::Arc<Self>) {
        self.0.fetch_add(1, std::sync::atomic::Ordering::Relaxed);
    }
    fn wake_by_ref(self: &std::sync::Arc<Self>) {
        self.0.fetch_add(1, std::sync::atomic::Ordering::Relaxed);
    }
}

/// Polls once; the second component says whether the waker was woken (or cloned, i.e. registered somewhere)
/// during the poll. A `Pending` without either is a lost wake-up: nobody will ever poll the caller again.
fn cx_run_counted<R>(f: impl FnOnce(&mut Context<'_>) -> R) -> (R, bool) {
    let cw = std::sync::Arc::new(CountingWaker(std::sync::atomic::AtomicUsize::new(0)));
    let w = std::task::Waker::from(cw.clone());
    let before = std::sync::Arc::strong_count(&cw);
    let r = {
        let mut cx = Context::from_waker(&w);
        f(&mut cx)
    };
    let woken = cw.0.load(std::sync::atomic::Ordering::Relaxed) > 0;
    let registered = std::sync::Arc::strong_count(&cw) > before;
    (r, woken || registered)
}

fn conn_class(e: &ConnectionErrorIncoming) -> String {
    match e {
        ConnectionErrorIncoming::ApplicationClose { error_code } => format!("ApplicationClose({error_code:#x})"),
        ConnectionErrorIncoming::Timeout => "Timeout".into(),
        ConnectionErrorIncoming::InternalError(_) => "InternalError".into(),
        ConnectionErrorIncoming::Undefined(_) => "Undefined".into(),
    }
}

fn stream_class(e: &StreamErrorIncoming) -> String {
    match e {
        StreamErrorIncoming::ConnectionErrorIncoming { connection_error } => format!("Conn:{}", conn_class(connection_error)),
        StreamErrorIncoming::StreamTerminated { error_code } => format!("StreamTerminated({error_code:#x})"),
        StreamErrorIncoming::Unknown(_) => "Unknown".into(),
    }
}

thread_local! {
    /// (operation being executed, a read/write is in flight) — for panic signatures
    static OP: std::cell::Cell<(&'static str, bool)> = const { std::cell::Cell::new(("", false)) };
}
fn set_op(name: &'static str) {
    OP.with(|c| c.set((name, c.get().1)));
}
fn in_flight(b: bool) {
    OP.with(|c| c.set((c.get().0, b)));
}
fn op_state() -> String {
    let (n, f) = OP.with(|c| c.get());
    format!("{n}:{}", if f { "while-pending" } else { "idle" })
}

fn payload(n: usize, salt: u8) -> Vec<u8> {
    (0..n).map(|i| ((i as u32).wrapping_mul(2654435761) >> 11) as u8 ^ salt).collect()
}

// ------------------------------------------------------------------------------------------------
// W: the write path

#[derive(Clone, Debug)]
pub struct WCase {
    pub frames: Vec<usize>,
    /// an extra send_data is attempted right after the send_data of this frame (write unfinished)
    pub overlap_at: Option<usize>,
    pub fault: Option<(usize, &'static str, u64)>,
    /// use poll_send (unframed) for the payload bytes instead of framed send_data
    pub unframed: bool,
    pub bidi: bool,
}

#[derive(Debug, Clone, Default, PartialEq, Eq)]
pub struct WOutcome {
    pub written: Vec<u8>,
    /// per frame: "ok" or the error class
    pub results: Vec<String>,
    pub overlap: Option<String>,
    pub finish: Option<String>,
    /// after a failed write: what one more send_data (+ poll_ready) answered
    pub retry: Option<String>,
    pub finished_at_quinn: bool,
    pub resets_at_quinn: Vec<u64>,
    pub send_ids: Vec<u64>,
    pub expected_id: u64,
    /// a poll answered Pending although neither a wake-up nor a waker registration happened during it
    pub lost_wakeup: bool,
    /// poll_send: the count it returned differs from what it took out of the buffer, or it took bytes and answered Pending
    pub unframed_contract: Option<String>,
    pub panic: Option<String>,
    pub panic_state: String,
    pub polls: usize,
}

fn write_fault(kind: &str, code: u64) -> fq::WriteError {
    match kind {
        "stopped" => fq::WriteError::Stopped(fq::VarInt::from_u64(code).unwrap()),
        "app-closed" => fq::WriteError::ConnectionLost(fq::ConnectionError::ApplicationClosed(fq::ApplicationClose { error_code: fq::VarInt::from_u64(code).unwrap(), reason: Bytes::new() })),
        "timed-out" => fq::WriteError::ConnectionLost(fq::ConnectionError::TimedOut),
        "reset" => fq::WriteError::ConnectionLost(fq::ConnectionError::Reset),
        "closed-stream" => fq::WriteError::ClosedStream,
        _ => fq::WriteError::ZeroRttRejected,
    }
}

fn expect_write_error(kind: &str, code: u64) -> String {
    match kind {
        "stopped" => format!("StreamTerminated({code:#x})"),
        "app-closed" => format!("Conn:ApplicationClose({code:#x})"),
        "timed-out" => "Conn:Timeout".into(),
        "reset" => "Conn:Undefined".into(),
        _ => "Unknown".into(),
    }
}

pub fn w_execute(case: &WCase, explore: bool) -> WOutcome {
    let mut o = WOutcome::default();
    OP.with(|c| c.set(("setup", false)));
    let r = guard(|| {
        let q = fq::Connection::new_scripted(false, explore);
        if let Some((after, kind, code)) = case.fault {
            q.0.lock().unwrap().open_send_faults.push_back(Some(fq::WriteFault { after, error: write_fault(kind, code) }));
        }
        let mut c = Conn::new(q.clone());
        let mut o = WOutcome::default();
        enum S {
            Uni(Send),
            Bi(Bidi),
        }
        let mut s = if case.bidi {
            match cx_run(|cx| quic::OpenStreams::<Bytes>::poll_open_bidi(&mut c, cx)) {
                Poll::Ready(Ok(s)) => S::Bi(s),
                _ => panic!("open_bidi did not complete"),
            }
        } else {
            match cx_run(|cx| quic::OpenStreams::<Bytes>::poll_open_send(&mut c, cx)) {
                Poll::Ready(Ok(s)) => S::Uni(s),
                _ => panic!("open_send did not complete"),
            }
        };
        macro_rules! with {
            ($s:ident, $e:expr) => {
                match &mut s {
                    S::Uni($s) => $e,
                    S::Bi($s) => $e,
                }
            };
        }
        let id = with!(x, x.send_id().into_inner());
        o.send_ids.push(id);
        'frames: for (i, &n) in case.frames.iter().enumerate() {
            let data = Bytes::from(payload(n, i as u8));
            if case.unframed {
                // raw bytes through poll_send until drained
                let mut buf = data.clone();
                loop {
                    o.polls += 1;
                    if o.polls > 2_000_000 {
                        panic!("write does not terminate");
                    }
                    set_op("poll_send");
                    let before = buf.remaining();
                    let (r, woke) = cx_run_counted(|cx| with!(x, x.poll_send(cx, &mut buf)));
                    let taken = before - buf.remaining();
                    match &r {
                        Poll::Ready(Ok(n)) if *n != taken => {
                            o.unframed_contract.get_or_insert(format!("returned-count-differs-from-bytes-taken: returned {n}, took {taken} of {before}"));
                        }
                        Poll::Pending if taken != 0 => {
                            o.unframed_contract.get_or_insert(format!("bytes-taken-but-pending: took {taken} of {before} and answered Pending (a caller going by the count offers them again)"));
                        }
                        _ => {}
                    }
                    in_flight(r.is_pending());
                    if r.is_pending() && !woke {
                        o.lost_wakeup = true;
                    }
                    match r {
                        Poll::Ready(Ok(_)) => {
                            if !buf.has_remaining() {
                                o.results.push("ok".into());
                                break;
                            }
                        }
                        Poll::Ready(Err(e)) => {
                            o.results.push(stream_class(&e));
                            break 'frames;
                        }
                        Poll::Pending => {}
                    }
                }
                continue;
            }
            set_op("send_data");
            if let Err(e) = with!(x, x.send_data(Frame::Data(data))) {
                o.results.push(format!("send_data:{}", stream_class(&e)));
                break;
            }
            if case.overlap_at == Some(i) {
                let r = with!(x, x.send_data(Frame::Data(Bytes::from_static(b"OVERLAP"))));
                o.overlap = Some(match r {
                    Ok(()) => "accepted".into(),
                    Err(e) => stream_class(&e),
                });
            }
            in_flight(true);
            set_op("send_id");
            o.send_ids.push(with!(x, x.send_id().into_inner()));
            loop {
                o.polls += 1;
                if o.polls > 2_000_000 {
                    panic!("write does not terminate");
                }
                set_op("poll_ready");
                let (r, woke) = cx_run_counted(|cx| with!(x, x.poll_ready(cx)));
                in_flight(r.is_pending());
                if r.is_pending() && !woke {
                    o.lost_wakeup = true;
                }
                match r {
                    Poll::Ready(Ok(())) => {
                        o.results.push("ok".into());
                        break;
                    }
                    Poll::Ready(Err(e)) => {
                        o.results.push(stream_class(&e));
                        break 'frames;
                    }
                    Poll::Pending => {}
                }
                set_op("send_id");
                o.send_ids.push(with!(x, x.send_id().into_inner()));
            }
        }
        set_op("send_id");
        o.send_ids.push(with!(x, x.send_id().into_inner()));
        if o.results.len() == case.frames.len() && o.results.iter().all(|r| r == "ok") {
            // everything written: finish must reach Quinn, exactly once
            set_op("poll_finish");
            match cx_run(|cx| with!(x, x.poll_finish(cx))) {
                Poll::Ready(Ok(())) => o.finish = Some("ok".into()),
                Poll::Ready(Err(e)) => o.finish = Some(stream_class(&e)),
                Poll::Pending => o.finish = Some("pending".into()),
            }
        } else {
            // a failed write: the application tries once more (e.g. h3's finish() writes a grease frame), ...
            if !case.unframed && o.overlap.is_none() {
                set_op("send_data");
                o.retry = Some(match with!(x, x.send_data(Frame::Data(Bytes::from_static(b"RETRY")))) {
                    Err(e) => format!("send_data:{}", stream_class(&e)),
                    Ok(()) => {
                        let mut res = "pending".to_string();
                        for _ in 0..8 {
                            set_op("poll_ready");
                            match cx_run(|cx| with!(x, x.poll_ready(cx))) {
                                Poll::Ready(Ok(())) => {
                                    res = "ok".into();
                                    break;
                                }
                                Poll::Ready(Err(e)) => {
                                    res = stream_class(&e);
                                    break;
                                }
                                Poll::Pending => {}
                            }
                        }
                        res
                    }
                });
            }
            // ... then resets the stream
            set_op("reset");
            with!(x, x.reset(0x10c));
        }
        set_op("send_id");
        o.send_ids.push(with!(x, x.send_id().into_inner()));
        let log = q.0.lock().unwrap().send_logs[0].clone();
        o.finished_at_quinn = log.1.lock().unwrap().finished;
        o.resets_at_quinn = log.1.lock().unwrap().resets.clone();
        o.expected_id = log.0;
        o.written = log.1.lock().unwrap().written.clone();
        o
    });
    match r {
        Ok(x) => x,
        Err(p) => {
            o.panic = Some(p);
            o.panic_state = op_state();
            o
        }
    }
}

pub fn w_judge(case: &WCase, o: &WOutcome) -> Vec<(String, String)> {
    let ctx = format!("{case:?}");
    let mut out = Vec::new();
    if let Some(p) = &o.panic {
        out.push((format!("C17:write:panic:{}@{}", o.panic_state, short_loc(p)), format!("{ctx}: {p}")));
        return out;
    }
    // expected bytes: the frames whose write completed, then a prefix of the failing one
    let enc = |i: usize| -> Vec<u8> {
        let p = payload(case.frames[i], i as u8);
        if case.unframed {
            p
        } else {
            rf::frame(rf::DATA, &p)
        }
    };
    let done = o.results.iter().filter(|r| *r == "ok").count();
    let mut want: Vec<u8> = Vec::new();
    for i in 0..done {
        want.extend(enc(i));
    }
    let failed = o.results.len() > done;
    let ok_bytes = if failed {
        let mut full = want.clone();
        if done < case.frames.len() {
            full.extend(enc(done));
        }
        o.written.len() >= want.len() && full.starts_with(&o.written)
    } else {
        o.written == want
    };
    if !ok_bytes {
        let class = if o.written.len() > want.len() + if failed { enc(done.min(case.frames.len() - 1)).len() } else { 0 } { "duplicated-or-extra" } else if o.written.len() < want.len() { "lost" } else { "corrupted-or-reordered" };
        out.push((
            format!("C17:write:bytes-{class}:{}", if case.unframed { "unframed" } else { "framed" }),
            format!("{ctx}: Quinn saw {} bytes, the buffers whose write completed encode to {} bytes; first difference at {}", o.written.len(), want.len(), o.written.iter().zip(want.iter()).position(|(a, b)| a != b).unwrap_or(o.written.len().min(want.len()))),
        ));
    }
    match case.fault {
        None => {
            if failed || done != case.frames.len() {
                out.push(("C17:write:error-without-fault".into(), format!("{ctx}: results {:?}", o.results)));
            }
        }
        Some((_, kind, code)) => {
            if failed {
                let got = o.results.last().unwrap();
                let want_e = expect_write_error(kind, code);
                if *got != want_e {
                    out.push((format!("C17:write:error-mapping:{kind}:got={got}"), format!("{ctx}: Quinn's {kind}({code:#x}) surfaced as {got}, expected {want_e}")));
                }
            }
        }
    }
    match &o.finish {
        Some(f) => {
            if f != "ok" || !o.finished_at_quinn || !o.resets_at_quinn.is_empty() {
                out.push(("C17:write:finish-not-passed-on".into(), format!("{ctx}: poll_finish after a complete write answered {f}; Quinn saw finish={} resets={:x?}", o.finished_at_quinn, o.resets_at_quinn)));
            }
        }
        None => {
            if o.finished_at_quinn || o.resets_at_quinn != vec![0x10c] {
                out.push(("C17:write:reset-code-not-passed-on".into(), format!("{ctx}: reset(0x10c) after the failed write; Quinn saw finish={} resets={:x?}", o.finished_at_quinn, o.resets_at_quinn)));
            }
        }
    }
    // the condition that ended the write keeps surfacing as the same class on a further write; in particular a
    // stream-scoped condition (the peer's STOP_SENDING) never turns into a connection-level error
    if let (Some(r), Some((_, kind, code))) = (&o.retry, case.fault) {
        let want = expect_write_error(kind, code);
        let got = r.trim_start_matches("send_data:");
        if got != want {
            out.push((format!("C17:write:error-class-changes-on-next-write:{kind}:got={got}"), format!("{ctx}: the write failed with {want}; one more send_data/poll_ready answered {r}")));
        }
    }
    if let Some(ov) = &o.overlap {
        if ov == "accepted" {
            out.push(("C17:write:overlapping-send_data-accepted".into(), format!("{ctx}: a second send_data was accepted while the first write was unfinished")));
        }
    }
    if o.lost_wakeup {
        out.push(("C17:write:pending-without-wake-up".into(), format!("{ctx}: a write poll answered Pending although Quinn neither returned Pending nor was a waker registered or woken during the poll: the writer is never polled again and the rest of the buffer never reaches the peer")));
    }
    if let Some(c) = &o.unframed_contract {
        let kind = c.split(':').next().unwrap_or("");
        out.push((format!("C17:write:poll_send:{kind}"), format!("{ctx}: {c}")));
    }
    if o.send_ids.iter().any(|i| *i != o.expected_id) {
        out.push(("C17:write:send-id-wrong".into(), format!("{ctx}: send_id() values {:?}, Quinn's stream id {}", o.send_ids, o.expected_id)));
    }
    out
}

// ------------------------------------------------------------------------------------------------
// R: the read path, with identifier queries and stop_sending in every state

#[derive(Clone, Copy, Debug, PartialEq, Eq)]
pub enum ROp {
    Poll,
    Id,
    Stop(u64),
}

#[derive(Clone, Debug)]
pub struct RCase {
    pub data_len: usize,
    pub end: &'static str,
    pub code: u64,
    pub bidi: bool,
    /// extra operations interleaved before the drain: executed in order, then poll until terminal
    pub ops: Vec<ROp>,
}

#[derive(Debug, Clone, Default, PartialEq, Eq)]
pub struct ROutcome {
    pub received: Vec<u8>,
    pub terminal: String,
    pub ids: Vec<u64>,
    pub expected_id: u64,
    pub stops_seen_by_quinn: Vec<u64>,
    /// results of two more poll_data calls after the terminal answer
    pub after_terminal: Vec<String>,
    pub lost_wakeup: bool,
    /// what the stand-in first answered as the end of the stream ("fin", "reset:<c>", ...)
    pub quinn_first_terminal: Option<String>,
    pub panic: Option<String>,
    pub panic_state: String,
}

fn recv_end(end: &str, code: u64) -> fq::RecvEnd {
    match end {
        "fin" => fq::RecvEnd::Fin,
        "reset" => fq::RecvEnd::Reset(code),
        "app-closed" => fq::RecvEnd::ConnectionLost(fq::ConnectionError::ApplicationClosed(fq::ApplicationClose { error_code: fq::VarInt::from_u64(code).unwrap(), reason: Bytes::new() })),
        "timed-out" => fq::RecvEnd::ConnectionLost(fq::ConnectionError::TimedOut),
        "conn-reset" => fq::RecvEnd::ConnectionLost(fq::ConnectionError::Reset),
        "closed-stream" => fq::RecvEnd::ClosedStream,
        _ => fq::RecvEnd::Open,
    }
}

fn expect_read_terminal(end: &str, code: u64) -> String {
    match end {
        "fin" => "eof".into(),
        "reset" => format!("StreamTerminated({code:#x})"),
        "app-closed" => format!("Conn:ApplicationClose({code:#x})"),
        "timed-out" => "Conn:Timeout".into(),
        "conn-reset" => "Conn:Undefined".into(),
        "closed-stream" => "Unknown".into(),
        _ => "pending".into(),
    }
}

pub fn r_execute(case: &RCase, explore: bool) -> ROutcome {
    let mut o = ROutcome::default();
    let data = payload(case.data_len, 0x3c);
    OP.with(|c| c.set(("setup", false)));
    let r = guard(|| {
        let q = fq::Connection::new_scripted(true, explore);
        let mut o = ROutcome::default();
        enum S {
            Uni(Recv),
            Bi(Bidi),
        }
        let rlog;
        let mut c = Conn::new(q.clone());
        let mut s = if case.bidi {
            let (_sl, rl) = q.script_incoming_bi(3, &data, recv_end(case.end, case.code), None);
            rlog = rl;
            o.expected_id = 3 << 2;
            match cx_run(|cx| quic::Connection::<Bytes>::poll_accept_bidi(&mut c, cx)) {
                Poll::Ready(Ok(s)) => S::Bi(s),
                _ => panic!("accept_bidi did not complete"),
            }
        } else {
            rlog = q.script_incoming_uni(5, &data, recv_end(case.end, case.code));
            o.expected_id = (5 << 2) | 2;
            match cx_run(|cx| quic::Connection::<Bytes>::poll_accept_recv(&mut c, cx)) {
                Poll::Ready(Ok(s)) => S::Uni(s),
                _ => panic!("accept_recv did not complete"),
            }
        };
        macro_rules! with {
            ($s:ident, $e:expr) => {
                match &mut s {
                    S::Uni($s) => $e,
                    S::Bi($s) => $e,
                }
            };
        }
        let mut terminal: Option<String> = None;
        let poll_once = |s: &mut S, o: &mut ROutcome, terminal: &mut Option<String>| {
            set_op("poll_data");
            let (r, woke) = cx_run_counted(|cx| match s {
                S::Uni(x) => x.poll_data(cx),
                S::Bi(x) => x.poll_data(cx),
            });
            in_flight(r.is_pending());
            if r.is_pending() && !woke {
                // legitimate only when Quinn itself has nothing and will never have anything (stream left open)
                let g = rlog.lock().unwrap();
                let forever = g.pos == g.data.len() && g.end == Some(fq::RecvEnd::Open);
                if !forever {
                    o.lost_wakeup = true;
                }
            }
            match r {
                Poll::Ready(Ok(Some(mut b))) => {
                    let v = b.copy_to_bytes(b.remaining());
                    o.received.extend_from_slice(&v);
                }
                Poll::Ready(Ok(None)) => *terminal = Some("eof".into()),
                Poll::Ready(Err(e)) => *terminal = Some(stream_class(&e)),
                Poll::Pending => {}
            }
        };
        for op in &case.ops {
            match op {
                ROp::Poll => {
                    if terminal.is_none() {
                        poll_once(&mut s, &mut o, &mut terminal)
                    }
                }
                ROp::Id => {
                    set_op("recv_id");
                    o.ids.push(with!(x, x.recv_id().into_inner()))
                }
                ROp::Stop(c) => {
                    set_op("stop_sending");
                    with!(x, x.stop_sending(*c))
                }
            }
        }
        // drain
        let mut idle = 0;
        let mut polls = 0;
        while terminal.is_none() {
            polls += 1;
            if polls > 100_000 {
                panic!("read does not terminate");
            }
            let before = o.received.len();
            poll_once(&mut s, &mut o, &mut terminal);
            set_op("recv_id");
            o.ids.push(with!(x, x.recv_id().into_inner()));
            if o.received.len() == before && terminal.is_none() {
                idle += 1;
                if idle > 8 {
                    terminal = Some("pending".into());
                }
            } else {
                idle = 0;
            }
        }
        set_op("recv_id");
        o.ids.push(with!(x, x.recv_id().into_inner()));
        o.terminal = terminal.unwrap();
        // a caller that polls again after the terminal answer (a retry, a combinator polled once more)
        if o.terminal != "pending" {
            for _ in 0..2 {
                let mut t: Option<String> = None;
                let before = o.received.len();
                poll_once(&mut s, &mut o, &mut t);
                o.after_terminal.push(match t {
                    Some(x) => x,
                    None if o.received.len() > before => "data".into(),
                    None => "pending".into(),
                });
                set_op("recv_id");
                o.ids.push(with!(x, x.recv_id().into_inner()));
            }
        }
        o.stops_seen_by_quinn = rlog.lock().unwrap().stops.clone();
        o.quinn_first_terminal = rlog.lock().unwrap().first_terminal.clone();
        o
    });
    match r {
        Ok(x) => x,
        Err(p) => {
            o.panic = Some(p);
            o.panic_state = op_state();
            o
        }
    }
}

pub fn r_judge(case: &RCase, o: &ROutcome) -> Vec<(String, String)> {
    let ctx = format!("{case:?}");
    let mut out = Vec::new();
    if let Some(p) = &o.panic {
        out.push((format!("C17:read:panic:{}@{}", o.panic_state, short_loc(p)), format!("{ctx}: {p}")));
        return out;
    }
    let stopped = case.ops.iter().any(|op| matches!(op, ROp::Stop(_)));
    let data = payload(case.data_len, 0x3c);
    if !stopped {
        if o.received != data {
            out.push((
                format!("C17:read:bytes-{}", if data.starts_with(&o.received) { "lost" } else { "corrupted" }),
                format!("{ctx}: Quinn delivered {} bytes, the adapter handed out {}", data.len(), hex(&o.received)),
            ));
        }
        let want = expect_read_terminal(case.end, case.code);
        if o.terminal != want {
            out.push((format!("C17:read:terminal:{}:got={}", case.end, o.terminal), format!("{ctx}: expected {want}, got {}", o.terminal)));
        }
    } else {
        // after stop_sending the bytes handed out must still be a prefix
        if !data.starts_with(&o.received) {
            out.push(("C17:read:bytes-corrupted-after-stop".into(), format!("{ctx}: {}", hex(&o.received))));
        }
        // the stop code must have reached Quinn once the read in flight has completed
        let codes: Vec<u64> = case.ops.iter().filter_map(|op| if let ROp::Stop(c) = op { Some(*c) } else { None }).collect();
        if o.terminal != "pending" && o.stops_seen_by_quinn.first() != codes.first() {
            out.push(("C17:read:stop_sending-code-lost".into(), format!("{ctx}: stop_sending({:x?}) called, Quinn saw stop({:x?})", codes, o.stops_seen_by_quinn)));
        }
    }
    // the condition that ended the stream keeps surfacing as the same class: in particular a reset never turns
    // into a clean end of stream on a later poll
    if !stopped && case.end == "reset" {
        let want = expect_read_terminal(case.end, case.code);
        for (i, a) in o.after_terminal.iter().enumerate() {
            if *a != want {
                out.push((format!("C17:read:reset-forgotten-on-a-later-poll:got={a}"), format!("{ctx}: poll_data reported {want}; poll #{} after that answered {a}", i + 1)));
                break;
            }
        }
    }
    // ... and neither does the loss of the connection (a peer's application close, a timeout): a later poll must not
    // present the stream as cleanly ended
    if !stopped && !matches!(case.end, "reset" | "fin" | "open") && o.terminal != "eof" && o.terminal != "pending" {
        for (i, a) in o.after_terminal.iter().enumerate() {
            if a == "eof" {
                out.push((
                    "C17:read:connection-error-forgotten-on-a-later-poll:got=eof".to_string(),
                    format!("{ctx}: poll_data reported {}; poll #{} after that answered a clean end of stream", o.terminal, i + 1),
                ));
                break;
            }
        }
    }
    // whatever Quinn answered as the end of the stream is what the adapter reports - also when a deferred
    // stop_sending is applied at that very moment (its failure must not replace the outcome of the read)
    if o.terminal != "pending" {
        let want = match o.quinn_first_terminal.as_deref() {
            Some("fin") | Some("none-after-stop") => Some("eof".to_string()),
            Some(t) if t.starts_with("reset:") => Some(format!("StreamTerminated({:#x})", t[6..].parse::<u64>().unwrap_or(0))),
            Some(t) if t.starts_with("lost:") => Some(expect_read_terminal(case.end, case.code)),
            Some("closed-stream") => Some("Unknown".to_string()),
            _ => None,
        };
        if let Some(w) = want {
            if o.terminal != w {
                out.push((format!("C17:read:end-of-stream-misreported:quinn={}:got={}", o.quinn_first_terminal.as_deref().unwrap_or("").split(':').next().unwrap_or(""), o.terminal), format!("{ctx}: Quinn ended the stream with {:?}; the adapter reported {} (expected {w})", o.quinn_first_terminal, o.terminal)));
            }
        }
    }
    if o.lost_wakeup {
        out.push(("C17:read:pending-without-wake-up".into(), format!("{ctx}: poll_data answered Pending although Quinn had something to deliver and no waker was registered or woken")));
    }
    if o.ids.iter().any(|i| *i != o.expected_id) {
        out.push(("C17:read:recv-id-wrong".into(), format!("{ctx}: recv_id() values {:?}, stream id {}", o.ids, o.expected_id)));
    }
    out
}

// ------------------------------------------------------------------------------------------------
// E: connection-level error mapping, close(), datagrams

pub fn e_checks(acc: &mut Acc) {
    let codes = [0u64, 0x10c, (1 << 62) - 1];
    let variants: Vec<(&str, Box<dyn Fn(u64) -> fq::ConnectionError>, Box<dyn Fn(u64) -> String>)> = vec![
        ("ApplicationClosed", Box::new(|c| fq::ConnectionError::ApplicationClosed(fq::ApplicationClose { error_code: fq::VarInt::from_u64(c).unwrap(), reason: Bytes::new() })), Box::new(|c| format!("ApplicationClose({c:#x})"))),
        ("TimedOut", Box::new(|_| fq::ConnectionError::TimedOut), Box::new(|_| "Timeout".into())),
        ("Reset", Box::new(|_| fq::ConnectionError::Reset), Box::new(|_| "Undefined".into())),
        ("LocallyClosed", Box::new(|_| fq::ConnectionError::LocallyClosed), Box::new(|_| "Undefined".into())),
        ("VersionMismatch", Box::new(|_| fq::ConnectionError::VersionMismatch), Box::new(|_| "Undefined".into())),
        ("CidsExhausted", Box::new(|_| fq::ConnectionError::CidsExhausted), Box::new(|_| "Undefined".into())),
        ("TransportError", Box::new(|c| fq::ConnectionError::TransportError(fq::TransportError { code: c })), Box::new(|_| "Undefined".into())),
        ("ConnectionClosed", Box::new(|c| fq::ConnectionError::ConnectionClosed(fq::ConnectionClose { error_code: c })), Box::new(|_| "Undefined".into())),
    ];
    for (name, mk, want) in &variants {
        for &code in &codes {
            for path in ["accept_bidi", "accept_recv", "open_bidi", "open_send", "opener_open_bidi", "opener_open_send", "read_datagram", "send_datagram"] {
                acc.evaluations += 1;
                let r = guard(|| {
                    let q = fq::Connection::new_scripted(true, false);
                    q.script_error(mk(code));
                    let mut c = Conn::new(q.clone());
                    cx_run(|cx| match path {
                        "accept_bidi" => match quic::Connection::<Bytes>::poll_accept_bidi(&mut c, cx) {
                            Poll::Ready(Err(e)) => conn_class(&e),
                            Poll::Ready(Ok(_)) => "ok".into(),
                            Poll::Pending => "pending".into(),
                        },
                        "accept_recv" => match quic::Connection::<Bytes>::poll_accept_recv(&mut c, cx) {
                            Poll::Ready(Err(e)) => conn_class(&e),
                            Poll::Ready(Ok(_)) => "ok".into(),
                            Poll::Pending => "pending".into(),
                        },
                        "open_bidi" => match quic::OpenStreams::<Bytes>::poll_open_bidi(&mut c, cx) {
                            Poll::Ready(Err(e)) => stream_class(&e).trim_start_matches("Conn:").to_string(),
                            Poll::Ready(Ok(_)) => "ok".into(),
                            Poll::Pending => "pending".into(),
                        },
                        "open_send" => match quic::OpenStreams::<Bytes>::poll_open_send(&mut c, cx) {
                            Poll::Ready(Err(e)) => stream_class(&e).trim_start_matches("Conn:").to_string(),
                            Poll::Ready(Ok(_)) => "ok".into(),
                            Poll::Pending => "pending".into(),
                        },
                        "opener_open_bidi" => {
                            let mut op = quic::Connection::<Bytes>::opener(&c);
                            match quic::OpenStreams::<Bytes>::poll_open_bidi(&mut op, cx) {
                                Poll::Ready(Err(e)) => stream_class(&e).trim_start_matches("Conn:").to_string(),
                                Poll::Ready(Ok(_)) => "ok".into(),
                                Poll::Pending => "pending".into(),
                            }
                        }
                        "opener_open_send" => {
                            let mut op = quic::Connection::<Bytes>::opener(&c);
                            match quic::OpenStreams::<Bytes>::poll_open_send(&mut op, cx) {
                                Poll::Ready(Err(e)) => stream_class(&e).trim_start_matches("Conn:").to_string(),
                                Poll::Ready(Ok(_)) => "ok".into(),
                                Poll::Pending => "pending".into(),
                            }
                        }
                        "read_datagram" => {
                            use h3_datagram::quic_traits::{DatagramConnectionExt, RecvDatagram};
                            let mut h = DatagramConnectionExt::<Bytes>::recv_datagram_handler(&c);
                            match h.poll_incoming_datagram(cx) {
                                Poll::Ready(Err(e)) => conn_class(&e),
                                Poll::Ready(Ok(_)) => "ok".into(),
                                Poll::Pending => "pending".into(),
                            }
                        }
                        _ => {
                            use h3_datagram::quic_traits::{DatagramConnectionExt, SendDatagram, SendDatagramErrorIncoming};
                            let mut h = DatagramConnectionExt::<Bytes>::send_datagram_handler(&c);
                            let d = h3_datagram::datagram::Datagram::new(quic::StreamId::try_from(8u64).unwrap(), Bytes::from_static(b"hi"));
                            match SendDatagram::<Bytes>::send_datagram(&mut h, d.encode()) {
                                Err(SendDatagramErrorIncoming::ConnectionError(e)) => conn_class(&e),
                                Err(other) => format!("{other:?}"),
                                Ok(()) => "ok".into(),
                            }
                        }
                    })
                });
                let w = want(code);
                match r {
                    Err(p) => acc.violation(format!("C17:errors:panic@{}:{path}", short_loc(&p)), format!("{name}({code:#x}) on {path}: {p}"), (0, 0), || json!({"kind":"errors"})),
                    Ok(got) if got == w => {
                        acc.outcomes.insert(explore::fnv_str(&got));
                    }
                    Ok(got) => acc.violation(format!("C17:errors:mapping:{name}:{path}:got={got}"), format!("Quinn's {name}({code:#x}) on {path} surfaced as {got}, expected {w}"), (0, 0), || json!({"kind":"errors"})),
                }
            }
        }
    }
    // close(code, reason) passes both through
    for code in [h3::error::Code::H3_NO_ERROR, h3::error::Code::H3_FRAME_UNEXPECTED, h3::error::Code::QPACK_DECOMPRESSION_FAILED] {
        acc.evaluations += 1;
        let r = guard(|| {
            let q = fq::Connection::new_scripted(true, false);
            let mut c = Conn::new(q.clone());
            quic::OpenStreams::<Bytes>::close(&mut c, code, b"why");
            let mut op = quic::Connection::<Bytes>::opener(&c);
            quic::OpenStreams::<Bytes>::close(&mut op, code, b"again");
            let g = q.0.lock().unwrap();
            g.closed.clone()
        });
        match r {
            Ok(v) if v == vec![(code.value(), b"why".to_vec()), (code.value(), b"again".to_vec())] => {}
            other => acc.violation("C17:errors:close-code-or-reason-changed".to_string(), format!("close({:#x}) reached Quinn as {other:?}", code.value()), (0, 0), || json!({"kind":"errors"})),
        }
    }
    // datagrams: bytes and stream id pass through unchanged, send errors map
    for id in [0u64, 4, 256, 65536 * 4] {
        for n in [0usize, 3, 1200] {
            acc.evaluations += 1;
            let p = payload(n, 7);
            let r = guard(|| {
                use h3_datagram::quic_traits::{DatagramConnectionExt, SendDatagram};
                let q = fq::Connection::new_scripted(true, false);
                let c = Conn::new(q.clone());
                let mut h = DatagramConnectionExt::<Bytes>::send_datagram_handler(&c);
                let d = h3_datagram::datagram::Datagram::new(quic::StreamId::try_from(id).unwrap(), Bytes::from(p.clone()));
                let _ = SendDatagram::<Bytes>::send_datagram(&mut h, d.encode());
                let g = q.0.lock().unwrap();
                g.datagrams_out.clone()
            });
            let want = refimpl::datagram::encode(id, &p).unwrap();
            match r {
                Ok(v) if v.len() == 1 && v[0][..] == want[..] => {}
                other => acc.violation("C17:datagram:bytes-changed".to_string(), format!("datagram for stream {id} with {n} bytes reached Quinn as {:?}, expected {}", other.map(|v| v.iter().map(|b| hex(b)).collect::<Vec<_>>()), hex(&want)), (0, 0), || json!({"kind":"errors"})),
            }
        }
    }
    for (e, want) in [(fq::SendDatagramError::UnsupportedByPeer, "NotAvailable"), (fq::SendDatagramError::Disabled, "NotAvailable"), (fq::SendDatagramError::TooLarge, "TooLarge")] {
        acc.evaluations += 1;
        let r = guard(|| {
            use h3_datagram::quic_traits::{DatagramConnectionExt, SendDatagram};
            let q = fq::Connection::new_scripted(true, false);
            q.0.lock().unwrap().datagram_send_error = Some(e.clone());
            let c = Conn::new(q.clone());
            let mut h = DatagramConnectionExt::<Bytes>::send_datagram_handler(&c);
            let d = h3_datagram::datagram::Datagram::new(quic::StreamId::try_from(4u64).unwrap(), Bytes::from_static(b"x"));
            format!("{:?}", SendDatagram::<Bytes>::send_datagram(&mut h, d.encode()))
        });
        match r {
            Ok(s) if s.contains(want) => {}
            other => acc.violation("C17:datagram:send-error-mapping".to_string(), format!("{e:?} surfaced as {other:?}, expected {want}"), (0, 0), || json!({"kind":"errors"})),
        }
    }
}

// ------------------------------------------------------------------------------------------------

fn w_json(c: &WCase, choices: &[u32], explore: bool) -> Value {
    json!({"kind":"write","frames":c.frames,"overlap_at":c.overlap_at,"fault":c.fault.map(|(a,k,code)| json!([a,k,code.to_string()])),"unframed":c.unframed,"bidi":c.bidi,"choices":choices,"explore":explore})
}
fn r_json(c: &RCase, choices: &[u32], explore: bool) -> Value {
    json!({"kind":"read","data_len":c.data_len,"end":c.end,"code":c.code.to_string(),"bidi":c.bidi,"ops":c.ops.iter().map(|o| match o { ROp::Poll => json!("poll"), ROp::Id => json!("id"), ROp::Stop(c) => json!(["stop", c.to_string()]) }).collect::<Vec<_>>(),"choices":choices,"explore":explore})
}

const FAULT_KINDS: [&str; 6] = ["stopped", "app-closed", "timed-out", "reset", "closed-stream", "zero-rtt"];
const ENDS: [&str; 7] = ["fin", "reset", "app-closed", "timed-out", "conn-reset", "closed-stream", "open"];

fn static_kind(s: &str) -> &'static str {
    FAULT_KINDS.iter().chain(ENDS.iter()).find(|k| **k == s).copied().unwrap_or("open")
}

fn run(tier: Tier, seed: u64) -> i32 {
    let thorough = tier == Tier::Thorough;
    let bound = if thorough { 6 } else { 4 };
    let mut rep = Report::new("C17", tier, seed, "model_checking");
    let _ = &mut rep;
    rep.exhaustive = true;
    rep.rule = format!(
        "the unmodified adapter source over the fakequinn stand-in. write path: frame sequences with payloads from {{0, 1, 5 bytes}} up to 3 frames, one 256 KiB frame, framed (send_data/poll_ready) and unframed (poll_send), on uni and bidi streams, an overlapping send_data inserted after every send_data, and one write fault of {{Stopped(c), ConnectionLost(ApplicationClosed(c)), ConnectionLost(TimedOut), ConnectionLost(Reset), ClosedStream, ZeroRttRejected}} from the k-th poll_write on (k = 0..4, c in {{0, 0x10c, 2^62-1}}), under EVERY poll_write answer sequence with <= {bound} deviations (accept 1 / half / n-1 bytes, Pending). read path: data of {{0, 1, 5, 40}} bytes x ending {{FIN, Reset(c), ConnectionLost(ApplicationClosed(c)), ConnectionLost(TimedOut), ConnectionLost(Reset), ClosedStream, open}} under every read_chunk answer sequence with <= {bound} deviations (chunk cuts, Pending), uni and bidi, with every operation sequence of length <= 3 over {{poll_data, recv_id, stop_sending(c)}} before the drain (identifier queries and stop_sending in every state: fresh, read pending, read completed, after FIN, after an error). Connection-level: all 8 ConnectionError variants x 3 codes on accept/open (connection and opener) and both datagram paths; close(code, reason); datagram bytes. After the terminal answer of a read poll_data is called twice more (neither a peer's reset nor the loss of the connection may turn into a clean end of stream). After a failed write one more send_data/poll_ready is issued, then reset(code); after a complete write poll_finish. poll_send: the count returned equals the bytes taken out of the caller's buffer, and nothing is taken when the answer is Pending. Oracle: bytes seen by the stand-in = reference encoding of the buffers whose write completed (a prefix on error), ids constant, no panic, error classes and codes preserved - also on the write after the failed one (a stream-scoped STOP_SENDING never becomes a connection-level error). states = distinct (case, answer sequence) outcomes; non-trivial = executions with a deviation."
    );
    rep.assumptions = vec![
        "fakequinn models the quinn 0.11 API subset the adapter uses; its answer alphabet is bound to real Quinn by the quinnreal conformance runs (accepted sizes and error variants observed on loopback lie inside the alphabet)".into(),
        "a rewrite of the adapter that uses a Quinn call the stand-in lacks fails to build (exit 2, 'stand-in incomplete'), never a verdict".into(),
    ];
    rep.bound_note = format!("deviation bound {bound} per execution");
    let codes = [0u64, 0x10c, (1 << 62) - 1];
    let mut wcases: Vec<WCase> = Vec::new();
    let seqs: Vec<Vec<usize>> = {
        let mut v: Vec<Vec<usize>> = vec![vec![0], vec![1], vec![5], vec![0, 1], vec![5, 0, 1], vec![1, 5, 5], vec![5, 5]];
        if thorough {
            for a in [0usize, 1, 5] {
                for b in [0usize, 1, 5] {
                    for c in [0usize, 1, 5] {
                        v.push(vec![a, b, c]);
                    }
                }
            }
        }
        v.sort();
        v.dedup();
        v
    };
    for frames in &seqs {
        for bidi in [false, true] {
            for unframed in [false, true] {
                wcases.push(WCase { frames: frames.clone(), overlap_at: None, fault: None, unframed, bidi });
                if !unframed {
                    for i in 0..frames.len() {
                        wcases.push(WCase { frames: frames.clone(), overlap_at: Some(i), fault: None, unframed, bidi });
                    }
                }
                if bidi && frames.len() > 2 && !thorough {
                    continue;
                }
                for kind in FAULT_KINDS {
                    for after in 0..=4usize {
                        for &code in if kind == "stopped" || kind == "app-closed" { &codes[..] } else { &codes[..1] } {
                            wcases.push(WCase { frames: frames.clone(), overlap_at: None, fault: Some((after, kind, code)), unframed, bidi });
                        }
                    }
                }
            }
        }
    }
    wcases.push(WCase { frames: vec![256 * 1024], overlap_at: None, fault: None, unframed: false, bidi: false });
    wcases.push(WCase { frames: vec![256 * 1024, 1], overlap_at: Some(0), fault: None, unframed: false, bidi: true });
    wcases.push(WCase { frames: vec![256 * 1024], overlap_at: None, fault: None, unframed: true, bidi: false });
    let mut rcases: Vec<RCase> = Vec::new();
    let mut opseqs: Vec<Vec<ROp>> = vec![vec![]];
    {
        let alphabet = [ROp::Poll, ROp::Id, ROp::Stop(0x10c)];
        let mut frontier: Vec<Vec<ROp>> = vec![vec![]];
        for _ in 0..3 {
            let mut next = Vec::new();
            for s in &frontier {
                for &o in &alphabet {
                    let mut t = s.clone();
                    t.push(o);
                    next.push(t);
                }
            }
            opseqs.extend(next.iter().cloned());
            frontier = next;
        }
    }
    for data_len in [0usize, 1, 5, 40] {
        for end in ENDS {
            for &code in if end == "reset" || end == "app-closed" { &codes[..] } else { &codes[..1] } {
                for bidi in [false, true] {
                    for ops in &opseqs {
                        if !ops.is_empty() && (data_len == 40 || (code != 0 && code != 0x10c)) && !thorough {
                            continue;
                        }
                        rcases.push(RCase { data_len, end, code, bidi, ops: ops.clone() });
                    }
                }
            }
        }
    }
    enum Job {
        W(WCase),
        R(RCase),
    }
    let jobs: Vec<Job> = wcases.iter().cloned().map(Job::W).chain(rcases.iter().cloned().map(Job::R)).collect();
    let deadline = std::time::Instant::now() + std::time::Duration::from_secs(if thorough { 1200 } else { 35 });
    let accs = explore::par::run(&jobs, Acc::new, |_, job, acc| {
        let caps = Caps { deadline: Some(deadline), max_executions: if thorough { 300_000 } else { 20_000 }, ..Caps::default() };
        let mut viol = ViolSet::new();
        let mut nontrivial: Vec<u64> = Vec::new();
        let mut outcomes: Vec<u64> = Vec::new();
        let key;
        let st = match job {
            Job::W(case) => {
                key = format!("{case:?}");
                dfs::explore(
                    bound,
                    &caps,
                    || w_execute(case, true),
                    |e, o| {
                        if e.cost > 0 {
                            let mut f = Fnv::new();
                            for c in &e.choices {
                                f.u64(*c as u64 + 1);
                            }
                            nontrivial.push(f.finish());
                        }
                        outcomes.push(explore::fnv_str(&format!("{:?}{:?}{}", o.results, o.overlap, o.written.len())));
                        for (sig, msg) in w_judge(case, &o) {
                            viol.add(sig, msg, (e.cost, e.choices.len() + case.frames.len()), &e.choices);
                        }
                    },
                )
            }
            Job::R(case) => {
                key = format!("{case:?}");
                dfs::explore(
                    bound,
                    &caps,
                    || r_execute(case, true),
                    |e, o| {
                        if e.cost > 0 {
                            let mut f = Fnv::new();
                            for c in &e.choices {
                                f.u64(*c as u64 + 1);
                            }
                            nontrivial.push(f.finish());
                        }
                        outcomes.push(explore::fnv_str(&format!("{}{}{:?}", o.terminal, o.received.len(), o.stops_seen_by_quinn)));
                        for (sig, msg) in r_judge(case, &o) {
                            viol.add(sig, msg, (e.cost, e.choices.len() + case.ops.len()), &e.choices);
                        }
                    },
                )
            }
        };
        if st.capped {
            acc.capped_cases += 1;
        }
        acc.dfs.merge(&st);
        acc.evaluations += st.executions;
        let h = explore::fnv_str(&key);
        for (i, o) in outcomes.iter().enumerate() {
            let mut f = Fnv::new();
            f.u64(h);
            f.u64(*o);
            acc.states.insert(f.finish());
            acc.outcomes.insert(*o);
            let _ = i;
        }
        for k in nontrivial {
            let mut f = Fnv::new();
            f.u64(h);
            f.u64(k);
            acc.nontrivial.insert(f.finish());
        }
        match job {
            Job::W(case) => viol.drain_into(acc, |choices| w_json(case, choices, true)),
            Job::R(case) => viol.drain_into(acc, |choices| r_json(case, choices, true)),
        }
    });
    let mut total = Acc::new();
    for a in accs {
        total.merge(a);
    }
    e_checks(&mut total);
    // conformance of the stand-in with real Quinn + the same oracle on real loopback runs
    // (when the exhaustive stand-in exploration has already found a violation the loopback runs - which may then
    // take minutes, e.g. waiting for a write that never completes - are skipped)
    let real = if total.violations.is_empty() { real_quinn(thorough) } else { Err("skipped: the stand-in exploration already reports a violation".into()) };
    match real {
        Ok(v) => {
            for x in v["violations"].as_array().cloned().unwrap_or_default() {
                total.violation(x["signature"].as_str().unwrap_or("C17:real:?").to_string(), format!("real Quinn loopback: {}", x["what"].as_str().unwrap_or("")), (0, 0), || json!({"kind":"real"}));
            }
            let failed = v["standin_facts_failed"].as_array().cloned().unwrap_or_default();
            if !failed.is_empty() {
                explore::machinery_failure(&format!("the fakequinn stand-in misrepresents real Quinn (not a verdict about h3): {failed:?}"));
            }
            total.count("real_quinn_runs", v["runs"].as_u64().unwrap_or(0));
            total.count("real_quinn_partial_writes_forced", v["partial_writes_forced"].as_u64().unwrap_or(0));
            total.count("real_quinn_pending_polls", v["pendings_seen"].as_u64().unwrap_or(0));
            total.count("standin_facts_checked_on_real_quinn", v["standin_facts_checked"].as_u64().unwrap_or(0));
            rep.extra.insert("real_quinn_conformance".into(), v);
        }
        Err(e) => {
            if total.violations.is_empty() {
                explore::machinery_failure(&format!("real-Quinn conformance runs failed to run: {e} (not a verdict about h3)"));
            }
            // the stand-in exploration has already decided: report that, and say that the loopback runs did not finish
            eprintln!("NOTE: real-Quinn conformance runs did not finish ({e}); the violations below come from the exhaustive stand-in exploration");
            total.count("real_quinn_runs_did_not_finish", 1);
        }
    }
    total.count("write_cases", wcases.len() as u64);
    total.count("read_cases", rcases.len() as u64);
    total.samples.push(json!(format!("{:?}", wcases[wcases.len() / 3])));
    total.samples.push(json!(format!("{:?}", rcases[rcases.len() / 2])));
    total.samples.push(json!({"errors":"ConnectionError::ApplicationClosed(0x10c) on poll_accept_bidi","reference":"ApplicationClose{0x10c}"}));
    rep.finish(total)
}

/// Runs the sibling binary `quinnreal` (real adapter over real Quinn on loopback) with a wall cap.
fn real_quinn(thorough: bool) -> Result<Value, String> {
    let exe = std::env::current_exe().map_err(|e| e.to_string())?;
    let bin = exe.parent().ok_or("no parent dir")?.join("quinnreal");
    let mut child = std::process::Command::new(&bin)
        .arg(if thorough { "thorough" } else { "quick" })
        .env("RUST_BACKTRACE", "0")
        .stdout(std::process::Stdio::piped())
        .stderr(std::process::Stdio::inherit())
        .spawn()
        .map_err(|e| format!("{}: {e}", bin.display()))?;
    let cap = std::time::Duration::from_secs(if thorough { 1300 } else { 450 });
    let start = std::time::Instant::now();
    let mut stdout = child.stdout.take().ok_or("no stdout")?;
    let reader = std::thread::spawn(move || {
        let mut s = String::new();
        let _ = std::io::Read::read_to_string(&mut stdout, &mut s);
        s
    });
    loop {
        match child.try_wait().map_err(|e| e.to_string())? {
            Some(st) => {
                let text = reader.join().map_err(|_| "reader thread")?;
                if !st.success() {
                    return Err(format!("quinnreal exited with {st}"));
                }
                return serde_json::from_str(text.trim()).map_err(|e| format!("unparsable output: {e}"));
            }
            None => {
                if start.elapsed() > cap {
                    let _ = child.kill();
                    return Err(format!("quinnreal still running after {cap:?}"));
                }
                std::thread::sleep(std::time::Duration::from_millis(50));
            }
        }
    }
}

fn replay(path: &str) -> i32 {
    let text = std::fs::read_to_string(path).expect("replay file");
    let v: Value = serde_json::from_str(&text).expect("json");
    let r = &v["replay"];
    println!("replaying {}", v["signature"]);
    let choices: Vec<u32> = r["choices"].as_array().map(|a| a.iter().map(|x| x.as_u64().unwrap() as u32).collect()).unwrap_or_default();
    let viol = match r["kind"].as_str() {
        Some("write") => {
            let case = WCase {
                frames: r["frames"].as_array().unwrap().iter().map(|x| x.as_u64().unwrap() as usize).collect(),
                overlap_at: r["overlap_at"].as_u64().map(|x| x as usize),
                fault: r["fault"].as_array().map(|a| (a[0].as_u64().unwrap() as usize, static_kind(a[1].as_str().unwrap()), a[2].as_str().unwrap().parse().unwrap())),
                unframed: r["unframed"].as_bool().unwrap(),
                bidi: r["bidi"].as_bool().unwrap(),
            };
            let (o, _, d) = dfs::replay(&choices, || w_execute(&case, true));
            let (o2, _, _) = dfs::replay(&choices, || w_execute(&case, true));
            if d.is_some() || o != o2 {
                println!("REPLAY DIVERGED");
                return 2;
            }
            println!("case {case:?}\noutcome: results {:?} overlap {:?} written {} bytes ids {:?} panic {:?}", o.results, o.overlap, o.written.len(), o.send_ids, o.panic);
            w_judge(&case, &o)
        }
        Some("read") => {
            let case = RCase {
                data_len: r["data_len"].as_u64().unwrap() as usize,
                end: static_kind(r["end"].as_str().unwrap()),
                code: r["code"].as_str().unwrap().parse().unwrap(),
                bidi: r["bidi"].as_bool().unwrap(),
                ops: r["ops"].as_array().unwrap().iter().map(|o| match o { Value::String(s) if s == "poll" => ROp::Poll, Value::String(_) => ROp::Id, a => ROp::Stop(a[1].as_str().unwrap().parse().unwrap()) }).collect(),
            };
            let (o, _, d) = dfs::replay(&choices, || r_execute(&case, true));
            let (o2, _, _) = dfs::replay(&choices, || r_execute(&case, true));
            if d.is_some() || o != o2 {
                println!("REPLAY DIVERGED");
                return 2;
            }
            println!("case {case:?}\noutcome: {o:?}");
            r_judge(&case, &o)
        }
        Some("real") => match real_quinn(false) {
            Ok(v) => v["violations"].as_array().cloned().unwrap_or_default().iter().map(|x| (x["signature"].as_str().unwrap_or("").to_string(), x["what"].as_str().unwrap_or("").to_string())).collect(),
            Err(e) => {
                println!("MACHINERY-FAILURE: {e}");
                return 2;
            }
        },
        _ => {
            let mut acc = Acc::new();
            e_checks(&mut acc);
            acc.violations.into_iter().map(|(s, v)| (s, v.what)).collect()
        }
    };
    for (sig, msg) in &viol {
        println!("observed: {sig}: {msg}");
    }
    if viol.is_empty() {
        println!("observed: no violation");
        0
    } else {
        1
    }
}

fn main() {
    let argv: Vec<String> = std::env::args().collect();
    install_panic_hook();
    if argv.len() >= 3 && argv[1] == "--replay" {
        std::process::exit(replay(&argv[2]));
    }
    let tier = match argv.get(1).map(|s| s.as_str()) {
        Some("thorough") => Tier::Thorough,
        _ => Tier::Quick,
    };
    let seed = std::env::var("VERIF_SEED").ok().and_then(|s| s.parse().ok()).unwrap_or(0u64);
    std::process::exit(run(tier, seed));
}
