//! C17 conformance runs: the REAL adapter (h3-quinn as it is in /repo) over REAL Quinn on loopback.
//!
//! Two purposes (DESIGN.md E4):
//!  (a) evaluate the C17 oracle on real runs - bytes read by a raw Quinn peer vs. bytes handed to the
//!      adapter with receive windows from 1 byte upwards, identifiers, error classes for peer-side
//!      stop / reset / application close / idle timeout;
//!  (b) bind the `fakequinn` stand-in to the real thing: the answers real Quinn gives to the calls
//!      the adapter makes (accepted sizes, Pending, error variants, behaviour after stop/finish)
//!      must lie inside the alphabet the stand-in enumerates.
//!
//! These runs are real-time and not exhaustive; they are reported as conformance evidence, not as
//! the deciding step. Prints one JSON object on stdout. Exit 0 = ran (violations, if any, are in
//! the JSON), 2 = machinery failure (timeout, loopback unavailable).

use bytes::{Buf, Bytes};
use h3::proto::frame::Frame;
use h3::quic::{self, ConnectionErrorIncoming, RecvStream as _, SendStream as _, SendStreamUnframed as _, StreamErrorIncoming};
use quinn::crypto::rustls::{QuicClientConfig, QuicServerConfig};
use quinn::{TransportConfig, VarInt};
use refimpl::frames as rf;
use rustls::pki_types::{CertificateDer, PrivateKeyDer};
use serde_json::{json, Value};
use std::future::poll_fn;
use std::net::{Ipv6Addr, SocketAddr};
use std::sync::Arc;
use std::task::Poll;
use std::time::Duration;

fn conn_class(e: &ConnectionErrorIncoming) -> String {
    match e {
        ConnectionErrorIncoming::ApplicationClose { error_code } => format!("ApplicationClose({error_code:#x})"),
        ConnectionErrorIncoming::Timeout => "Timeout".into(),
        ConnectionErrorIncoming::InternalError(_) => "InternalError".into(),
        ConnectionErrorIncoming::Undefined(_) => "Undefined".into(),
    }
}
fn stream_class(e: &StreamErrorIncoming) -> String {
    match e {
        StreamErrorIncoming::ConnectionErrorIncoming { connection_error } => format!("Conn:{}", conn_class(connection_error)),
        StreamErrorIncoming::StreamTerminated { error_code } => format!("StreamTerminated({error_code:#x})"),
        StreamErrorIncoming::Unknown(_) => "Unknown".into(),
    }
}
fn payload(n: usize, salt: u8) -> Vec<u8> {
    (0..n).map(|i| ((i as u32).wrapping_mul(2654435761) >> 11) as u8 ^ salt).collect()
}

struct Certs {
    cert: CertificateDer<'static>,
    key: PrivateKeyDer<'static>,
}

fn certs() -> Certs {
    let c = rcgen::generate_simple_self_signed(vec!["localhost".into()]).unwrap();
    Certs { cert: c.cert.into(), key: PrivateKeyDer::Pkcs8(c.signing_key.serialize_der().into()) }
}

#[derive(Clone, Copy, Debug)]
struct Win {
    /// receive windows of BOTH endpoints (stream, connection); None = Quinn's default
    stream: Option<u32>,
    conn: Option<u32>,
    idle_ms: Option<u32>,
}

fn transport(w: Win) -> Arc<TransportConfig> {
    let mut t = TransportConfig::default();
    if let Some(s) = w.stream {
        t.stream_receive_window(VarInt::from_u32(s));
    }
    if let Some(c) = w.conn {
        t.receive_window(VarInt::from_u32(c));
    }
    if let Some(ms) = w.idle_ms {
        t.max_idle_timeout(Some(VarInt::from_u32(ms).into()));
    }
    t.initial_rtt(Duration::from_millis(5));
    Arc::new(t)
}

struct Pair {
    _server_ep: quinn::Endpoint,
    _client_ep: quinn::Endpoint,
    server: quinn::Connection,
    client: quinn::Connection,
}

async fn pair(c: &Certs, w: Win) -> Pair {
    let provider = Arc::new(rustls::crypto::ring::default_provider());
    let mut sc = rustls::ServerConfig::builder_with_provider(provider.clone())
        .with_protocol_versions(&[&rustls::version::TLS13])
        .unwrap()
        .with_no_client_auth()
        .with_single_cert(vec![c.cert.clone()], c.key.clone_key())
        .unwrap();
    sc.alpn_protocols = vec![b"h3".to_vec()];
    let mut server_config = quinn::ServerConfig::with_crypto(Arc::new(QuicServerConfig::try_from(sc).unwrap()));
    server_config.transport = transport(w);
    let server_ep = quinn::Endpoint::server(server_config, SocketAddr::from((Ipv6Addr::LOCALHOST, 0))).expect("loopback server endpoint");
    let port = server_ep.local_addr().unwrap().port();
    let mut roots = rustls::RootCertStore::empty();
    roots.add(c.cert.clone()).unwrap();
    let mut cc = rustls::ClientConfig::builder_with_provider(provider).with_protocol_versions(&[&rustls::version::TLS13]).unwrap().with_root_certificates(roots).with_no_client_auth();
    cc.alpn_protocols = vec![b"h3".to_vec()];
    let mut client_config = quinn::ClientConfig::new(Arc::new(QuicClientConfig::try_from(cc).unwrap()));
    client_config.transport_config(transport(w));
    let mut client_ep = quinn::Endpoint::client(SocketAddr::from((Ipv6Addr::LOCALHOST, 0))).expect("loopback client endpoint");
    client_ep.set_default_client_config(client_config);
    let connecting = client_ep.connect(SocketAddr::from((Ipv6Addr::LOCALHOST, port)), "localhost").unwrap();
    let (client, server) = tokio::join!(async { connecting.await.expect("client connect") }, async { server_ep.accept().await.expect("incoming").await.expect("server accept") });
    Pair { _server_ep: server_ep, _client_ep: client_ep, server, client }
}

#[derive(Default)]
struct Out {
    runs: u64,
    violations: Vec<Value>,
    /// facts observed about real Quinn that the stand-in relies on: (fact, holds)
    facts: Vec<(String, bool, String)>,
    partial_writes_forced: u64,
    pendings_seen: u64,
    accepted_sizes_outside_alphabet: u64,
    scenarios: Vec<Value>,
}

impl Out {
    fn viol(&mut self, sig: &str, what: String) {
        self.violations.push(json!({"signature": sig, "what": what}));
    }
    fn fact(&mut self, name: &str, holds: bool, detail: String) {
        self.facts.push((name.to_string(), holds, detail));
    }
}

impl Out {
    fn merge(&mut self, o: Out) {
        self.runs += o.runs;
        self.violations.extend(o.violations);
        self.facts.extend(o.facts);
        self.partial_writes_forced += o.partial_writes_forced;
        self.pendings_seen += o.pendings_seen;
        self.accepted_sizes_outside_alphabet += o.accepted_sizes_outside_alphabet;
    }
}

static LAST_PANIC: std::sync::Mutex<Option<String>> = std::sync::Mutex::new(None);

/// Runs one scenario as its own task so that a panic inside the adapter is an observation
/// (a violation of "never panics"), not the end of the conformance run.
async fn guarded(out: &mut Out, what: String, fut: impl std::future::Future<Output = Out> + Send + 'static) {
    match tokio::time::timeout(Duration::from_secs(150), tokio::spawn(fut)).await {
        Ok(Ok(o)) => out.merge(o),
        Ok(Err(e)) => {
            out.runs += 1;
            let p = LAST_PANIC.lock().unwrap().take().unwrap_or_else(|| e.to_string());
            let loc = p.rsplit(" @ ").next().unwrap_or("").trim_start_matches("/repo/").split(':').next().unwrap_or("").to_string();
            out.viol(&format!("C17:real:panic@{loc}"), format!("{what}: {p}"));
        }
        Err(_) => {
            eprintln!("MACHINERY-FAILURE: real-Quinn scenario did not finish within 150 s: {what} (not a verdict)");
            std::process::exit(2);
        }
    }
}

type AConn = h3_quinn::Connection;

async fn open_send(c: &mut AConn) -> h3_quinn::SendStream<Bytes> {
    poll_fn(|cx| quic::OpenStreams::<Bytes>::poll_open_send(c, cx)).await.expect("open_send")
}
async fn open_bidi(c: &mut AConn) -> h3_quinn::BidiStream<Bytes> {
    poll_fn(|cx| quic::OpenStreams::<Bytes>::poll_open_bidi(c, cx)).await.expect("open_bidi")
}

/// S1: frames through the adapter under small receive windows; a raw Quinn peer reads them.
async fn s_write(c: Arc<Certs>, w: Win, frames: Vec<usize>, unframed: bool, bidi: bool) -> Out {
    let mut out = Out::default();
    let frames = &frames[..];
    out.runs += 1;
    let p = pair(&c, w).await;
    let mut a = AConn::new(p.client.clone());
    let server = p.server.clone();
    let reader = tokio::spawn(async move {
        if bidi {
            let (_s, mut r) = server.accept_bi().await.expect("accept_bi");
            let id: u64 = r.id().into();
            (id, r.read_to_end(8 << 20).await.expect("read_to_end"))
        } else {
            let mut r = server.accept_uni().await.expect("accept_uni");
            let id: u64 = r.id().into();
            (id, r.read_to_end(8 << 20).await.expect("read_to_end"))
        }
    });
    let mut want = Vec::new();
    let mut ids = Vec::new();
    let mut pendings = 0u64;
    macro_rules! drive {
        ($s:ident) => {{
            for (i, &n) in frames.iter().enumerate() {
                let data = payload(n, i as u8);
                if unframed {
                    want.extend_from_slice(&data);
                    let mut buf = Bytes::from(data);
                    while buf.has_remaining() {
                        let before = buf.remaining();
                        let r = poll_fn(|cx| match $s.poll_send(cx, &mut buf) {
                            Poll::Pending => {
                                pendings += 1;
                                Poll::Pending
                            }
                            r => r,
                        })
                        .await;
                        match r {
                            Ok(k) => {
                                if k == 0 || k > before {
                                    out.accepted_sizes_outside_alphabet += 1;
                                }
                                if k < before {
                                    out.partial_writes_forced += 1;
                                }
                            }
                            Err(e) => {
                                out.viol("C17:real:write:error-without-fault", format!("{w:?} frames {frames:?}: {}", stream_class(&e)));
                                return out;
                            }
                        }
                    }
                } else {
                    want.extend(rf::frame(rf::DATA, &data));
                    $s.send_data(Frame::Data(Bytes::from(data))).expect("send_data on an idle stream");
                    ids.push($s.send_id().into_inner());
                    let r = poll_fn(|cx| match $s.poll_ready(cx) {
                        Poll::Pending => {
                            pendings += 1;
                            ids.push($s.send_id().into_inner());
                            Poll::Pending
                        }
                        r => r,
                    })
                    .await;
                    if let Err(e) = r {
                        out.viol("C17:real:write:error-without-fault", format!("{w:?} frames {frames:?}: {}", stream_class(&e)));
                        return out;
                    }
                }
                ids.push($s.send_id().into_inner());
            }
            poll_fn(|cx| $s.poll_finish(cx)).await.expect("finish");
            ids.push($s.send_id().into_inner());
        }};
    }
    if bidi {
        let mut s = open_bidi(&mut a).await;
        drive!(s);
        let (id, got) = reader.await.expect("reader task");
        judge_write(&mut out, w, frames, unframed, &want, &got, id, &ids);
        drop(s);
    } else {
        let mut s = open_send(&mut a).await;
        drive!(s);
        let (id, got) = reader.await.expect("reader task");
        judge_write(&mut out, w, frames, unframed, &want, &got, id, &ids);
        drop(s);
    }
    out.pendings_seen += pendings;
    p.client.close(VarInt::from_u32(0), b"done");
    out
}

fn judge_write(out: &mut Out, w: Win, frames: &[usize], unframed: bool, want: &[u8], got: &[u8], id: u64, ids: &[u64]) {
    if got != want {
        out.viol(
            "C17:real:write:bytes-differ",
            format!("{w:?} frames {frames:?} unframed={unframed}: the raw Quinn peer read {} bytes, handed over {} bytes, first difference at {:?}", got.len(), want.len(), got.iter().zip(want).position(|(a, b)| a != b)),
        );
    }
    if ids.iter().any(|i| *i != id) {
        out.viol("C17:real:write:send-id-wrong", format!("{w:?}: send_id() values {ids:?}, the peer saw stream {id}"));
    }
}

/// S2: the peer sends on a stream with tiny windows / resets it / the connection goes away while the
/// adapter reads; recv_id is queried after every poll, also while the read is pending.
async fn s_read(c: Arc<Certs>, w: Win, n: usize, end: &'static str, code: u64, bidi: bool) -> Out {
    let mut out = Out::default();
    out.runs += 1;
    let p = pair(&c, w).await;
    let mut a = AConn::new(p.client.clone());
    let data = payload(n, 0x5a);
    let server = p.server.clone();
    let d2 = data.clone();
    let (tx, rx) = tokio::sync::oneshot::channel::<()>();
    let writer = tokio::spawn(async move {
        let mut s = if bidi {
            // a server-initiated bidi stream is not what h3 uses; the client opens and the server answers
            let (s, mut r) = server.accept_bi().await.expect("accept_bi");
            // keep reading the other half (dropping it would send STOP_SENDING, not reading it would block the client's write)
            tokio::spawn(async move {
                let _ = r.read_to_end(1 << 20).await;
            });
            s
        } else {
            server.open_uni().await.expect("open_uni")
        };
        let id: u64 = s.id().into();
        s.write_all(&d2).await.expect("peer write");
        match end {
            "fin" => {
                s.finish().expect("finish");
                let _ = s.stopped().await;
            }
            "reset" => {
                // let the data arrive first (a reset may legitimately overtake it otherwise)
                if !d2.is_empty() {
                    let _ = rx.await;
                }
                s.reset(VarInt::from_u64(code).unwrap()).expect("reset");
                tokio::time::sleep(Duration::from_millis(50)).await;
            }
            "app-closed" => {
                let _ = rx.await;
                server.close(VarInt::from_u64(code).unwrap(), b"bye");
                tokio::time::sleep(Duration::from_millis(50)).await;
            }
            _ => {
                // "timed-out": go silent and let the idle timer fire
                let _ = rx.await;
                tokio::time::sleep(Duration::from_millis(w.idle_ms.unwrap_or(0) as u64 * 3)).await;
            }
        }
        id
    });
    let mut got = Vec::new();
    let mut ids = Vec::new();
    let mut tx = Some(tx);
    let terminal;
    macro_rules! drain {
        ($r:ident) => {{
            loop {
                if got.len() >= data.len() {
                    if let Some(t) = tx.take() {
                        let _ = t.send(());
                    }
                }
                let r = poll_fn(|cx| match $r.poll_data(cx) {
                    Poll::Pending => {
                        // the state the property names: identifier asked for while a read is pending
                        ids.push($r.recv_id().into_inner());
                        out.pendings_seen += 1;
                        Poll::Pending
                    }
                    r => r,
                })
                .await;
                ids.push($r.recv_id().into_inner());
                match r {
                    Ok(Some(mut b)) => {
                        let v = b.copy_to_bytes(b.remaining());
                        got.extend_from_slice(&v);
                    }
                    Ok(None) => break "eof".to_string(),
                    Err(e) => break stream_class(&e),
                }
            }
        }};
    }
    if bidi {
        let mut s = open_bidi(&mut a).await;
        // make the stream visible to the peer
        s.send_data(Frame::Data(Bytes::from_static(b"x"))).unwrap();
        poll_fn(|cx| s.poll_ready(cx)).await.expect("first write");
        terminal = drain!(s);
    } else {
        let mut r = poll_fn(|cx| quic::Connection::<Bytes>::poll_accept_recv(&mut a, cx)).await.expect("accept_recv");
        terminal = drain!(r);
    }
    let id = writer.await.expect("writer task");
    let want_terminal = match end {
        "fin" => "eof".to_string(),
        "reset" => format!("StreamTerminated({code:#x})"),
        "app-closed" => format!("Conn:ApplicationClose({code:#x})"),
        _ => "Conn:Timeout".to_string(),
    };
    let ctx = format!("{w:?} n={n} end={end} code={code:#x} bidi={bidi}");
    if terminal != want_terminal {
        out.viol(&format!("C17:real:read:terminal:{end}:got={terminal}"), format!("{ctx}: expected {want_terminal}"));
    }
    if got != data {
        out.viol("C17:real:read:bytes-differ", format!("{ctx}: peer wrote {} bytes, adapter handed out {}", data.len(), got.len()));
    }
    if ids.iter().any(|i| *i != id) {
        out.viol("C17:real:read:recv-id-wrong", format!("{ctx}: recv_id() values differ from the peer's stream id {id}"));
    }
    p.client.close(VarInt::from_u32(0), b"done");
    out
}

/// S3: the peer stops a stream / closes the connection while the adapter writes.
async fn s_write_fault(c: Arc<Certs>, w: Win, fault: &'static str, code: u64) -> Out {
    let mut out = Out::default();
    out.runs += 1;
    let p = pair(&c, w).await;
    let mut a = AConn::new(p.client.clone());
    let server = p.server.clone();
    let peer = tokio::spawn(async move {
        let mut r = server.accept_uni().await.expect("accept_uni");
        let mut first = [0u8; 1];
        let _ = r.read(&mut first).await;
        match fault {
            "stopped" => {
                r.stop(VarInt::from_u64(code).unwrap()).expect("stop");
                tokio::time::sleep(Duration::from_millis(100)).await;
            }
            _ => {
                server.close(VarInt::from_u64(code).unwrap(), b"bye");
                tokio::time::sleep(Duration::from_millis(100)).await;
            }
        }
    });
    let mut s = open_send(&mut a).await;
    let mut result = "ok".to_string();
    // keep writing frames until the fault surfaces (bounded)
    for i in 0..4000usize {
        if let Err(e) = s.send_data(Frame::Data(Bytes::from(payload(512, i as u8)))) {
            result = format!("send_data:{}", stream_class(&e));
            break;
        }
        if let Err(e) = poll_fn(|cx| s.poll_ready(cx)).await {
            result = stream_class(&e);
            break;
        }
        if i % 8 == 7 {
            tokio::time::sleep(Duration::from_millis(1)).await;
        }
    }
    let _ = peer.await;
    let want = match fault {
        "stopped" => format!("StreamTerminated({code:#x})"),
        _ => format!("Conn:ApplicationClose({code:#x})"),
    };
    if result != want {
        out.viol(&format!("C17:real:write:error-mapping:{fault}:got={result}"), format!("{w:?} code {code:#x}: expected {want}"));
    }
    // accept/open after an application close report the same class
    if fault == "app-closed" {
        let r = poll_fn(|cx| quic::Connection::<Bytes>::poll_accept_bidi(&mut a, cx)).await;
        let got = match r {
            Ok(_) => "ok".to_string(),
            Err(e) => conn_class(&e),
        };
        let want = format!("ApplicationClose({code:#x})");
        if got != want {
            out.viol(&format!("C17:real:accept:error-mapping:app-closed:got={got}"), format!("expected {want}"));
        }
        let r = poll_fn(|cx| quic::OpenStreams::<Bytes>::poll_open_bidi(&mut a, cx)).await;
        let got = match r {
            Ok(_) => "ok".to_string(),
            Err(e) => stream_class(&e),
        };
        let want = format!("Conn:ApplicationClose({code:#x})");
        if got != want {
            out.viol(&format!("C17:real:open:error-mapping:app-closed:got={got}"), format!("expected {want}"));
        }
    }
    p.client.close(VarInt::from_u32(0), b"done");
    out
}

/// S4: close(code, reason) through the adapter is what the peer observes.
async fn s_close(c: Arc<Certs>, code: h3::error::Code) -> Out {
    let mut out = Out::default();
    out.runs += 1;
    let p = pair(&c, Win { stream: None, conn: None, idle_ms: None }).await;
    let mut a = AConn::new(p.client.clone());
    quic::OpenStreams::<Bytes>::close(&mut a, code, b"why");
    let e = p.server.closed().await;
    match e {
        quinn::ConnectionError::ApplicationClosed(ac) if ac.error_code.into_inner() == code.value() && &ac.reason[..] == b"why" => {}
        other => out.viol("C17:real:close-code-or-reason-changed", format!("close({:#x}, \"why\") reached the peer as {other:?}", code.value())),
    }
    out
}

/// S5: facts about real Quinn that the stand-in's answers are built on.
async fn s_facts(c: Arc<Certs>) -> Out {
    let mut out = Out::default();
    out.runs += 1;
    let p = pair(&c, Win { stream: Some(16), conn: Some(64), idle_ms: None }).await;
    // (1) poll_write under a 16-byte window: accepted sizes are in 1..=n, then Pending
    let mut s = p.client.open_uni().await.unwrap();
    let id_before: u64 = s.id().into();
    let buf = payload(100, 1);
    let mut accepted = Vec::new();
    let mut pending = false;
    for _ in 0..4 {
        let r = poll_fn(|cx| Poll::Ready(std::pin::Pin::new(&mut s).poll_write(cx, &buf))).await;
        match r {
            Poll::Ready(Ok(k)) => accepted.push(k),
            Poll::Ready(Err(_)) => break,
            Poll::Pending => {
                pending = true;
                break;
            }
        }
    }
    out.fact("poll_write accepts between 1 and n bytes", !accepted.is_empty() && accepted.iter().all(|k| *k >= 1 && *k <= 100), format!("accepted {accepted:?} of 100 under a 16-byte stream window"));
    out.fact("poll_write answers Pending when the window is exhausted", pending, format!("after {accepted:?}"));
    let id_after: u64 = s.id().into();
    out.fact("SendStream::id is stable", id_before == id_after, format!("{id_before} {id_after}"));
    // (2) after finish(), a write is refused with ClosedStream; a second finish is refused
    let mut s2 = p.client.open_uni().await.unwrap();
    s2.write_all(b"ab").await.unwrap();
    s2.finish().unwrap();
    let r = poll_fn(|cx| Poll::Ready(std::pin::Pin::new(&mut s2).poll_write(cx, b"x"))).await;
    out.fact("poll_write after finish() -> ClosedStream", matches!(r, Poll::Ready(Err(quinn::WriteError::ClosedStream))), format!("{r:?}"));
    out.fact("finish() twice -> Err(ClosedStream)", s2.finish().is_err(), String::new());
    // (3) receive side: stop() then read -> ClosedStream; stop() twice -> Err; read after FIN -> None again
    let mut r1 = p.server.accept_uni().await.unwrap();
    let rid: u64 = r1.id().into();
    out.fact("the peer sees the same stream id", rid == id_before, format!("{rid} vs {id_before}"));
    r1.stop(VarInt::from_u32(7)).unwrap();
    let rr = r1.read_chunk(usize::MAX, true).await;
    out.fact("read_chunk after stop() -> Ok(None)", matches!(rr, Ok(None)), format!("{rr:?}"));
    out.fact("stop() twice -> Err(ClosedStream)", r1.stop(VarInt::from_u32(8)).is_err(), String::new());
    let mut r2 = p.server.accept_uni().await.unwrap();
    let all = r2.read_to_end(100).await.unwrap();
    let again = r2.read_chunk(usize::MAX, true).await;
    out.fact("read_chunk after FIN -> Ok(None) again", all == b"ab" && matches!(again, Ok(None)), format!("{again:?}"));
    // (4) the stopped writer sees Stopped(code)
    // (the window is exhausted: the write waits until the STOP_SENDING arrives - no fixed delay to depend on)
    let r = tokio::time::timeout(Duration::from_secs(20), s.write(&buf)).await;
    out.fact("write after the peer's stop(7) -> Stopped(7)", matches!(&r, Ok(Err(quinn::WriteError::Stopped(c))) if c.into_inner() == 7), format!("{r:?}"));
    // (5) reset(code) then the peer's read -> Reset(code)
    let mut s3 = p.client.open_uni().await.unwrap();
    s3.write_all(b"q").await.unwrap();
    let mut r3 = p.server.accept_uni().await.unwrap();
    s3.reset(VarInt::from_u32(0x10c)).unwrap();
    tokio::time::sleep(Duration::from_millis(50)).await;
    let mut last = r3.read_chunk(usize::MAX, true).await;
    if matches!(last, Ok(Some(_))) {
        last = r3.read_chunk(usize::MAX, true).await;
    }
    out.fact("read_chunk after the peer's reset(0x10c) -> Reset(0x10c)", matches!(&last, Err(quinn::ReadError::Reset(c)) if c.into_inner() == 0x10c), format!("{last:?}"));
    let again = r3.read_chunk(usize::MAX, true).await;
    out.fact("read_chunk once more after it reported Reset -> Ok(None) (quinn forgets the reset)", matches!(&again, Ok(None)), format!("{again:?}"));
    let st = r3.stop(VarInt::from_u32(9));
    out.fact("stop() after the read reported Reset -> Err(ClosedStream)", st.is_err(), format!("{st:?}"));
    let st = r2.stop(VarInt::from_u32(9));
    out.fact("stop() after the read reported FIN -> Err(ClosedStream)", st.is_err(), format!("{st:?}"));
    // (6) after the peer's close(code), accept/open/read report ApplicationClosed(code)
    p.server.close(VarInt::from_u32(0x101), b"x");
    tokio::time::sleep(Duration::from_millis(50)).await;
    let e = p.client.accept_uni().await;
    out.fact("accept_uni after the peer's close(0x101) -> ApplicationClosed(0x101)", matches!(&e, Err(quinn::ConnectionError::ApplicationClosed(ac)) if ac.error_code.into_inner() == 0x101), format!("{:?}", e.as_ref().err()));
    let e = p.client.open_bi().await;
    out.fact("open_bi after the peer's close -> ApplicationClosed", matches!(&e, Err(quinn::ConnectionError::ApplicationClosed(_))), format!("{:?}", e.as_ref().err()));
    let e = p.client.send_datagram(Bytes::from_static(b"d"));
    out.fact("send_datagram after the peer's close -> ConnectionLost(ApplicationClosed)", matches!(&e, Err(quinn::SendDatagramError::ConnectionLost(quinn::ConnectionError::ApplicationClosed(_)))), format!("{e:?}"));
    out
}

/// S6: real h3 server + real adapter + real Quinn. The peer asks to stop sending on one request; the handler
/// notices the failed send_data and finishes the stream anyway (finish() writes h3's grease frame). The condition
/// is stream-scoped: the connection must stay usable and a second request must complete.
async fn s_stop_then_finish(c: Arc<Certs>, grease: bool) -> Out {
    let mut out = Out::default();
    out.runs += 1;
    let p = pair(&c, Win { stream: None, conn: None, idle_ms: None }).await;
    // the h3 endpoint is the quinn *server*; the scripted peer is the raw quinn client
    let mut b = h3::server::builder();
    b.send_grease(grease);
    let raw = p.client.clone();
    const REQ: &[u8] = &[0x01, 0x08, 0x00, 0x00, 0xd1, 0xd7, 0xc1, 0x50, 0x01, b'a'];
    let peer = tokio::spawn(async move {
        let mut ctrl = raw.open_uni().await.expect("ctrl");
        ctrl.write_all(&[0x00, 0x04, 0x00]).await.expect("settings");
        let (mut s0, mut r0) = raw.open_bi().await.expect("bi 0");
        s0.write_all(REQ).await.expect("req 0");
        s0.finish().unwrap();
        // wait for the first response bytes, then ask the server to stop
        let mut one = [0u8; 1];
        let _ = r0.read(&mut one).await;
        r0.stop(VarInt::from_u32(0x10c)).expect("stop");
        tokio::time::sleep(Duration::from_millis(150)).await;
        // a second request on the same connection
        let second = async {
            let (mut s4, mut r4) = raw.open_bi().await.map_err(|e| format!("open: {e}"))?;
            s4.write_all(REQ).await.map_err(|e| format!("write: {e}"))?;
            s4.finish().map_err(|e| format!("finish: {e}"))?;
            let body = r4.read_to_end(1 << 20).await.map_err(|e| format!("read: {e}"))?;
            Ok::<usize, String>(body.len())
        }
        .await;
        let reason = raw.close_reason();
        (second, reason, ctrl)
    });
    let conn = h3_quinn::Connection::new(p.server.clone());
    let mut h3c: h3::server::Connection<h3_quinn::Connection, Bytes> = b.build(conn).await.expect("h3 server setup");
    let mut first = String::new();
    let mut driver_end = String::new();
    let mut n = 0;
    loop {
        match tokio::time::timeout(Duration::from_secs(15), h3c.accept()).await {
            Ok(Ok(Some(resolver))) => {
                n += 1;
                let is_first = n == 1;
                let r = async {
                    let (_req, mut st) = resolver.resolve_request().await?;
                    st.send_response(http::Response::builder().status(200).body(()).unwrap()).await?;
                    if is_first {
                        let mut err = None;
                        for _ in 0..2000 {
                            if let Err(e) = st.send_data(Bytes::from(vec![7u8; 1024])).await {
                                err = Some(e);
                                break;
                            }
                            tokio::time::sleep(Duration::from_millis(1)).await;
                        }
                        let fin = st.finish().await;
                        return Ok::<String, h3::error::StreamError>(format!("send_data: {:?}; then finish(): {:?}", err.map(|e| e.to_string()), fin.map_err(|e| e.to_string())));
                    }
                    st.send_data(Bytes::from_static(b"pong")).await?;
                    st.finish().await?;
                    Ok("ok".to_string())
                }
                .await;
                if is_first {
                    first = match r {
                        Ok(s) => s,
                        Err(e) => format!("error: {e}"),
                    };
                }
            }
            Ok(Ok(None)) => {
                driver_end = "none".into();
                break;
            }
            Ok(Err(e)) => {
                driver_end = format!("{e}");
                break;
            }
            Err(_) => break, // idle: the peer is done
        }
        if n >= 2 {
            break;
        }
    }
    let (second, reason, _ctrl) = peer.await.expect("peer task");
    let ok = matches!(second, Ok(k) if k > 0) && reason.is_none() && driver_end.is_empty();
    if !ok {
        out.viol(
            "C17:real:stop-sending-then-one-more-write-kills-the-connection",
            format!("grease={grease}: first request: {first}; accept() ended with {driver_end:?}; the peer's second request: {second:?}; connection close reason seen by the peer: {reason:?}"),
        );
    }
    p.client.close(VarInt::from_u32(0), b"done");
    out
}

/// S7: real h3 server + real adapter + real Quinn. The peer resets one request in the middle of a DATA frame; the
/// handler gets the stream error and calls recv_data() once more (a retry). The reset is stream-scoped: the
/// connection must stay usable and a second request must complete.
async fn s_reset_then_read_again(c: Arc<Certs>) -> Out {
    let mut out = Out::default();
    out.runs += 1;
    let p = pair(&c, Win { stream: None, conn: None, idle_ms: None }).await;
    let mut b = h3::server::builder();
    b.send_grease(false);
    let raw = p.client.clone();
    const REQ: &[u8] = &[0x01, 0x08, 0x00, 0x00, 0xd1, 0xd7, 0xc1, 0x50, 0x01, b'a'];
    let peer = tokio::spawn(async move {
        let mut ctrl = raw.open_uni().await.expect("ctrl");
        ctrl.write_all(&[0x00, 0x04, 0x00]).await.expect("settings");
        let (mut s0, _r0) = raw.open_bi().await.expect("bi 0");
        s0.write_all(REQ).await.expect("req 0");
        // DATA frame announcing 10 bytes, 4 of them sent, then RESET
        s0.write_all(&[0x00, 0x0a, 1, 2, 3, 4]).await.expect("partial data");
        tokio::time::sleep(Duration::from_millis(100)).await;
        s0.reset(VarInt::from_u32(0x10c)).expect("reset");
        tokio::time::sleep(Duration::from_millis(300)).await;
        let second = async {
            let (mut s4, mut r4) = raw.open_bi().await.map_err(|e| format!("open: {e}"))?;
            s4.write_all(REQ).await.map_err(|e| format!("write: {e}"))?;
            s4.finish().map_err(|e| format!("finish: {e}"))?;
            let body = r4.read_to_end(1 << 20).await.map_err(|e| format!("read: {e}"))?;
            Ok::<usize, String>(body.len())
        }
        .await;
        let reason = raw.close_reason();
        (second, reason, ctrl, _r0)
    });
    let conn = h3_quinn::Connection::new(p.server.clone());
    let mut h3c: h3::server::Connection<h3_quinn::Connection, Bytes> = b.build(conn).await.expect("h3 server setup");
    let mut first = String::new();
    let mut driver_end = String::new();
    let mut n = 0;
    loop {
        match tokio::time::timeout(Duration::from_secs(15), h3c.accept()).await {
            Ok(Ok(Some(resolver))) => {
                n += 1;
                let is_first = n == 1;
                let r = async {
                    let (_req, mut st) = resolver.resolve_request().await?;
                    if is_first {
                        let mut log = Vec::new();
                        for _ in 0..8 {
                            match st.recv_data().await {
                                Ok(Some(_)) => log.push("data".to_string()),
                                Ok(None) => {
                                    log.push("none".to_string());
                                    break;
                                }
                                Err(e) => {
                                    log.push(format!("error: {e}"));
                                    // once more
                                    log.push(match st.recv_data().await {
                                        Ok(Some(_)) => "again: data".to_string(),
                                        Ok(None) => "again: none".to_string(),
                                        Err(e) => format!("again: error: {e}"),
                                    });
                                    break;
                                }
                            }
                        }
                        return Ok::<String, h3::error::StreamError>(format!("{log:?}"));
                    }
                    st.send_response(http::Response::builder().status(200).body(()).unwrap()).await?;
                    st.send_data(Bytes::from_static(b"pong")).await?;
                    st.finish().await?;
                    Ok("ok".to_string())
                }
                .await;
                if is_first {
                    first = match r {
                        Ok(s) => s,
                        Err(e) => format!("error: {e}"),
                    };
                }
            }
            Ok(Ok(None)) => {
                driver_end = "none".into();
                break;
            }
            Ok(Err(e)) => {
                driver_end = format!("{e}");
                break;
            }
            Err(_) => break,
        }
        if n >= 2 {
            break;
        }
    }
    let (second, reason, _ctrl, _r0) = peer.await.expect("peer task");
    let ok = matches!(second, Ok(k) if k > 0) && reason.is_none() && driver_end.is_empty();
    if !ok {
        out.viol(
            "C17:real:reset-then-one-more-read-kills-the-connection",
            format!("first request: {first}; accept() ended with {driver_end:?}; the peer's second request: {second:?}; connection close reason seen by the peer: {reason:?}"),
        );
    }
    p.client.close(VarInt::from_u32(0), b"done");
    out
}

async fn run_all(thorough: bool) -> Out {
    let c = Arc::new(certs());
    let mut out = Out::default();
    let dflt = Win { stream: None, conn: None, idle_ms: None };
    let win = |s: u32, c: u32| Win { stream: Some(s), conn: Some(c), idle_ms: None };
    guarded(&mut out, "facts".into(), s_facts(c.clone())).await;
    // write fidelity under windows from 1 byte upwards
    let small: Vec<Vec<usize>> = if thorough { vec![vec![0], vec![1], vec![5], vec![0, 1, 5], vec![5, 5, 0], vec![63, 64, 65], vec![200, 0, 200]] } else { vec![vec![0, 1, 5], vec![63, 64, 65]] };
    let windows: Vec<Win> = if thorough { vec![win(1, 1), win(1, 64), win(2, 3), win(7, 7), win(64, 64), win(64, 1), win(1000, 1500), dflt] } else { vec![win(1, 1), win(7, 64), win(1000, 1500), dflt] };
    for w in &windows {
        for f in &small {
            for unframed in [false, true] {
                for bidi in [false, true] {
                    if !thorough && unframed && bidi {
                        continue;
                    }
                    guarded(&mut out, format!("write {w:?} {f:?} unframed={unframed} bidi={bidi}"), s_write(c.clone(), *w, f.clone(), unframed, bidi)).await;
                }
            }
        }
    }
    // the 256 KiB frame: windows large enough to finish in reasonable time
    for w in if thorough { vec![win(1000, 1500), win(4096, 4096), win(65536, 100_000), dflt] } else { vec![win(4096, 4096), dflt] } {
        guarded(&mut out, format!("write 256KiB {w:?}"), s_write(c.clone(), w, vec![256 * 1024], false, false)).await;
        if thorough {
            guarded(&mut out, format!("write 256KiB+1 bidi {w:?}"), s_write(c.clone(), w, vec![256 * 1024, 1], false, true)).await;
            guarded(&mut out, format!("write 256KiB unframed {w:?}"), s_write(c.clone(), w, vec![256 * 1024], true, false)).await;
        }
    }
    // read side
    let codes: Vec<u64> = if thorough { vec![0, 0x10c, (1 << 62) - 1] } else { vec![0x10c, (1 << 62) - 1] };
    for w in if thorough { vec![win(1, 1), win(7, 64), win(1000, 1500), dflt] } else { vec![win(1, 1), dflt] } {
        for n in if thorough { vec![0usize, 1, 5, 40, 3000] } else { vec![0usize, 40] } {
            for bidi in [false, true] {
                guarded(&mut out, format!("read {w:?} n={n} fin bidi={bidi}"), s_read(c.clone(), w, n, "fin", 0, bidi)).await;
                for &code in &codes {
                    guarded(&mut out, format!("read {w:?} n={n} reset({code:#x}) bidi={bidi}"), s_read(c.clone(), w, n, "reset", code, bidi)).await;
                    // (an empty uni stream is never announced to the peer: nothing to read from)
                    guarded(&mut out, format!("read {w:?} n={n} app-closed({code:#x}) bidi={bidi}"), s_read(c.clone(), w, n.max(1), "app-closed", code, bidi)).await;
                }
            }
        }
    }
    guarded(&mut out, "read idle-timeout".into(), s_read(c.clone(), Win { stream: None, conn: None, idle_ms: Some(300) }, 5, "timed-out", 0, false)).await;
    if thorough {
        guarded(&mut out, "read idle-timeout bidi small window".into(), s_read(c.clone(), Win { stream: Some(4), conn: Some(4), idle_ms: Some(300) }, 40, "timed-out", 0, true)).await;
    }
    // write faults
    for &code in &codes {
        for w in [win(64, 64), dflt] {
            guarded(&mut out, format!("write peer-stop({code:#x}) {w:?}"), s_write_fault(c.clone(), w, "stopped", code)).await;
            guarded(&mut out, format!("write peer-close({code:#x}) {w:?}"), s_write_fault(c.clone(), w, "app-closed", code)).await;
        }
    }
    for code in [h3::error::Code::H3_NO_ERROR, h3::error::Code::H3_FRAME_UNEXPECTED] {
        guarded(&mut out, format!("close({:#x})", code.value()), s_close(c.clone(), code)).await;
    }
    for grease in [true, false] {
        guarded(&mut out, format!("h3 server: STOP_SENDING then finish(), grease={grease}"), s_stop_then_finish(c.clone(), grease)).await;
    }
    guarded(&mut out, "h3 server: RESET mid-DATA then recv_data() again".into(), s_reset_then_read_again(c.clone())).await;
    out.scenarios = vec![json!({"windows": windows.iter().map(|w| format!("{:?}/{:?}", w.stream, w.conn)).collect::<Vec<_>>(), "frame_sequences": small, "codes": codes.iter().map(|c| format!("{c:#x}")).collect::<Vec<_>>()})];
    out
}

fn main() {
    let thorough = std::env::args().nth(1).as_deref() == Some("thorough");
    let budget = Duration::from_secs(if thorough { 1200 } else { 400 });
    std::panic::set_hook(Box::new(|info| {
        let msg = info.payload().downcast_ref::<&str>().map(|s| s.to_string()).or_else(|| info.payload().downcast_ref::<String>().cloned()).unwrap_or_default();
        let loc = info.location().map(|l| format!("{}:{}", l.file(), l.line())).unwrap_or_default();
        *LAST_PANIC.lock().unwrap() = Some(format!("{msg} @ {loc}"));
    }));
    let rt = tokio::runtime::Builder::new_current_thread().enable_all().build().expect("tokio runtime");
    let started = std::time::Instant::now();
    let r = rt.block_on(async { tokio::time::timeout(budget, run_all(thorough)).await });
    let out = match r {
        Ok(o) => o,
        Err(_) => {
            eprintln!("MACHINERY-FAILURE: real-Quinn conformance runs did not finish within {budget:?} (not a verdict)");
            std::process::exit(2);
        }
    };
    let facts_failed: Vec<&(String, bool, String)> = out.facts.iter().filter(|f| !f.1).collect();
    let v = json!({
        "runs": out.runs,
        "violations": out.violations,
        "partial_writes_forced": out.partial_writes_forced,
        "pendings_seen": out.pendings_seen,
        "accepted_sizes_outside_alphabet": out.accepted_sizes_outside_alphabet,
        "standin_facts_checked": out.facts.len(),
        "standin_facts_failed": facts_failed.iter().map(|f| json!({"fact": f.0, "observed": f.2})).collect::<Vec<_>>(),
        "standin_facts": out.facts.iter().map(|f| json!({"fact": f.0, "holds_on_real_quinn": f.1, "observed": f.2})).collect::<Vec<_>>(),
        "scenarios": out.scenarios,
        "wall_seconds": started.elapsed().as_secs_f64(),
    });
    println!("{v}");
}
