//! C14 — everything h3 writes is valid HTTP/3, however the transport takes it.
//!
//! The inputs are PROGRAMS: every sequence of API calls up to a length over
//! {send_data(empty / 1 byte / two-chunk Buf), send_trailers, finish, stop_stream} (client) and
//! {send_response, send_data..., send_trailers, finish, stop_stream, shutdown(0), shutdown(1)}
//! (server), each call awaited to completion, run on real endpoints over simnet under every
//! write-acceptance pattern with at most k deviations (accept 0/1/2/header-boundary+-1/n-1 bytes
//! then Pending) and under the uniform one-byte-at-a-time schedule, for several configurations.
//! Oracle: the complete byte log of every stream either endpoint wrote, parsed by refimpl.

use crate::scen::*;
use crate::Args;
use bytes::buf::Chain;
use bytes::{Buf, Bytes};
use explore::dfs::{self, Caps};
use explore::report::{Acc, Report, Tier};
use explore::{hex, Fnv};
use refimpl::frames as rf;
use refimpl::h3auto as auto;
use refimpl::qpack as rq;
use refimpl::settings as rs;
use refimpl::varint;
use serde_json::{json, Value};
use simnet::{Exec, Net, NetCfg, Policy, SimConn, CLIENT, SERVER};

type B = Chain<Bytes, Bytes>;

#[derive(Clone, Copy, Debug, PartialEq, Eq)]
pub enum Op {
    Response,
    Data0,
    Data1,
    Data3,
    Trailers,
    Finish,
    Stop,
    Shutdown0,
    Shutdown1,
}

fn buf_for(op: Op) -> B {
    match op {
        Op::Data0 => Bytes::new().chain(Bytes::new()),
        Op::Data1 => Bytes::from_static(b"x").chain(Bytes::new()),
        _ => Bytes::from_static(b"a").chain(Bytes::from_static(b"bc")),
    }
}

#[derive(Clone, Debug)]
pub struct Case {
    pub client_prog: Vec<Op>,
    pub server_prog: Vec<Op>,
    pub grease: bool,
    pub extensions: bool,
    /// values family: (max_field_section_size, max_webtransport_sessions, extra server shutdown(n)) - numbers at
    /// the varint form boundaries, which decide the length fields of SETTINGS and GOAWAY
    pub values: Option<(u64, u64, usize)>,
    /// shutdown family: the server calls shutdown(n) for each n of this list, in order, after the first accept
    pub shutdown_seq: Vec<usize>,
}

#[derive(Debug, Clone, Default, PartialEq, Eq)]
pub struct Outcome {
    /// (side, stream id, bytes, fin, own reset calls, a write was cut short: in flight at the end or the connection died)
    pub wires: Vec<(usize, u64, Vec<u8>, bool, Vec<u64>, bool)>,
    pub results: Vec<String>,
    pub misuse: Vec<String>,
    pub panics: Vec<(String, String)>,
    pub horizon: bool,
    pub fps: Vec<u64>,
}

const HORIZON: usize = 20_000;

pub fn execute(case: &Case, seed: u64, write: Policy) -> Outcome {
    fastrand::seed(seed);
    let mut cfg = NetCfg::default();
    cfg.write = write;
    let net = Net::new(cfg);
    let mut ex = Exec::new();
    let results: Shared<Vec<String>> = shared(Vec::new());
    {
        let (net2, sp, res, case2) = (net.clone(), ex.spawner(), results.clone(), case.clone());
        ex.spawn("server", async move {
            let mut b = h3::server::builder();
            b.send_grease(case2.grease);
            if case2.extensions {
                b.enable_webtransport(true).enable_datagram(true).enable_extended_connect(true).max_webtransport_sessions(3).max_field_section_size(1000);
            }
            if let Some((mfs, wts, _)) = case2.values {
                b.enable_webtransport(true).enable_datagram(true).enable_extended_connect(true).max_webtransport_sessions(wts).max_field_section_size(mfs);
            }
            let mut conn: h3::server::Connection<SimConn, B> = match b.build(SimConn::new(&net2, SERVER)).await {
                Ok(c) => c,
                Err(e) => {
                    res.borrow_mut().push(format!("s:build:{}", conn_class(&e)));
                    return;
                }
            };
            let mut shutdowns: Vec<usize> = case2.server_prog.iter().filter_map(|o| match o {
                Op::Shutdown0 => Some(0),
                Op::Shutdown1 => Some(1),
                _ => None,
            }).collect();
            if let Some((_, _, n)) = case2.values {
                shutdowns.insert(0, n);
            }
            shutdowns.extend(case2.shutdown_seq.iter().copied());
            let mut first = true;
            loop {
                match conn.accept().await {
                    Ok(Some(resolver)) => {
                        let (res2, prog) = (res.clone(), case2.server_prog.clone());
                        sp.spawn("handler", async move {
                            let (_req, mut s) = match resolver.resolve_request().await {
                                Ok(x) => x,
                                Err(e) => {
                                    res2.borrow_mut().push(format!("s:resolve:{}", stream_class(&e)));
                                    return;
                                }
                            };
                            for op in prog {
                                let r = match op {
                                    Op::Response => s.send_response(http::Response::builder().status(200).header("x-h", "v").body(()).unwrap()).await,
                                    Op::Data0 | Op::Data1 | Op::Data3 => s.send_data(buf_for(op)).await,
                                    Op::Trailers => {
                                        let mut t = http::HeaderMap::new();
                                        t.insert("t", "v".parse().unwrap());
                                        s.send_trailers(t).await
                                    }
                                    Op::Finish => s.finish().await,
                                    Op::Stop => {
                                        s.stop_stream(h3::error::Code::H3_REQUEST_CANCELLED);
                                        Ok(())
                                    }
                                    Op::Shutdown0 | Op::Shutdown1 => Ok(()),
                                };
                                if let Err(e) = r {
                                    res2.borrow_mut().push(format!("s:{op:?}:{}", stream_class(&e)));
                                    break; // an application stops using a stream at its first error
                                }
                            }
                        });
                        if first {
                            first = false;
                            for n in &shutdowns {
                                if let Err(e) = conn.shutdown(*n).await {
                                    res.borrow_mut().push(format!("s:shutdown:{}", conn_class(&e)));
                                }
                            }
                        }
                    }
                    Ok(None) => break,
                    Err(e) => {
                        res.borrow_mut().push(format!("s:accept:{}", conn_class(&e)));
                        break;
                    }
                }
            }
            std::future::pending::<()>().await;
            drop(conn);
        });
    }
    {
        let (net2, sp, res, case2) = (net.clone(), ex.spawner(), results.clone(), case.clone());
        ex.spawn("client", async move {
            let mut b = h3::client::builder();
            b.send_grease(case2.grease);
            if case2.extensions {
                b.enable_datagram(true).enable_extended_connect(true).max_field_section_size(1000);
            }
            if let Some((mfs, _, _)) = case2.values {
                b.enable_datagram(true).enable_extended_connect(true).max_field_section_size(mfs);
            }
            let (mut conn, mut sr): (h3::client::Connection<SimConn, B>, h3::client::SendRequest<simnet::SimOpener, B>) = match b.build(SimConn::new(&net2, CLIENT)).await {
                Ok(x) => x,
                Err(e) => {
                    res.borrow_mut().push(format!("c:build:{}", conn_class(&e)));
                    return;
                }
            };
            sp.spawn("client-driver", async move {
                let _ = std::future::poll_fn(|cx| conn.poll_close(cx)).await;
                std::future::pending::<()>().await;
                drop(conn);
            });
            let req = http::Request::post("https://a.example/p").header("x-r", "1").body(()).unwrap();
            let mut s = match sr.send_request(req).await {
                Ok(s) => s,
                Err(e) => {
                    res.borrow_mut().push(format!("c:send_request:{}", stream_class(&e)));
                    return;
                }
            };
            for op in case2.client_prog.clone() {
                let r = match op {
                    Op::Data0 | Op::Data1 | Op::Data3 => s.send_data(buf_for(op)).await,
                    Op::Trailers => {
                        let mut t = http::HeaderMap::new();
                        t.insert("t", "v".parse().unwrap());
                        s.send_trailers(t).await
                    }
                    Op::Finish => s.finish().await,
                    Op::Stop => {
                        s.stop_stream(h3::error::Code::H3_REQUEST_CANCELLED);
                        Ok(())
                    }
                    _ => Ok(()),
                };
                if let Err(e) = r {
                    res.borrow_mut().push(format!("c:{op:?}:{}", stream_class(&e)));
                    break; // an application stops using a stream at its first error
                }
            }
            // read whatever comes back (drives nothing on the wire), then keep the handles alive
            let _ = s.recv_response().await;
            std::future::pending::<()>().await;
            drop((s, sr));
        });
    }
    let mut fps = Vec::new();
    let q = {
        let net = net.clone();
        ex.run(HORIZON, |_| fps.push(net.fingerprint_light()))
    };
    let mut wires = Vec::new();
    for side in [CLIENT, SERVER] {
        for id in net.streams_written_by(side) {
            let (fin, _, _) = net.wire_end(side, id);
            let cut = net.pending_write(side, id) > 0 || net.conn_dead(side);
            wires.push((side, id, net.wire(side, id), fin, net.reset_calls(side, id), cut));
        }
    }
    let mut misuse = net.misuse(CLIENT);
    misuse.extend(net.misuse(SERVER));
    let results = results.borrow().clone();
    Outcome { wires, results, misuse, panics: q.panics, horizon: q.horizon_hit, fps }
}

fn is_legal_frame_type_on_request_stream(ty: u64) -> bool {
    ty == rf::DATA || ty == rf::HEADERS || rf::is_grease(ty)
}

pub fn judge(case: &Case, o: &Outcome) -> Vec<(String, String)> {
    let ctx = format!("client program {:?}, server program {:?}, grease={}, extensions={}, values={:?}", case.client_prog, case.server_prog, case.grease, case.extensions, case.values);
    let mut out = Vec::new();
    for (t, p) in &o.panics {
        out.push((format!("C14:panic@{}", explore::panics::short_loc(p)), format!("{ctx}: task {t} panicked: {p}")));
    }
    if o.horizon {
        out.push(("C14:livelock".into(), format!("{ctx}: still runnable after {HORIZON} polls")));
    }
    for m in &o.misuse {
        out.push(("C14:transport-contract-violated".into(), format!("{ctx}: {m}")));
    }
    for (side, id, bytes, fin, resets, cut) in &o.wires {
        let who = if *side == CLIENT { "client" } else { "server" };
        let sctx = format!("{ctx}: {who} wrote on stream {id}: {} (fin={fin}, own resets {resets:x?})", hex(bytes));
        let own_stream = (*id & 1) as usize == *side;
        if id & 2 != 0 {
            // ---- unidirectional stream opened by `side`
            if !own_stream {
                out.push((format!("C14:{who}:wrote-on-peer-uni-stream"), sctx.clone()));
                continue;
            }
            if bytes.is_empty() {
                continue; // opened, nothing written yet (e.g. blocked): nothing to judge
            }
            let (ty, n) = match varint::decode(bytes) {
                varint::Decoded::Ok(v, n) => (v, n),
                varint::Decoded::Truncated => {
                    if !*cut {
                        out.push((format!("C14:{who}:uni-stream-type-truncated"), sctx.clone()));
                    }
                    continue;
                }
            };
            match ty {
                auto::STREAM_CONTROL => {
                    let (frames, tail) = rf::segment(&bytes[n..]);
                    if tail != rf::Tail::Clean && !*cut {
                        out.push((format!("C14:{who}:control-stream-incomplete-frame"), sctx.clone()));
                    }
                    if frames.first().map(|f| f.ty) != Some(rf::SETTINGS) && !(frames.is_empty() && *cut) {
                        out.push((format!("C14:{who}:control-stream-does-not-start-with-settings"), sctx.clone()));
                    }
                    for (i, f) in frames.iter().enumerate() {
                        let allowed = if i == 0 { f.ty == rf::SETTINGS } else { matches!(f.ty, rf::GOAWAY | rf::MAX_PUSH_ID | rf::CANCEL_PUSH) || rf::is_grease(f.ty) };
                        if !allowed {
                            out.push((format!("C14:{who}:control-stream-frame-not-allowed:{:#x}", f.ty), sctx.clone()));
                        }
                        if rf::payload_fault(f.ty, &f.payload).is_some() {
                            out.push((format!("C14:{who}:control-frame-payload-malformed:{:#x}", f.ty), sctx.clone()));
                        }
                        if f.ty == rf::SETTINGS {
                            match rs::parse(&f.payload) {
                                Ok(es) => {
                                    for (sid, _) in es {
                                        let known = matches!(sid, rs::QPACK_MAX_TABLE_CAPACITY | rs::MAX_FIELD_SECTION_SIZE | rs::QPACK_BLOCKED_STREAMS | rs::ENABLE_CONNECT_PROTOCOL | rs::H3_DATAGRAM | rs::ENABLE_WEBTRANSPORT | rs::WEBTRANSPORT_MAX_SESSIONS);
                                        if !known && !rs::is_grease(sid) {
                                            out.push((format!("C14:{who}:setting-id-neither-defined-nor-reserved-form"), format!("{sctx}: id {sid:#x}")));
                                        }
                                    }
                                }
                                Err(e) => out.push((format!("C14:{who}:settings-invalid:{e:?}"), sctx.clone())),
                            }
                        }
                        if f.ty == rf::GOAWAY && *side == SERVER {
                            if let Some(v) = rf::single_varint(&f.payload) {
                                if v % 4 != 0 {
                                    out.push((format!("C14:{who}:goaway-id-not-a-request-stream"), format!("{sctx}: GOAWAY({v})")));
                                }
                            }
                        }
                    }
                    // RFC 9114 5.2: the identifiers an endpoint sends in GOAWAY frames MUST NOT increase
                    let ids: Vec<u64> = frames.iter().filter(|f| f.ty == rf::GOAWAY).filter_map(|f| rf::single_varint(&f.payload)).collect();
                    if ids.windows(2).any(|w| w[1] > w[0]) {
                        out.push((format!("C14:{who}:goaway-identifier-increases"), format!("{sctx}: GOAWAY identifiers {ids:?}")));
                    }
                    if *fin || !resets.is_empty() {
                        out.push((format!("C14:{who}:control-stream-closed-by-sender"), sctx.clone()));
                    }
                }
                auto::STREAM_QPACK_ENCODER | auto::STREAM_QPACK_DECODER => {}
                t if rf::is_grease(t) => {}
                auto::STREAM_PUSH if *side == SERVER => {}
                auto::STREAM_WEBTRANSPORT_UNI => {}
                t => out.push((format!("C14:{who}:illegal-uni-stream-type:{t:#x}"), sctx.clone())),
            }
        } else {
            // ---- request stream
            let (frames, tail) = rf::segment(bytes);
            if tail != rf::Tail::Clean && resets.is_empty() && !*cut {
                out.push((format!("C14:{who}:request-stream-ends-inside-frame"), format!("{sctx}: tail {tail:?}")));
            }
            for f in &frames {
                if rf::is_h2_reserved(f.ty) {
                    out.push((format!("C14:{who}:http2-frame-type-sent:{:#x}", f.ty), sctx.clone()));
                } else if !is_legal_frame_type_on_request_stream(f.ty) {
                    out.push((format!("C14:{who}:frame-type-not-allowed-on-request-stream:{:#x}", f.ty), sctx.clone()));
                }
                if f.ty == rf::HEADERS {
                    if let Err(e) = rq::decode_static_only(&f.payload) {
                        out.push((format!("C14:{who}:headers-payload-not-qpack:{e:?}"), sctx.clone()));
                    }
                }
            }
            // the DATA payload bytes are exactly what the program handed over, in order
            let prog = if *side == CLIENT { &case.client_prog } else { &case.server_prog };
            let mut want: Vec<u8> = Vec::new();
            for op in prog {
                match op {
                    Op::Data1 => want.extend(b"x"),
                    Op::Data3 => want.extend(b"abc"),
                    Op::Stop => break,
                    _ => {}
                }
            }
            let got: Vec<u8> = frames.iter().filter(|f| f.ty == rf::DATA).flat_map(|f| f.payload.clone()).collect();
            if resets.is_empty() && tail == rf::Tail::Clean && !*cut && got != want && !o.results.iter().any(|r| r.starts_with(if *side == CLIENT { "c:" } else { "s:" })) {
                out.push((format!("C14:{who}:data-payload-differs"), format!("{sctx}: DATA payloads {} expected {}", hex(&got), hex(&want))));
            }
        }
    }
    out
}

fn programs(alphabet: &[Op], maxlen: usize) -> Vec<Vec<Op>> {
    let mut out: Vec<Vec<Op>> = vec![vec![]];
    let mut frontier: Vec<Vec<Op>> = vec![vec![]];
    for _ in 0..maxlen {
        let mut next = Vec::new();
        for p in &frontier {
            for &o in alphabet {
                // a shutdown is a connection-level call, at most one of each per program
                if matches!(o, Op::Shutdown0 | Op::Shutdown1) && p.contains(&o) {
                    continue;
                }
                let mut q = p.clone();
                q.push(o);
                next.push(q);
            }
        }
        out.extend(next.iter().cloned());
        frontier = next;
    }
    out
}

fn case_json(c: &Case, choices: &[u32], seed: u64, mode: &str) -> Value {
    json!({"client": c.client_prog.iter().map(|o| format!("{o:?}")).collect::<Vec<_>>(), "server": c.server_prog.iter().map(|o| format!("{o:?}")).collect::<Vec<_>>(), "grease": c.grease, "extensions": c.extensions, "values": c.values.map(|(a, b, n)| json!([a.to_string(), b.to_string(), n.to_string()])), "shutdown_seq": c.shutdown_seq, "choices": choices, "seed": seed, "mode": mode})
}

fn op_from(s: &str) -> Op {
    match s {
        "Response" => Op::Response,
        "Data0" => Op::Data0,
        "Data1" => Op::Data1,
        "Data3" => Op::Data3,
        "Trailers" => Op::Trailers,
        "Finish" => Op::Finish,
        "Stop" => Op::Stop,
        "Shutdown0" => Op::Shutdown0,
        _ => Op::Shutdown1,
    }
}

pub fn run(args: &Args) -> i32 {
    let thorough = args.tier == Tier::Thorough;
    let bound = if thorough { 3 } else { 2 };
    let (cl, sl) = if thorough { (5, 5) } else { (4, 3) };
    let mut rep = Report::new("C14", args.tier, args.seed, "model_checking");
    rep.exhaustive = true;
    rep.rule = format!(
        "programs: every client call sequence of length <= {cl} over {{send_data(empty), send_data(1 byte), send_data(two-chunk Buf), send_trailers, finish, stop_stream}} after send_request (against a fixed server program), and every server call sequence of length <= {sl} over {{send_response, the three send_data, send_trailers, finish, stop_stream, shutdown(0), shutdown(1)}} (against a fixed client program); each call awaited; x (grease on/off) x (extensions configured on/off); plus a values family: max_field_section_size and max_webtransport_sessions from {{0, 63, 64, 16383, 16384, 2^30-1, 2^30, 2^62-1}} and a server shutdown(n) for n in {{0, 15, 16, 4095, 4096, 2^28-1, 2^28, 2^60-2, 2^60-1, 2^60, usize::MAX}} (every varint form boundary in SETTINGS values and GOAWAY identifiers, and the counts at which the identifier saturates); plus a shutdown family: every sequence of 2..3 (thorough 4) server shutdown(n) calls over n in {{0, 1, 2, 5}}. Each program under the default transport, the uniform one-byte-per-write schedule, and (programs of length <= 3) every write-acceptance pattern with <= {bound} deviations, a deviation being one poll_ready/poll_send answer that accepts 0, 1, 2, header-boundary-1, header-boundary, header-boundary+1 or n-1 bytes and then returns Pending. Oracle: refimpl parses the complete byte log of every stream both endpoints wrote (stream types, SETTINGS first and only allowed control frames, complete frames whose length equals the bytes that follow, grease form of reserved ids, no HTTP/2 type or setting, GOAWAY identifiers never increasing, HEADERS payloads decodable, DATA payload = the program's bytes). states = distinct transport fingerprints; non-trivial = executions with a partial write."
    );
    rep.assumptions = vec!["cancelling a pending write future is outside the documented pattern (DESIGN.md 6)".into(), "the order of HEADERS/DATA on a request stream is the application's responsibility and not judged here".into()];
    rep.bound_note = format!("client programs <= {cl} calls, server programs <= {sl} calls, deviation bound {bound}");
    let calpha = [Op::Data0, Op::Data1, Op::Data3, Op::Trailers, Op::Finish, Op::Stop];
    let salpha = [Op::Response, Op::Data0, Op::Data1, Op::Data3, Op::Trailers, Op::Finish, Op::Stop, Op::Shutdown0, Op::Shutdown1];
    let mut cases: Vec<Case> = Vec::new();
    for grease in [true, false] {
        for extensions in [false, true] {
            for p in programs(&calpha, cl) {
                cases.push(Case { client_prog: p, server_prog: vec![Op::Response, Op::Data1, Op::Finish], grease, extensions, values: None, shutdown_seq: vec![] });
            }
            for p in programs(&salpha, sl) {
                cases.push(Case { client_prog: vec![Op::Data1, Op::Finish], server_prog: p, grease, extensions, values: None, shutdown_seq: vec![] });
            }
        }
    }
    // values family: numbers around every varint form boundary in SETTINGS values and GOAWAY identifiers
    let bvals: Vec<u64> = vec![0, 63, 64, 16383, 16384, (1 << 30) - 1, 1 << 30, (1 << 62) - 1];
    let ns: Vec<usize> = vec![0, 15, 16, 4095, 4096, (1 << 28) - 1, 1 << 28, (1 << 60) - 2, (1 << 60) - 1, 1 << 60, usize::MAX];
    let mut n_values = 0;
    for (i, &v) in bvals.iter().enumerate() {
        for (j, &n) in ns.iter().enumerate() {
            if !thorough && (i + j) % 2 == 1 && v != 16384 && n != 4096 && n < (1 << 60) - 2 {
                continue;
            }
            for grease in [false, true] {
                let w = bvals[(i + j) % bvals.len()];
                cases.push(Case { client_prog: vec![Op::Data1, Op::Finish], server_prog: vec![Op::Response, Op::Data1, Op::Finish], grease, extensions: false, values: Some((v, w, n)), shutdown_seq: vec![] });
                n_values += 1;
            }
        }
    }
    // shutdown family: every sequence of <= 3 (thorough 4) shutdown(n) calls over n in {0, 1, 2, 5}: whatever the order,
    // the GOAWAY identifiers written must never increase
    let mut seqs: Vec<Vec<usize>> = vec![vec![]];
    let mut frontier: Vec<Vec<usize>> = vec![vec![]];
    for _ in 0..if thorough { 4 } else { 3 } {
        let mut next = Vec::new();
        for p in &frontier {
            for n in [0usize, 1, 2, 5] {
                let mut q = p.clone();
                q.push(n);
                next.push(q);
            }
        }
        seqs.extend(next.iter().cloned());
        frontier = next;
    }
    let mut n_seqs = 0;
    for sq in seqs.into_iter().filter(|s| s.len() >= 2) {
        cases.push(Case { client_prog: vec![Op::Data1, Op::Finish], server_prog: vec![Op::Response, Op::Data1, Op::Finish], grease: false, extensions: false, values: None, shutdown_seq: sq });
        n_seqs += 1;
    }
    let seed = args.seed;
    let deadline = std::time::Instant::now() + std::time::Duration::from_secs(if thorough { 1500 } else { 55 });
    let accs = explore::par::run(&cases, Acc::new, |_, case, acc| {
        for (mode, pol) in [("whole", Policy::Whole), ("write1", Policy::PerByte)] {
            let o = execute(case, seed, pol);
            acc.evaluations += 1;
            acc.dfs.executions += 1;
            acc.states.extend(o.fps.iter().copied());
            acc.outcomes.insert(explore::fnv_str(&format!("{:?}", o.results)));
            for (sig, msg) in judge(case, &o) {
                acc.violation(sig, msg, ((mode != "whole") as usize, case.client_prog.len() + case.server_prog.len()), || case_json(case, &[], seed, mode));
            }
        }
        if case.client_prog.len() <= 3 && case.server_prog.len() <= 3 {
            let caps = Caps { deadline: Some(deadline), max_executions: if thorough { 500_000 } else { 20_000 }, ..Caps::default() };
            let mut viol = explore::report::ViolSet::new();
            let mut states: Vec<u64> = Vec::new();
            let mut nontrivial = 0u64;
            let st = dfs::explore(
                bound,
                &caps,
                || execute(case, seed, Policy::Choose),
                |e, o| {
                    states.extend(o.fps.iter().copied());
                    if e.cost > 0 {
                        nontrivial += 1;
                    }
                    for (sig, msg) in judge(case, &o) {
                        viol.add(sig, msg, (e.cost, e.choices.len()), &e.choices);
                    }
                },
            );
            if st.capped {
                acc.capped_cases += 1;
            }
            acc.dfs.merge(&st);
            acc.evaluations += st.executions;
            acc.states.extend(states);
            let mut h = Fnv::new();
            h.str(&format!("{case:?}"));
            for k in 0..nontrivial.min(100_000) {
                acc.nontrivial.insert(h.finish().wrapping_add(k));
            }
            viol.drain_into(acc, |choices| case_json(case, choices, seed, "explore"));
        }
    });
    let mut total = Acc::new();
    for a in accs {
        total.merge(a);
    }
    total.count("programs", cases.len() as u64);
    total.count("value_boundary_cases", n_values as u64);
    total.count("shutdown_sequences", n_seqs as u64);
    for i in [cases.len() / 9, cases.len() / 2, cases.len() - 1] {
        total.samples.push(json!(format!("client {:?} / server {:?} grease={} extensions={}", cases[i].client_prog, cases[i].server_prog, cases[i].grease, cases[i].extensions)));
    }
    rep.finish(total)
}

pub fn replay(r: &Value) -> i32 {
    let case = Case {
        client_prog: r["client"].as_array().unwrap().iter().map(|s| op_from(s.as_str().unwrap())).collect(),
        server_prog: r["server"].as_array().unwrap().iter().map(|s| op_from(s.as_str().unwrap())).collect(),
        grease: r["grease"].as_bool().unwrap(),
        extensions: r["extensions"].as_bool().unwrap(),
        shutdown_seq: r["shutdown_seq"].as_array().map(|a| a.iter().map(|v| v.as_u64().unwrap() as usize).collect()).unwrap_or_default(),
        values: r["values"].as_array().map(|a| (a[0].as_str().unwrap().parse().unwrap(), a[1].as_str().unwrap().parse().unwrap(), a[2].as_str().unwrap().parse().unwrap())),
    };
    let seed = r["seed"].as_u64().unwrap_or(0);
    let choices: Vec<u32> = r["choices"].as_array().unwrap().iter().map(|v| v.as_u64().unwrap() as u32).collect();
    println!("case: {case:?} mode {} choices {choices:?}", r["mode"]);
    let once = || match r["mode"].as_str() {
        Some("whole") => (execute(&case, seed, Policy::Whole), None),
        Some("write1") => (execute(&case, seed, Policy::PerByte), None),
        _ => {
            let (o, _, d) = dfs::replay(&choices, || execute(&case, seed, Policy::Choose));
            (o, d)
        }
    };
    let (o1, d1) = once();
    let (o2, d2) = once();
    if let Some(d) = d1.or(d2) {
        println!("REPLAY DIVERGED: {d}");
        return 2;
    }
    if o1 != o2 {
        println!("REPLAY NOT DETERMINISTIC");
        return 2;
    }
    for (side, id, bytes, fin, resets, _) in &o1.wires {
        println!("{} stream {id}: {} fin={fin} resets={resets:x?}", if *side == CLIENT { "client" } else { "server" }, hex(bytes));
    }
    println!("call errors: {:?}", o1.results);
    let v = judge(&case, &o1);
    for (sig, msg) in &v {
        println!("observed: {sig}: {msg}");
    }
    if v.is_empty() {
        println!("observed: no violation");
        0
    } else {
        1
    }
}

#[allow(dead_code)]
fn _u(b: B) -> usize {
    b.remaining()
}
