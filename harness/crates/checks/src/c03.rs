//! C03 — request streams accept exactly the RFC 9114 4.1 frame sequences.
//!
//! Real h3 server (accept -> resolve_request -> recv_data* -> recv_trailers) and real h3 client
//! (send_request -> recv_response -> recv_data* -> recv_trailers) over simnet against a scripted
//! peer that plays every frame sequence up to length N over the alphabet, with every ending and
//! chunking; oracle = refimpl::h3auto::request_stream.

use crate::scen::*;
use crate::Args;
use bytes::Bytes;
use explore::dfs::{self, Caps};
use explore::report::{Acc, Report, Tier};
use explore::{hex, Fnv};
use refimpl::frames as rf;
use refimpl::h3auto::{self as auto, Ending, Phase, Role, Stop};
use serde_json::{json, Value};
use simnet::exec::yield_now;
use simnet::{Exec, Net, NetCfg, Policy, SimConn, CLIENT, SERVER};

#[derive(Clone, Copy, Debug, PartialEq, Eq)]
pub enum End {
    Fin,
    Open,
    Reset(u64),
}

#[derive(Clone, Copy, Debug, PartialEq, Eq)]
pub enum Mode {
    /// one write, delivered whole
    Whole,
    /// one write per frame, the reader may run in between
    PerFrame,
    /// one byte per read
    PerByte,
    /// explored: cuts / delays / scheduling deviations up to the bound
    Explore,
    /// server role: one write per frame, and the request is handled INSIDE the accept loop (accept() is not polled,
    /// nothing drives the connection, until the handler has returned)
    Inline,
}

#[derive(Clone, Debug)]
pub struct Case {
    pub role: Role,
    /// indices into the alphabet
    pub seq: Vec<usize>,
    pub end: End,
    pub mode: Mode,
}

pub struct Item {
    pub name: &'static str,
    pub ty: u64,
    pub payload: Vec<u8>,
}

pub fn alphabet(role: Role) -> Vec<Item> {
    let head = match role {
        Role::ServerRecv => REQ_SECTION.to_vec(),
        Role::ClientRecv => RESP_SECTION.to_vec(),
    };
    let mut pp = vec![0x01];
    pp.extend_from_slice(REQ_SECTION);
    vec![
        Item { name: "HEADERS", ty: rf::HEADERS, payload: head },
        Item { name: "DATA0", ty: rf::DATA, payload: vec![] },
        Item { name: "DATA3", ty: rf::DATA, payload: b"abc".to_vec() },
        Item { name: "TRAILERS", ty: rf::HEADERS, payload: TRAILER_SECTION.to_vec() },
        Item { name: "unk0", ty: 0x21, payload: vec![] },
        Item { name: "unk2", ty: 0x2f, payload: vec![0x01, 0x00] },
        Item { name: "CANCEL_PUSH", ty: rf::CANCEL_PUSH, payload: vec![0x04] },
        Item { name: "SETTINGS", ty: rf::SETTINGS, payload: vec![] },
        Item { name: "GOAWAY", ty: rf::GOAWAY, payload: vec![0x00] },
        Item { name: "MAX_PUSH_ID", ty: rf::MAX_PUSH_ID, payload: vec![0x04] },
        Item { name: "PUSH_PROMISE", ty: rf::PUSH_PROMISE, payload: pp },
        Item { name: "h2-0x2", ty: 0x2, payload: vec![] },
        Item { name: "h2-0x6", ty: 0x6, payload: vec![0x00] },
        Item { name: "h2-0x8", ty: 0x8, payload: vec![] },
        Item { name: "h2-0x9", ty: 0x9, payload: vec![] },
    ]
}

fn seq_bytes(alpha: &[Item], seq: &[usize]) -> (Vec<u8>, Vec<usize>) {
    let mut b = Vec::new();
    let mut bounds = Vec::new();
    for &i in seq {
        b.extend(rf::frame(alpha[i].ty, &alpha[i].payload));
        bounds.push(b.len());
    }
    (b, bounds)
}

/// All sequences up to length n, extended only while the reference is not yet in an error state.
fn sequences(role: Role, n: usize) -> Vec<Vec<usize>> {
    let alpha = alphabet(role);
    let mut out: Vec<Vec<usize>> = vec![vec![]];
    let mut frontier: Vec<Vec<usize>> = vec![vec![]];
    for _ in 0..n {
        let mut next = Vec::new();
        for s in &frontier {
            for i in 0..alpha.len() {
                let mut t = s.clone();
                t.push(i);
                let (b, _) = seq_bytes(&alpha, &t);
                let v = auto::request_stream(&b, Ending::Open, role);
                out.push(t.clone());
                match v {
                    Some(v) if !matches!(v.stop, Stop::ConnError(_)) => next.push(t),
                    _ => {} // what follows the first error (or an unasserted frame) is unobservable
                }
            }
        }
        frontier = next;
    }
    out
}

#[derive(Debug, Clone, Default, PartialEq, Eq)]
pub struct Outcome {
    pub msg: Option<MsgObs>,
    pub driver: Vec<String>,
    pub build: String,
    pub close_calls: Vec<u64>,
    pub resets: Vec<u64>,
    pub stops: Vec<u64>,
    pub panics: Vec<(String, String)>,
    pub pending: Vec<String>,
    pub horizon: bool,
    pub misuse: Vec<String>,
    pub fps: Vec<u64>,
}

const HORIZON: usize = 4000;

pub fn execute(case: &Case, seed: u64) -> Outcome {
    fastrand::seed(seed);
    set_app_pauses(case.mode == Mode::Explore);
    set_inline_handlers(case.mode == Mode::Inline);
    let alpha = alphabet(case.role);
    let (bytes, bounds) = seq_bytes(&alpha, &case.seq);
    let mut cfg = NetCfg::default();
    match case.mode {
        Mode::PerByte => cfg.read = Policy::PerByte,
        Mode::Explore => {
            cfg.read = Policy::Choose;
            cfg.allow_delay = true;
            cfg.focus = Some(vec![0]);
        }
        _ => {}
    }
    let net = Net::new(cfg);
    let mut ex = Exec::new();
    let drv = shared(DriverObs::default());
    let handlers: Shared<Vec<Shared<MsgObs>>> = shared(Vec::new());
    let client_msg = shared(MsgObs::default());
    let (me, peer) = match case.role {
        Role::ServerRecv => (SERVER, CLIENT),
        Role::ClientRecv => (CLIENT, SERVER),
    };
    match case.role {
        Role::ServerRecv => {
            let mut b = h3::server::builder();
            b.send_grease(false);
            ex.spawn("main", server_main(net.clone(), b, ex.spawner(), drv.clone(), handlers.clone(), false, 1));
        }
        Role::ClientRecv => {
            let (net2, drv2, msg2, sp) = (net.clone(), drv.clone(), client_msg.clone(), ex.spawner());
            ex.spawn("main", async move {
                let mut b = h3::client::builder();
                b.send_grease(false);
                let (mut conn, mut sr): (CliConn, CliSend) = match b.build(SimConn::new(&net2, CLIENT)).await {
                    Ok(x) => x,
                    Err(e) => {
                        drv2.borrow_mut().build = conn_class(&e);
                        return;
                    }
                };
                drv2.borrow_mut().build = "ok".into();
                let drv3 = drv2.clone();
                sp.spawn("driver", async move {
                    for _ in 0..2 {
                        let e = std::future::poll_fn(|cx| conn.poll_close(cx)).await;
                        drv3.borrow_mut().results.push(conn_class(&e));
                    }
                    std::future::pending::<()>().await;
                    drop(conn);
                });
                let req = http::Request::get("https://a/").body(()).unwrap();
                match sr.send_request(req).await {
                    Ok(mut s) => {
                        if let Err(e) = s.finish().await {
                            msg2.borrow_mut().sent = stream_class(&e);
                        }
                        client_reader(s, msg2.clone()).await;
                    }
                    Err(e) => msg2.borrow_mut().head = format!("send_request:{}", stream_class(&e)),
                }
                std::future::pending::<()>().await;
                drop(sr);
            });
        }
    }
    // the scripted peer
    {
        let net = net.clone();
        let (end, mode) = (case.end, case.mode);
        ex.spawn("script", async move {
            let ctrl = if peer == CLIENT { CLIENT_CTRL } else { SERVER_CTRL };
            net.raw_open(ctrl);
            net.raw_write(peer, ctrl, &control_preamble(&[]));
            yield_now().await;
            if peer == CLIENT {
                net.raw_open(0);
            } else {
                // wait until the client has opened its request stream
                let mut spins = 0;
                while !net.lock().streams.contains_key(&0) {
                    spins += 1;
                    if spins > 200 {
                        return;
                    }
                    yield_now().await;
                }
            }
            match mode {
                Mode::PerFrame | Mode::Inline => {
                    let mut last = 0;
                    for &b in &bounds {
                        net.raw_write(peer, 0, &bytes[last..b]);
                        last = b;
                        yield_now().await;
                    }
                }
                _ => {
                    if !bytes.is_empty() {
                        net.raw_write(peer, 0, &bytes);
                        for &b in &bounds {
                            net.raw_mark(peer, 0, bytes.len() - b);
                        }
                        yield_now().await;
                    }
                }
            }
            match end {
                End::Fin => net.raw_fin(peer, 0),
                End::Reset(c) => net.raw_reset(peer, 0, c),
                End::Open => {}
            }
        });
    }
    let mut fps = Vec::new();
    let q = {
        let net = net.clone();
        let handlers = handlers.clone();
        let client_msg = client_msg.clone();
        ex.run(HORIZON, |_| {
            let mut h = Fnv::new();
            h.u64(net.fingerprint());
            if let Some(m) = handlers.borrow().first() {
                h.str(&format!("{:?}", m.borrow()));
            }
            h.str(&format!("{:?}", client_msg.borrow()));
            fps.push(h.finish());
        })
    };
    let msg = match case.role {
        Role::ServerRecv => handlers.borrow().first().map(|m| m.borrow().clone()),
        Role::ClientRecv => Some(client_msg.borrow().clone()),
    };
    let d = drv.borrow().clone();
    Outcome {
        msg,
        driver: d.results,
        build: d.build,
        close_calls: net.close_calls(me).iter().map(|c| c.0).collect(),
        resets: net.reset_calls(me, 0),
        stops: net.stop_calls(me, 0),
        panics: q.panics,
        pending: q.pending,
        horizon: q.horizon_hit,
        misuse: net.misuse(me),
        fps,
    }
}

fn trailer_expect(payload: &Option<Vec<u8>>) -> String {
    match payload {
        Some(p) if p == TRAILER_SECTION => "some:t=[76]".into(),
        Some(p) if p == REQ_SECTION => "!malformed-trailers".into(),
        Some(p) if p == RESP_SECTION => "!malformed-trailers".into(),
        Some(_) => "?".into(),
        None => "none".into(),
    }
}

/// Returns violations as (signature, message).
pub fn judge(case: &Case, o: &Outcome) -> Vec<(String, String)> {
    let alpha = alphabet(case.role);
    let (bytes, _) = seq_bytes(&alpha, &case.seq);
    let names: Vec<&str> = case.seq.iter().map(|&i| alpha[i].name).collect();
    let role = match case.role {
        Role::ServerRecv => "server",
        Role::ClientRecv => "client",
    };
    let endn = match case.end {
        End::Fin => "fin".to_string(),
        End::Open => "open".to_string(),
        End::Reset(_) => "reset".to_string(),
    };
    let mut out = Vec::new();
    let ctx = format!("{role} receives [{}] then {endn}", names.join(" "));
    for (t, p) in &o.panics {
        out.push((format!("C03:{role}:panic@{}", explore::panics::short_loc(p)), format!("{ctx}: task {t} panicked: {p}")));
    }
    if o.horizon {
        out.push((format!("C03:{role}:livelock"), format!("{ctx}: still runnable after {HORIZON} polls")));
    }
    if o.build != "ok" {
        out.push((format!("C03:{role}:setup-failed"), format!("{ctx}: connection setup returned {}", o.build)));
        return out;
    }
    let ending = match case.end {
        End::Fin => Ending::Fin,
        _ => Ending::Open,
    };
    let Some(v) = auto::request_stream(&bytes, ending, case.role) else {
        return out; // PUSH_PROMISE to a client: nothing asserted beyond "no panic"
    };
    let Some(m) = &o.msg else {
        if case.role == Role::ServerRecv {
            out.push((format!("C03:{role}:request-never-accepted"), format!("{ctx}: accept() never returned the request stream")));
        }
        return out;
    };
    // -- first error the application saw
    let calls = [("head", &m.head), ("body", &m.body_end), ("trailers", &m.trailers)];
    let first_err = calls.iter().find(|(_, r)| !r.is_empty() && *r != "ok" && *r != "none" && !r.starts_with("some:"));
    let closes = &o.close_calls;
    let phase_name = match v.phase {
        Phase::Head => "head",
        Phase::Body => "body",
        Phase::Trailers => "trailers",
    };
    let culprit = v.culprit.map(|t| format!("{t:#x}")).unwrap_or_else(|| "none".into());
    // malformed trailers (a request/response section used as trailers) and a malformed head (the
    // trailer section used as first HEADERS: no :method / :status) are C12's business
    if trailer_expect(&v.trailers).starts_with('!') {
        return out;
    }
    let valid_head: &[u8] = match case.role {
        Role::ServerRecv => REQ_SECTION,
        Role::ClientRecv => RESP_SECTION,
    };
    if v.head.as_deref().map(|h| h != valid_head).unwrap_or(false) {
        return out;
    }

    // "end-of-body is reported only when the body has really ended"
    if m.body_end == "none" && !v.body_ended && !matches!(case.end, End::Reset(_)) {
        out.push((
            format!("C03:{role}:premature-end-of-body"),
            format!("{ctx}: recv_data returned None after {} body bytes although the body had not ended (reference: {:?})", m.body.len(), v.stop),
        ));
    }
    // body bytes: exactly once, in order
    if !v.body.starts_with(&m.body) {
        out.push((
            format!("C03:{role}:body-bytes-wrong"),
            format!("{ctx}: application received body {} but the DATA payloads are {}", hex(&m.body), hex(&v.body)),
        ));
    }

    if let End::Reset(code) = case.end {
        // RESET may overtake frames that were not yet read: a healthy prefix, then the stream-level
        // reset error; or the connection error the sequence itself deserves (if read before the reset)
        let want = format!("RemoteTerminate({code:#x})");
        match first_err {
            Some((_, e)) if **e == want => {
                if !closes.is_empty() {
                    out.push((format!("C03:{role}:reset-closed-connection"), format!("{ctx}: peer RESET caused close({:#x})", closes[0])));
                }
            }
            Some((_, e)) => {
                let ok = match &v.stop {
                    Stop::ConnError(c) => **e == format!("Conn:Local({c:#x})"),
                    _ => false,
                };
                if !ok {
                    out.push((format!("C03:{role}:reset:got={}", e), format!("{ctx}: expected {want}, application saw {e}")));
                }
            }
            None => out.push((format!("C03:{role}:reset-not-reported"), format!("{ctx}: RESET({code:#x}) was never reported: {m:?}"))),
        }
        return out;
    }

    match &v.stop {
        Stop::Complete => {
            let want_tr = trailer_expect(&v.trailers);
            if m.head != "ok" || m.body != v.body || m.body_end != "none" || m.trailers != want_tr {
                let got = first_err.map(|(c, e)| format!("{c}:{e}")).unwrap_or_else(|| "no-error".into());
                out.push((
                    format!("C03:{role}:legal-sequence-not-delivered:{got}"),
                    format!("{ctx}: legal message; expected body {} + end + trailers {want_tr}; got {m:?}", hex(&v.body)),
                ));
            }
            if !closes.is_empty() {
                out.push((format!("C03:{role}:legal-sequence-closed-connection"), format!("{ctx}: close({:#x}) on a legal sequence", closes[0])));
            }
        }
        Stop::ConnError(code) => {
            let want = format!("Conn:Local({code:#x})");
            match first_err {
                Some((_, e)) if **e == want => {}
                Some((c, e)) => out.push((
                    format!("C03:{role}:wrong-error:exp={code:#x}:got={e}:ty={culprit}"),
                    format!("{ctx}: expected connection error {} in the {phase_name} phase, {c} call returned {e}", code_name(*code)),
                )),
                None => out.push((
                    format!("C03:{role}:illegal-sequence-not-rejected:exp={code:#x}:ty={culprit}:phase={phase_name}"),
                    format!("{ctx}: expected connection error {}; application saw {m:?}", code_name(*code)),
                )),
            }
            if first_err.is_some() {
                if closes.as_slice() != [*code] {
                    out.push((
                        format!("C03:{role}:wrong-close-code:exp={code:#x}:got={:?}", closes),
                        format!("{ctx}: transport close calls {:?}, expected exactly one with {}", closes, code_name(*code)),
                    ));
                }
                let want_drv = format!("Local({code:#x})");
                let after: Vec<&String> = o.driver.iter().filter(|d| *d != "req").collect();
                if after.is_empty() || after.iter().any(|d| **d != want_drv) {
                    out.push((
                        format!("C03:{role}:driver-disagrees:exp={code:#x}"),
                        format!("{ctx}: driver results {:?}, expected {want_drv} on every call", o.driver),
                    ));
                }
            }
        }
        Stop::RequestIncomplete => {
            let want = format!("Stream({:#x})", auto::H3_REQUEST_INCOMPLETE);
            if m.head != want {
                out.push((
                    format!("C03:{role}:fin-before-headers:got={}", if m.head.is_empty() { "pending" } else { &m.head }),
                    format!("{ctx}: expected stream error H3_REQUEST_INCOMPLETE, resolve_request returned {:?}", m.head),
                ));
            }
            if !closes.is_empty() {
                out.push((format!("C03:{role}:fin-before-headers-closed-connection"), format!("{ctx}: close({:#x})", closes[0])));
            }
            // "refused": the peer learns of it - the response stream is aborted with that code (RFC 9114 4.1), not
            // left to end as an empty response
            if m.head == want && !o.resets.contains(&auto::H3_REQUEST_INCOMPLETE) {
                out.push((
                    format!("C03:{role}:fin-before-headers:response-stream-not-reset"),
                    format!("{ctx}: resolve_request reported H3_REQUEST_INCOMPLETE but the response stream was not reset with it (reset calls {:x?}, stop_sending calls {:x?})", o.resets, o.stops),
                ));
            }
        }
        Stop::NeedMore => {
            // the call of the current phase must be the pending one; nothing may have failed
            if let Some((c, e)) = first_err {
                out.push((
                    format!("C03:{role}:error-on-incomplete-legal-prefix:{c}:{e}"),
                    format!("{ctx}: stream still open, expected the {phase_name} call to wait; {c} returned {e}"),
                ));
            } else {
                let ok = match v.phase {
                    Phase::Head => m.head.is_empty(),
                    Phase::Body => m.head == "ok" && m.body_end.is_empty() && m.body == v.body,
                    Phase::Trailers => m.body_end == "none" && m.trailers.is_empty(),
                };
                if !ok {
                    out.push((
                        format!("C03:{role}:wrong-pending-call:phase={phase_name}"),
                        format!("{ctx}: expected the {phase_name} call to be the one waiting (body so far {}); got {m:?}", hex(&v.body)),
                    ));
                }
            }
            if !closes.is_empty() {
                out.push((format!("C03:{role}:closed-on-incomplete-legal-prefix"), format!("{ctx}: close({:#x})", closes[0])));
            }
        }
        Stop::Unspecified => {}
    }
    out
}

fn case_json(c: &Case, choices: &[u32], seed: u64) -> Value {
    json!({
        "role": match c.role { Role::ServerRecv => "server", Role::ClientRecv => "client" },
        "seq": c.seq,
        "end": match c.end { End::Fin => json!("fin"), End::Open => json!("open"), End::Reset(x) => json!({"reset": x}) },
        "mode": format!("{:?}", c.mode),
        "choices": choices,
        "seed": seed,
    })
}

fn case_from_json(v: &Value) -> Case {
    Case {
        role: if v["role"] == "server" { Role::ServerRecv } else { Role::ClientRecv },
        seq: v["seq"].as_array().unwrap().iter().map(|x| x.as_u64().unwrap() as usize).collect(),
        end: match &v["end"] {
            Value::String(s) if s == "fin" => End::Fin,
            Value::String(_) => End::Open,
            o => End::Reset(o["reset"].as_u64().unwrap()),
        },
        mode: match v["mode"].as_str().unwrap() {
            "Whole" => Mode::Whole,
            "PerFrame" => Mode::PerFrame,
            "PerByte" => Mode::PerByte,
            "Inline" => Mode::Inline,
            _ => Mode::Explore,
        },
    }
}

pub fn run(args: &Args) -> i32 {
    let thorough = args.tier == Tier::Thorough;
    let n = if thorough { 6 } else { 5 };
    let bound = if thorough { 3 } else { 2 };
    let mut rep = Report::new("C03", args.tier, args.seed, "model_checking");
    rep.exhaustive = true;
    rep.rule = format!(
        "all frame sequences of length <= {n} over a 15-item alphabet (HEADERS, DATA(0), DATA(3), trailers, unknown(0), unknown(2), CANCEL_PUSH, SETTINGS, GOAWAY, MAX_PUSH_ID, PUSH_PROMISE, 0x2/0x6/0x8/0x9), extended only while the reference automaton is not in an error state; x ending (FIN, RESET(0x10c), open) x role (server receive, client receive) x delivery (whole, one write per frame, one byte per read, one write per frame with the request handled inside the server's accept loop, and explored: every cut/delay/scheduling deviation and application pause between two calls up to {bound}). Real h3 endpoint under the documented call pattern over simnet; oracle refimpl::h3auto. states = distinct (transport state, application observation) fingerprints; non-trivial = cases whose sequence has >= 2 frames."
    );
    rep.assumptions = vec![
        "refimpl::h3auto transcribes RFC 9114 4.1 (unit-tested); PUSH_PROMISE asserted for the server role only; a response stream FIN-ed before HEADERS is not asserted (DESIGN.md 7)".into(),
        "simnet delivers a RESET immediately (unread bytes are discarded), as QUIC permits".into(),
    ];
    rep.bound_note = format!("sequence length <= {n}; deviation bound {bound} in explored mode; exhaustive below both");
    let mut cases = Vec::new();
    for role in [Role::ServerRecv, Role::ClientRecv] {
        for seq in sequences(role, n) {
            for end in [End::Fin, End::Open, End::Reset(0x10c)] {
                for mode in [Mode::Whole, Mode::PerFrame, Mode::PerByte, Mode::Explore] {
                    if mode == Mode::Explore && seq.len() > if thorough { 5 } else { 4 } {
                        continue;
                    }
                    cases.push(Case { role, seq: seq.clone(), end, mode });
                }
                if role == Role::ServerRecv {
                    cases.push(Case { role, seq: seq.clone(), end, mode: Mode::Inline });
                }
            }
        }
    }
    let seed = args.seed;
    let deadline = std::time::Instant::now() + std::time::Duration::from_secs(if thorough { 1500 } else { 40 });
    let accs = explore::par::run(&cases, Acc::new, |_, case, acc| {
        let b = if case.mode == Mode::Explore { bound } else { 0 };
        let caps = Caps { deadline: Some(deadline), max_executions: 200_000, ..Caps::default() };
        let mut viol = explore::report::ViolSet::new();
        let mut states: Vec<u64> = Vec::new();
        let mut outcomes: Vec<u64> = Vec::new();
        let st = dfs::explore(
            b,
            &caps,
            || execute(case, seed),
            |e, o| {
                states.extend(o.fps.iter().copied());
                let mut h = Fnv::new();
                h.str(&format!("{:?}|{:?}|{:?}", o.msg, o.driver, o.close_calls));
                outcomes.push(h.finish());
                for (sig, msg) in judge(case, &o) {
                    viol.add(sig, msg, (e.cost, case.seq.len() * 10 + e.choices.len()), &e.choices);
                }
            },
        );
        if st.capped {
            acc.capped_cases += 1;
        }
        acc.dfs.merge(&st);
        acc.evaluations += st.executions;
        acc.states.extend(states);
        acc.outcomes.extend(outcomes);
        viol.drain_into(acc, |choices| case_json(case, choices, seed));
        if case.seq.len() >= 2 {
            let mut h = Fnv::new();
            h.str(&format!("{case:?}"));
            acc.nontrivial.insert(h.finish());
        }
    });
    let mut total = Acc::new();
    for a in accs {
        total.merge(a);
    }
    total.count("cases", cases.len() as u64);
    for i in [cases.len() / 3, cases.len() / 2, cases.len() - 1] {
        let c = &cases[i];
        let alpha = alphabet(c.role);
        total.samples.push(json!({"role": format!("{:?}", c.role), "sequence": c.seq.iter().map(|&i| alpha[i].name).collect::<Vec<_>>(), "ending": format!("{:?}", c.end), "delivery": format!("{:?}", c.mode)}));
    }
    rep.finish(total)
}

pub fn replay(r: &Value) -> i32 {
    let case = case_from_json(r);
    let seed = r["seed"].as_u64().unwrap_or(0);
    let choices: Vec<u32> = r["choices"].as_array().unwrap().iter().map(|v| v.as_u64().unwrap() as u32).collect();
    let alpha = alphabet(case.role);
    println!("case: {:?} receives {:?} then {:?}, delivery {:?}, choices {:?}", case.role, case.seq.iter().map(|&i| alpha[i].name).collect::<Vec<_>>(), case.end, case.mode, choices);
    let (o1, _, d1) = dfs::replay(&choices, || execute(&case, seed));
    let (o2, _, d2) = dfs::replay(&choices, || execute(&case, seed));
    if let Some(d) = d1.or(d2) {
        println!("REPLAY DIVERGED: {d}");
        return 2;
    }
    if o1 != o2 {
        println!("REPLAY NOT DETERMINISTIC");
        return 2;
    }
    println!("application saw: {:?}", o1.msg);
    println!("driver: {:?}  close calls: {:?}  resets: {:?}  stop_sendings: {:?}  panics: {:?}", o1.driver, o1.close_calls, o1.resets, o1.stops, o1.panics);
    let v = judge(&case, &o1);
    for (sig, msg) in &v {
        println!("observed: {sig}: {msg}");
    }
    if v.is_empty() {
        println!("observed: no violation");
        0
    } else {
        1
    }
}

#[allow(dead_code)]
fn _unused(_: Bytes) {}
