//! C01 — end-to-end message fidelity for every message and transport behaviour.
//!
//! Real h3 client <-> simnet <-> real h3 server. The message alphabet is a product of methods,
//! targets, header multisets, body piece lists and trailers (both directions); request streams
//! are used whole or split into halves driven by separate tasks. Every execution is explored
//! under a deviation bound k shared by: chunk cuts and delayed delivery on the request stream in
//! both directions, partial / pending write acceptance, and scheduling of all tasks.

use crate::scen::*;
use crate::Args;
use bytes::Bytes;
use explore::dfs::{self, Caps};
use explore::report::{Acc, Report, Tier};
use explore::{hex, Fnv};
use h3::ext::Protocol;
use serde_json::{json, Value};
use simnet::{Exec, Net, NetCfg, Policy, SimConn, CLIENT, SERVER};

#[derive(Clone, Debug, PartialEq, Eq)]
pub struct Shape {
    pub method: usize,
    pub target: usize,
    pub req_headers: usize,
    pub req_body: usize,
    pub req_trailers: usize,
    pub status: usize,
    pub resp_headers: usize,
    pub resp_body: usize,
    pub resp_trailers: usize,
    pub split: bool,
    /// with `split`: the server handler first reads one piece of the body on the whole stream and splits then
    /// (a split in the middle of a DATA frame), instead of splitting before the first read
    pub late: bool,
    /// the server handles the request INSIDE its accept loop (the sequential loop of the examples): accept() is not
    /// polled again before the response is finished, so nothing drives the connection meanwhile
    pub inline: bool,
}

pub const METHODS: [(&str, bool); 5] = [("GET", false), ("POST", false), ("OPTIONS", false), ("CONNECT", false), ("CONNECT", true)];
/// (uri, extra Host header)
pub const TARGETS: [(&str, Option<&str>); 7] = [
    ("https://a.example/", None),
    ("https://a.example/?page=2&s=a", None),
    ("https://a.example?x=1", None),
    ("http://a.example/p?q=1", None),
    ("https://a.example", None),
    ("a.example:443", None),
    ("/only/path", Some("h.example")),
];
pub const STATUSES: [u16; 4] = [200, 204, 404, 599];

pub fn header_sets() -> Vec<Vec<(&'static str, Vec<u8>)>> {
    crate::c12::header_sets()
}

pub fn bodies() -> Vec<Vec<usize>> {
    vec![
        vec![],
        vec![0],
        vec![1],
        vec![2, 63],
        vec![64, 0, 65],
        vec![16383],
        vec![16384, 1],
        vec![3, 3, 3],
        vec![65536],
    ]
}

pub fn trailer_sets() -> Vec<Option<Vec<(&'static str, Vec<u8>)>>> {
    vec![None, Some(vec![("t", b"v".to_vec())]), Some(vec![("t", b"1".to_vec()), ("u", b"x".to_vec()), ("t", b"2".to_vec())])]
}

fn body_bytes(pieces: &[usize], salt: u8) -> Vec<Vec<u8>> {
    let mut off = 0usize;
    pieces
        .iter()
        .map(|&n| {
            let v: Vec<u8> = (off..off + n).map(|i| ((i as u32).wrapping_mul(2654435761) >> 13) as u8 ^ salt).collect();
            off += n;
            v
        })
        .collect()
}

fn header_map(set: &[(&'static str, Vec<u8>)]) -> http::HeaderMap {
    let mut h = http::HeaderMap::new();
    for (n, v) in set {
        h.append(http::header::HeaderName::from_static(n), http::HeaderValue::from_bytes(v).unwrap());
    }
    h
}

/// What one side observed of the message it received.
#[derive(Debug, Clone, Default, PartialEq, Eq)]
pub struct Seen {
    pub head: String,
    pub body: Vec<u8>,
    pub end_of_body: usize,
    pub trailers: String,
    pub errors: Vec<String>,
    pub done: bool,
}

#[derive(Debug, Clone, Default, PartialEq, Eq)]
pub struct Outcome {
    pub server_saw: Seen,
    pub client_saw: Seen,
    pub client_send: String,
    pub server_send: String,
    pub client_driver: Vec<String>,
    pub server_driver: Vec<String>,
    pub close_calls: (Vec<u64>, Vec<u64>),
    pub panics: Vec<(String, String)>,
    pub pending: Vec<String>,
    pub horizon: bool,
    pub misuse: Vec<String>,
    pub fps: Vec<u64>,
}

const HORIZON: usize = 400_000;

fn head_string(method: &str, scheme: Option<&str>, authority: Option<&str>, path: &str, protocol: bool, headers: &http::HeaderMap) -> String {
    format!("{method} scheme={scheme:?} authority={authority:?} path={path} protocol={protocol} {}", headermap_str(headers))
}

/// The body pieces are handed over as a Buf made of TWO slices (`chunk()` shows only the first): a sender
/// that looks at the first slice only would announce or write the wrong length.
type B2 = bytes::buf::Chain<Bytes, Bytes>;

fn two_slices(p: Vec<u8>) -> B2 {
    use bytes::Buf;
    let cut = p.len() / 2;
    let tail = Bytes::copy_from_slice(&p[cut..]);
    let mut head = Bytes::from(p);
    head.truncate(cut);
    head.chain(tail)
}

async fn recv_message_srv<S: h3::quic::RecvStream>(s: &mut h3::server::RequestStream<S, B2>, seen: &Shared<Seen>) {
    loop {
        app_pause().await;
        match s.recv_data().await {
            Ok(Some(b)) => {
                let v = drain(b);
                seen.borrow_mut().body.extend(v);
            }
            Ok(None) => {
                seen.borrow_mut().end_of_body += 1;
                break;
            }
            Err(e) => {
                seen.borrow_mut().errors.push(format!("recv_data:{}", stream_class(&e)));
                return;
            }
        }
    }
    app_pause().await;
    match s.recv_trailers().await {
        Ok(Some(t)) => seen.borrow_mut().trailers = headermap_str(&t),
        Ok(None) => seen.borrow_mut().trailers = "none".into(),
        Err(e) => {
            seen.borrow_mut().errors.push(format!("recv_trailers:{}", stream_class(&e)));
            return;
        }
    }
    seen.borrow_mut().done = true;
}

/// the rest of the documented pattern after the body has ended
async fn recv_tail_srv<S: h3::quic::RecvStream>(s: &mut h3::server::RequestStream<S, B2>, seen: &Shared<Seen>) {
    app_pause().await;
    match s.recv_trailers().await {
        Ok(Some(t)) => seen.borrow_mut().trailers = headermap_str(&t),
        Ok(None) => seen.borrow_mut().trailers = "none".into(),
        Err(e) => {
            seen.borrow_mut().errors.push(format!("recv_trailers:{}", stream_class(&e)));
            return;
        }
    }
    seen.borrow_mut().done = true;
}

async fn recv_message_cli<S: h3::quic::RecvStream>(s: &mut h3::client::RequestStream<S, B2>, seen: &Shared<Seen>) {
    match s.recv_response().await {
        Ok(r) => seen.borrow_mut().head = format!("{} {}", r.status().as_u16(), headermap_str(r.headers())),
        Err(e) => {
            seen.borrow_mut().errors.push(format!("recv_response:{}", stream_class(&e)));
            return;
        }
    }
    loop {
        app_pause().await;
        match s.recv_data().await {
            Ok(Some(b)) => {
                let v = drain(b);
                seen.borrow_mut().body.extend(v);
            }
            Ok(None) => {
                seen.borrow_mut().end_of_body += 1;
                break;
            }
            Err(e) => {
                seen.borrow_mut().errors.push(format!("recv_data:{}", stream_class(&e)));
                return;
            }
        }
    }
    app_pause().await;
    match s.recv_trailers().await {
        Ok(Some(t)) => seen.borrow_mut().trailers = headermap_str(&t),
        Ok(None) => seen.borrow_mut().trailers = "none".into(),
        Err(e) => {
            seen.borrow_mut().errors.push(format!("recv_trailers:{}", stream_class(&e)));
            return;
        }
    }
    seen.borrow_mut().done = true;
}

pub fn execute(shape: &Shape, seed: u64, explore_mode: bool) -> Outcome {
    set_app_pauses(explore_mode);
    let mut cfg = NetCfg::default();
    if explore_mode {
        cfg.read = Policy::Choose;
        cfg.write = Policy::Choose;
        cfg.allow_delay = true;
        cfg.focus = Some(vec![0]);
        cfg.dense_cut_limit = 4;
    }
    execute_cfg(shape, seed, cfg)
}

/// bytes one endpoint may write on the request stream before it is treated as a runaway writer: four times the
/// message (bodies, generous room for heads, trailers and framing)
fn stream_byte_cap(shape: &Shape) -> usize {
    let b = |i: usize| bodies()[i].iter().sum::<usize>();
    4 * (b(shape.req_body).max(b(shape.resp_body)) + 8192)
}

pub fn execute_cfg(shape: &Shape, seed: u64, mut cfg: NetCfg) -> Outcome {
    fastrand::seed(seed);
    cfg.max_stream_bytes = stream_byte_cap(shape);
    let net = Net::new(cfg);
    let mut ex = Exec::new();
    let server_saw = shared(Seen::default());
    let client_saw = shared(Seen::default());
    let client_send = shared(String::new());
    let server_send = shared(String::new());
    let cdrv = shared(Vec::<String>::new());
    let sdrv = shared(Vec::<String>::new());
    let shape = shape.clone();
    // ---- server
    {
        let (net2, sp, saw, ssend, sdrv2, shape2) = (net.clone(), ex.spawner(), server_saw.clone(), server_send.clone(), sdrv.clone(), shape.clone());
        ex.spawn("server", async move {
            let mut b = h3::server::builder();
            b.send_grease(true).enable_extended_connect(true);
            let mut conn: h3::server::Connection<SimConn, B2> = match b.build(SimConn::new(&net2, SERVER)).await {
                Ok(c) => c,
                Err(e) => {
                    sdrv2.borrow_mut().push(format!("build:{}", conn_class(&e)));
                    return;
                }
            };
            loop {
                match conn.accept().await {
                    Ok(Some(resolver)) => {
                        sdrv2.borrow_mut().push("req".into());
                        let (saw, ssend, shape3, sp2) = (saw.clone(), ssend.clone(), shape2.clone(), sp.clone());
                        let inline = shape2.inline;
                        let handler = async move {
                            let (req, mut stream) = match resolver.resolve_request().await {
                                Ok(x) => x,
                                Err(e) => {
                                    saw.borrow_mut().errors.push(format!("resolve:{}", stream_class(&e)));
                                    return;
                                }
                            };
                            saw.borrow_mut().head = head_string(
                                req.method().as_str(),
                                req.uri().scheme_str(),
                                req.uri().authority().map(|a| a.as_str()),
                                req.uri().path_and_query().map(|p| p.as_str()).unwrap_or(""),
                                req.extensions().get::<Protocol>().is_some(),
                                req.headers(),
                            );
                            let resp_body = body_bytes(&bodies()[shape3.resp_body], 0x5a);
                            let mut resp = http::Response::builder().status(STATUSES[shape3.status]).body(()).unwrap();
                            *resp.headers_mut() = header_map(&header_sets()[shape3.resp_headers]);
                            let tr = trailer_sets()[shape3.resp_trailers].clone();
                            if shape3.split {
                                // late split: one read on the whole stream first
                                let mut body_over = false;
                                if shape3.late {
                                    match stream.recv_data().await {
                                        Ok(Some(b)) => {
                                            let v = drain(b);
                                            saw.borrow_mut().body.extend(v);
                                        }
                                        Ok(None) => {
                                            saw.borrow_mut().end_of_body += 1;
                                            body_over = true;
                                        }
                                        Err(e) => {
                                            saw.borrow_mut().errors.push(format!("recv_data:{}", stream_class(&e)));
                                            return;
                                        }
                                    }
                                }
                                let (mut tx, mut rx) = stream.split();
                                let saw2 = saw.clone();
                                sp2.spawn("handler-recv", async move {
                                    if body_over {
                                        recv_tail_srv(&mut rx, &saw2).await;
                                    } else {
                                        recv_message_srv(&mut rx, &saw2).await;
                                    }
                                });
                                let r = async {
                                    tx.send_response(resp).await?;
                                    for p in resp_body {
                                        tx.send_data(two_slices(p)).await?;
                                    }
                                    if let Some(t) = tr {
                                        tx.send_trailers(header_map(&t)).await?;
                                    }
                                    tx.finish().await
                                }
                                .await;
                                *ssend.borrow_mut() = match r {
                                    Ok(()) => "ok".into(),
                                    Err(e) => stream_class(&e),
                                };
                            } else {
                                recv_message_srv(&mut stream, &saw).await;
                                let r = async {
                                    stream.send_response(resp).await?;
                                    for p in resp_body {
                                        stream.send_data(two_slices(p)).await?;
                                    }
                                    if let Some(t) = tr {
                                        stream.send_trailers(header_map(&t)).await?;
                                    }
                                    stream.finish().await
                                }
                                .await;
                                *ssend.borrow_mut() = match r {
                                    Ok(()) => "ok".into(),
                                    Err(e) => stream_class(&e),
                                };
                            }
                        };
                        if inline {
                            handler.await;
                        } else {
                            sp.spawn("handler", handler);
                        }
                    }
                    Ok(None) => {
                        sdrv2.borrow_mut().push("none".into());
                        break;
                    }
                    Err(e) => {
                        sdrv2.borrow_mut().push(conn_class(&e));
                        break;
                    }
                }
            }
            std::future::pending::<()>().await;
            drop(conn);
        });
    }
    // ---- client
    {
        let (net2, sp, saw, csend, cdrv2, shape2) = (net.clone(), ex.spawner(), client_saw.clone(), client_send.clone(), cdrv.clone(), shape.clone());
        ex.spawn("client", async move {
            let mut b = h3::client::builder();
            b.send_grease(true).enable_extended_connect(true);
            let (mut conn, mut sr): (h3::client::Connection<SimConn, B2>, h3::client::SendRequest<simnet::SimOpener, B2>) = match b.build(SimConn::new(&net2, CLIENT)).await {
                Ok(x) => x,
                Err(e) => {
                    cdrv2.borrow_mut().push(format!("build:{}", conn_class(&e)));
                    return;
                }
            };
            let cdrv3 = cdrv2.clone();
            sp.spawn("client-driver", async move {
                let e = std::future::poll_fn(|cx| conn.poll_close(cx)).await;
                cdrv3.borrow_mut().push(conn_class(&e));
                std::future::pending::<()>().await;
                drop(conn);
            });
            let (m, proto) = METHODS[shape2.method];
            let (uri, host) = TARGETS[shape2.target];
            let mut rb = http::Request::builder().method(m).uri(uri);
            if let Some(h) = host {
                rb = rb.header("host", h);
            }
            let mut req = rb.body(()).unwrap();
            for (n, v) in header_map(&header_sets()[shape2.req_headers]).iter() {
                req.headers_mut().append(n.clone(), v.clone());
            }
            if proto {
                req.extensions_mut().insert(Protocol::WEB_TRANSPORT);
            }
            let body = body_bytes(&bodies()[shape2.req_body], 0xa5);
            let tr = trailer_sets()[shape2.req_trailers].clone();
            // every other shape sends through a clone of the handle (a documented use); the original stays alive
            let mut sender = sr.clone();
            if (shape2.req_headers + shape2.req_body) % 2 == 0 {
                std::mem::swap(&mut sender, &mut sr);
            }
            let stream = match sender.send_request(req).await {
                Ok(s) => s,
                Err(e) => {
                    *csend.borrow_mut() = format!("send_request:{}", stream_class(&e));
                    return;
                }
            };
            if shape2.split {
                let (mut tx, mut rx) = stream.split();
                let saw2 = saw.clone();
                let rx_done = shared(false);
                let rx_done2 = rx_done.clone();
                sp.spawn("client-recv", async move {
                    recv_message_cli(&mut rx, &saw2).await;
                    *rx_done2.borrow_mut() = true;
                });
                let r = async {
                    for p in body {
                        tx.send_data(two_slices(p)).await?;
                    }
                    if let Some(t) = tr {
                        tx.send_trailers(header_map(&t)).await?;
                    }
                    tx.finish().await
                }
                .await;
                *csend.borrow_mut() = match r {
                    Ok(()) => "ok".into(),
                    Err(e) => stream_class(&e),
                };
                // keep the connection until the response has been read
                let mut spins = 0;
                while !*rx_done.borrow() && spins < 20_000 {
                    spins += 1;
                    simnet::exec::yield_now().await;
                }
            } else {
                let mut stream = stream;
                let r = async {
                    for p in body {
                        stream.send_data(two_slices(p)).await?;
                    }
                    if let Some(t) = tr {
                        stream.send_trailers(header_map(&t)).await?;
                    }
                    stream.finish().await
                }
                .await;
                *csend.borrow_mut() = match r {
                    Ok(()) => "ok".into(),
                    Err(e) => stream_class(&e),
                };
                recv_message_cli(&mut stream, &saw).await;
            }
            // last SendRequest dropped: graceful close with H3_NO_ERROR
            drop((sr, sender));
        });
    }
    let mut fps = Vec::new();
    let q = {
        let net = net.clone();
        let (a, b) = (server_saw.clone(), client_saw.clone());
        ex.run(HORIZON, |_| {
            let mut h = Fnv::new();
            h.u64(net.fingerprint_light());
            let (a, b) = (a.borrow(), b.borrow());
            h.u64(a.body.len() as u64 | (b.body.len() as u64) << 24 | (a.done as u64) << 48 | (b.done as u64) << 49 | (a.end_of_body as u64) << 50 | (b.end_of_body as u64) << 52);
            fps.push(h.finish());
        })
    };
    // an execution that ran into the horizon (a livelock) contributes a violation, not 400 000 "states"
    if q.horizon_hit {
        fps.clear();
    }
    let mut misuse = net.misuse(CLIENT);
    misuse.extend(net.misuse(SERVER));
    let out = Outcome {
        server_saw: server_saw.borrow().clone(),
        client_saw: client_saw.borrow().clone(),
        client_send: client_send.borrow().clone(),
        server_send: server_send.borrow().clone(),
        client_driver: cdrv.borrow().clone(),
        server_driver: sdrv.borrow().clone(),
        close_calls: (net.close_calls(CLIENT).iter().map(|c| c.0).collect(), net.close_calls(SERVER).iter().map(|c| c.0).collect()),
        panics: q.panics,
        pending: q.pending,
        horizon: q.horizon_hit,
        misuse,
        fps,
    };
    out
}

pub struct Expected {
    pub server_head: String,
    pub req_body: Vec<u8>,
    pub req_trailers: String,
    pub client_head: String,
    pub resp_body: Vec<u8>,
    pub resp_trailers: String,
}

pub fn expected(shape: &Shape) -> Expected {
    let (m, proto) = METHODS[shape.method];
    let (uri, host) = TARGETS[shape.target];
    let u: http::Uri = uri.parse().unwrap();
    let mut hm = http::HeaderMap::new();
    if let Some(h) = host {
        hm.append("host", h.parse().unwrap());
    }
    for (n, v) in header_map(&header_sets()[shape.req_headers]).iter() {
        hm.append(n.clone(), v.clone());
    }
    let plain_connect = m == "CONNECT" && !proto;
    // the scheme the server must see: the caller's; when the caller gave none h3 may pick one
    let scheme = if plain_connect { None } else { Some(u.scheme_str().unwrap_or("https")) };
    let authority = u.authority().map(|a| a.as_str()).or(host);
    let path = if plain_connect {
        ""
    } else {
        match u.path_and_query().map(|p| p.as_str()) {
            Some("") | None => "/",
            Some(p) => p,
        }
    };
    let tr = |i: usize| match &trailer_sets()[i] {
        None => "none".to_string(),
        Some(t) => headermap_str(&header_map(t)),
    };
    Expected {
        server_head: head_string(m, scheme, authority, path, proto, &hm),
        req_body: body_bytes(&bodies()[shape.req_body], 0xa5).concat(),
        req_trailers: tr(shape.req_trailers),
        client_head: format!("{} {}", STATUSES[shape.status], headermap_str(&header_map(&header_sets()[shape.resp_headers]))),
        resp_body: body_bytes(&bodies()[shape.resp_body], 0x5a).concat(),
        resp_trailers: tr(shape.resp_trailers),
    }
}

fn first_diff(a: &[u8], b: &[u8]) -> String {
    let i = a.iter().zip(b).position(|(x, y)| x != y).unwrap_or(a.len().min(b.len()));
    format!("lengths {} vs {}, first difference at offset {i}", a.len(), b.len())
}

pub fn judge(shape: &Shape, o: &Outcome) -> Vec<(String, String)> {
    let e = expected(shape);
    let ctx = format!("{shape:?}");
    let mut out = Vec::new();
    for (t, p) in &o.panics {
        out.push((format!("C01:panic@{}", explore::panics::short_loc(p)), format!("{ctx}: task {t} panicked: {p}")));
    }
    if o.horizon {
        out.push(("C01:livelock".into(), format!("{ctx}: still runnable after {HORIZON} polls")));
        return out;
    }
    for m in &o.misuse {
        out.push(("C01:transport-contract-violated".into(), format!("{ctx}: {m}")));
    }
    // plain CONNECT with an absolute/path target is not a message the alphabet means to send
    // request direction
    let checks: [(&str, bool, String); 12] = [
        ("request-head", o.server_saw.head == e.server_head, format!("server saw {:?}, client sent {:?}", o.server_saw.head, e.server_head)),
        ("request-body", o.server_saw.body == e.req_body, format!("request body: {}", first_diff(&o.server_saw.body, &e.req_body))),
        ("request-end-of-body", o.server_saw.end_of_body == 1, format!("server saw {} end-of-body indications", o.server_saw.end_of_body)),
        ("request-trailers", o.server_saw.trailers == e.req_trailers, format!("server saw trailers {:?}, sent {:?}", o.server_saw.trailers, e.req_trailers)),
        ("request-errors", o.server_saw.errors.is_empty() && o.server_saw.done, format!("server receive side: errors {:?}, done {}", o.server_saw.errors, o.server_saw.done)),
        ("response-head", o.client_saw.head == e.client_head, format!("client saw {:?}, server sent {:?}", o.client_saw.head, e.client_head)),
        ("response-body", o.client_saw.body == e.resp_body, format!("response body: {}", first_diff(&o.client_saw.body, &e.resp_body))),
        ("response-end-of-body", o.client_saw.end_of_body == 1, format!("client saw {} end-of-body indications", o.client_saw.end_of_body)),
        ("response-trailers", o.client_saw.trailers == e.resp_trailers, format!("client saw trailers {:?}, sent {:?}", o.client_saw.trailers, e.resp_trailers)),
        ("response-errors", o.client_saw.errors.is_empty() && o.client_saw.done, format!("client receive side: errors {:?}, done {}", o.client_saw.errors, o.client_saw.done)),
        ("client-send", o.client_send == "ok", format!("client send half returned {:?}", o.client_send)),
        ("server-send", o.server_send == "ok", format!("server send half returned {:?}", o.server_send)),
    ];
    for (name, ok, msg) in checks {
        if !ok {
            out.push((format!("C01:{name}"), format!("{ctx}: {msg}")));
        }
    }
    // no connection error: the only close is the client's graceful H3_NO_ERROR at the very end
    let (cc, sc) = &o.close_calls;
    if cc.iter().any(|c| *c != 0x100) || sc.iter().any(|c| *c != 0x100) {
        out.push(("C01:connection-error".into(), format!("{ctx}: close calls client {cc:x?} server {sc:x?}; drivers {:?} / {:?}", o.client_driver, o.server_driver)));
    }
    let unfinished: Vec<&String> = o.pending.iter().filter(|t| !matches!(t.as_str(), "server" | "client-driver")).collect();
    if !unfinished.is_empty() && out.is_empty() {
        out.push((format!("C01:task-never-completes:{}", unfinished[0]), format!("{ctx}: tasks still pending at quiescence: {:?}", o.pending)));
    }
    out
}

fn shape_json(s: &Shape, choices: &[u32], seed: u64) -> Value {
    json!({"shape":[s.method,s.target,s.req_headers,s.req_body,s.req_trailers,s.status,s.resp_headers,s.resp_body,s.resp_trailers,s.split as usize,s.late as usize,s.inline as usize],"choices":choices,"seed":seed})
}

fn shape_from(v: &Value) -> Shape {
    let a: Vec<usize> = v["shape"].as_array().unwrap().iter().map(|x| x.as_u64().unwrap() as usize).collect();
    Shape { method: a[0], target: a[1], req_headers: a[2], req_body: a[3], req_trailers: a[4], status: a[5], resp_headers: a[6], resp_body: a[7], resp_trailers: a[8], split: a[9] != 0, late: a.get(10).copied().unwrap_or(0) != 0, inline: a.get(11).copied().unwrap_or(0) != 0 }
}

fn valid_combo(method: usize, target: usize) -> bool {
    let (m, proto) = METHODS[method];
    let (uri, _) = TARGETS[target];
    let authority_form = !uri.contains('/');
    match (m, proto) {
        ("CONNECT", false) => authority_form,
        _ => !authority_form,
    }
}

/// the full product (thorough) or a covering subset (quick): every alternative of every
/// dimension appears, every pair (request body, response body) and (headers, trailers) appears
pub fn shapes(thorough: bool) -> Vec<Shape> {
    let (nh, nb, nt) = (header_sets().len(), bodies().len(), trailer_sets().len());
    let mut out = Vec::new();
    if thorough {
        for method in 0..METHODS.len() {
            for target in 0..TARGETS.len() {
                if !valid_combo(method, target) {
                    continue;
                }
                for rh in 0..nh {
                    for rb in 0..nb {
                        for rt in 0..nt {
                            // response dimensions vary with the request ones (covering pairs)
                            let st = (rh + rb) % STATUSES.len();
                            let ph = (rh + 3) % nh;
                            let pb = (rb * 2 + rt) % nb;
                            let pt = (rt + rh) % nt;
                            for (split, late) in [(false, false), (true, false), (true, true)] {
                                out.push(Shape { method, target, req_headers: rh, req_body: rb, req_trailers: rt, status: st, resp_headers: ph, resp_body: pb, resp_trailers: pt, split, late, inline: false });
                            }
                        }
                    }
                }
            }
        }
    } else {
        let mut i = 0usize;
        for method in 0..METHODS.len() {
            for target in 0..TARGETS.len() {
                if !valid_combo(method, target) {
                    continue;
                }
                for k in 0..3 {
                    i += 1;
                    out.push(Shape {
                        method,
                        target,
                        req_headers: (i + k) % nh,
                        req_body: (i * 2 + k) % (nb - 1),
                        req_trailers: (i + k) % nt,
                        status: i % STATUSES.len(),
                        resp_headers: (i * 3 + 1) % nh,
                        resp_body: (i + 4 * k) % (nb - 1),
                        resp_trailers: (i / 2 + k) % nt,
                        split: (i + k) % 2 == 0,
                        late: (i + k) % 4 == 0,
                        inline: false,
                    });
                }
            }
        }
    }
    out
}

pub fn run(args: &Args) -> i32 {
    let thorough = args.tier == Tier::Thorough;
    let bound = 2;
    let mut rep = Report::new("C01", args.tier, args.seed, "model_checking");
    rep.exhaustive = true;
    let shapes = shapes(thorough);
    rep.rule = format!(
        "{} message shapes from the product of 5 method kinds (GET, POST, OPTIONS, CONNECT, extended CONNECT) x 7 targets (absolute https/http with and without path and query, root path with a query, empty path with a query, authority-form, path + Host header) x 7 header multisets (static-table hit, name-only hit, literal, a name three times interleaved with another, 300-byte value, bytes 0x80-0xff) x 9 body piece lists (0..65536 bytes, pieces of 0,1,2,3,63,64,65,16383,16384 bytes) x 3 trailer options, independently for request and response, request stream whole, split into halves on separate tasks before the first read, or split after the first body read (in the middle of a DATA frame when the transport cut it). Each shape: every execution with <= {bound} deviations, a deviation being a chunk cut (dense for short reads, at write-chunk boundaries +-1 otherwise) or delayed delivery on the request stream in either direction, a partial or pending write acceptance, an application pause between two receive calls, or a scheduling choice other than the FIFO default among client task, client driver, server task, handlers and split halves; plus every shape once under one-byte-per-read and once under one-byte-per-write. Every shape whose request stream is not split is run once more with the server handling the request inside its accept loop (accept() not polled until the response is finished): default delivery, one byte per read, one byte per write, and every execution with at most one deviation. Every body piece is handed over as a two-slice Buf (Chain). Every other shape sends its request through a clone of the SendRequest handle. Body bytes are position-coded. Oracle: message in = message out. states = distinct (transport cursors, observation progress) fingerprints; non-trivial = executions with at least one deviation.",
        shapes.len()
    );
    rep.assumptions = vec![
        "data independence: h3 never branches on payload bytes, so position-coded content exposes loss, duplication and reordering of any content".into(),
        "64 KiB bodies appear as single pieces; the deviation bound, not the body size, limits the chunkings explored".into(),
    ];
    rep.bound_note = format!("deviation bound {bound} per shape (cuts + delays + partial writes + scheduling share it)");
    let seed = args.seed;
    let deadline = std::time::Instant::now() + std::time::Duration::from_secs(if thorough { 1500 } else { 55 });
    #[derive(Clone)]
    enum Job {
        Explore(Shape),
        PerByteRead(Shape),
        PerByteWrite(Shape),
        /// the same shape with the request handled inside the accept loop: default delivery, one byte per read, one
        /// byte per write, and every execution with at most one deviation
        Inline(Shape),
    }
    // split the exploration of each shape by its first-level deviations so that work is even
    let mut jobs: Vec<Job> = Vec::new();
    for s in &shapes {
        jobs.push(Job::Explore(s.clone()));
        let total: usize = bodies()[s.req_body].iter().sum::<usize>() + bodies()[s.resp_body].iter().sum::<usize>();
        if total <= 40_000 {
            jobs.push(Job::PerByteRead(s.clone()));
            jobs.push(Job::PerByteWrite(s.clone()));
        }
        if !s.split && (thorough || total <= 40_000) {
            jobs.push(Job::Inline(Shape { inline: true, ..s.clone() }));
        }
    }
    let accs = explore::par::run(&jobs, Acc::new, |_, job, acc| match job {
        Job::Explore(shape) => {
            let caps = Caps { deadline: Some(deadline), max_executions: if thorough { 3_000_000 } else { 60_000 }, ..Caps::default() };
            let mut viol = explore::report::ViolSet::new();
            let mut states: Vec<u64> = Vec::new();
            let mut outcomes: Vec<u64> = Vec::new();
            let mut nontrivial = 0u64;
            let st = dfs::explore(
                bound,
                &caps,
                || execute(shape, seed, true),
                |e, o| {
                    states.extend(o.fps.iter().copied());
                    let mut h = Fnv::new();
                    h.str(&format!("{:?}{:?}{}{}", o.server_saw.errors, o.client_saw.errors, o.client_send, o.server_send));
                    h.u64(o.fps.len() as u64);
                    outcomes.push(h.finish());
                    if e.cost > 0 {
                        nontrivial += 1;
                    }
                    for (sig, msg) in judge(shape, &o) {
                        viol.add(sig, msg, (e.cost, e.choices.len()), &e.choices);
                    }
                },
            );
            if st.capped {
                acc.capped_cases += 1;
            }
            acc.dfs.merge(&st);
            acc.evaluations += st.executions;
            acc.states.extend(states);
            acc.outcomes.extend(outcomes);
            let mut h = Fnv::new();
            h.str(&format!("{shape:?}"));
            for k in 0..nontrivial.min(1_000_000) {
                acc.nontrivial.insert(h.finish().wrapping_add(k));
            }
            viol.drain_into(acc, |choices| shape_json(shape, choices, seed));
        }
        Job::Inline(shape) => {
            for (mode, read) in [("inline:one-byte-reads", true), ("inline:one-byte-writes", false)] {
                let o = execute_mode(shape, seed, read);
                acc.evaluations += 1;
                acc.dfs.executions += 1;
                acc.states.extend(o.fps.iter().copied());
                for (sig, msg) in judge(shape, &o) {
                    acc.violation(format!("{sig}:{mode}"), msg, (1, 0), || {
                        let mut j = shape_json(shape, &[], seed);
                        j["mode"] = json!(if read { "read1" } else { "write1" });
                        j
                    });
                }
            }
            let caps = Caps { deadline: Some(deadline), max_executions: 60_000, ..Caps::default() };
            let mut viol = explore::report::ViolSet::new();
            let mut states: Vec<u64> = Vec::new();
            let st = dfs::explore(
                1,
                &caps,
                || execute(shape, seed, true),
                |e, o| {
                    states.extend(o.fps.iter().copied());
                    for (sig, msg) in judge(shape, &o) {
                        viol.add(format!("{sig}:inline"), msg, (e.cost, e.choices.len()), &e.choices);
                    }
                },
            );
            if st.capped {
                acc.capped_cases += 1;
            }
            acc.dfs.merge(&st);
            acc.evaluations += st.executions;
            acc.states.extend(states);
            viol.drain_into(acc, |choices| shape_json(shape, choices, seed));
        }
        Job::PerByteRead(shape) | Job::PerByteWrite(shape) => {
            let read = matches!(job, Job::PerByteRead(_));
            let o = execute_mode(shape, seed, read);
            acc.evaluations += 1;
            acc.dfs.executions += 1;
            acc.states.extend(o.fps.iter().copied());
            for (sig, msg) in judge(shape, &o) {
                acc.violation(format!("{sig}:{}", if read { "one-byte-reads" } else { "one-byte-writes" }), msg, (1, 0), || {
                    let mut j = shape_json(shape, &[], seed);
                    j["mode"] = json!(if read { "read1" } else { "write1" });
                    j
                });
            }
        }
    });
    let mut total = Acc::new();
    for a in accs {
        total.merge(a);
    }
    total.count("shapes", shapes.len() as u64);
    for i in [0, shapes.len() / 2, shapes.len() - 1] {
        total.samples.push(json!(format!("{:?}", shapes[i])));
    }
    rep.finish(total)
}

/// One execution with a uniform policy: one byte per read, or one byte per write.
pub fn execute_mode(shape: &Shape, seed: u64, per_byte_read: bool) -> Outcome {
    let mut cfg = NetCfg::default();
    if per_byte_read {
        cfg.read = Policy::PerByte;
    } else {
        cfg.write = Policy::PerByte;
    }
    execute_cfg(shape, seed, cfg)
}

pub fn replay(r: &Value) -> i32 {
    let shape = shape_from(r);
    let seed = r["seed"].as_u64().unwrap_or(0);
    let choices: Vec<u32> = r["choices"].as_array().unwrap().iter().map(|v| v.as_u64().unwrap() as u32).collect();
    println!("shape: {shape:?}");
    let run_once = || match r["mode"].as_str() {
        Some("read1") => (execute_mode(&shape, seed, true), None),
        Some("write1") => (execute_mode(&shape, seed, false), None),
        _ => {
            let (o, _, d) = dfs::replay(&choices, || execute(&shape, seed, true));
            (o, d)
        }
    };
    let (o1, d1) = run_once();
    let (o2, d2) = run_once();
    if let Some(d) = d1.or(d2) {
        println!("REPLAY DIVERGED: {d}");
        return 2;
    }
    if o1 != o2 {
        println!("REPLAY NOT DETERMINISTIC");
        return 2;
    }
    let e = expected(&shape);
    println!("expected: server sees {:?}, {} body bytes, trailers {:?}; client sees {:?}, {} body bytes, trailers {:?}", e.server_head, e.req_body.len(), e.req_trailers, e.client_head, e.resp_body.len(), e.resp_trailers);
    println!("observed: server {:?} body {} bytes eob {} trailers {:?} errors {:?}", o1.server_saw.head, o1.server_saw.body.len(), o1.server_saw.end_of_body, o1.server_saw.trailers, o1.server_saw.errors);
    println!("observed: client {:?} body {} bytes eob {} trailers {:?} errors {:?}", o1.client_saw.head, o1.client_saw.body.len(), o1.client_saw.end_of_body, o1.client_saw.trailers, o1.client_saw.errors);
    println!("sends: client {:?} server {:?}; close calls {:?}; pending {:?}; panics {:?}", o1.client_send, o1.server_send, o1.close_calls, o1.pending, o1.panics);
    let v = judge(&shape, &o1);
    for (sig, msg) in &v {
        println!("observed: {sig}: {msg}");
    }
    if v.is_empty() {
        println!("observed: no violation");
        0
    } else {
        1
    }
}

#[allow(dead_code)]
fn _h(_: &[u8]) -> String {
    hex(&[])
}
