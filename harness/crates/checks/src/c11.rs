//! C11 — QPACK field sections: what h3 writes and accepts is RFC 9204, exactly.
//!
//! Complete enumeration of bounded input spaces of the real `encode_stateless` /
//! `decode_stateless` against `refimpl::qpack` (static table typed in from the RFC, Huffman
//! table from a third code base).

use crate::common::guard;
use crate::Args;
use bytes::Bytes;
use explore::report::{Acc, Report, Tier};
use explore::{hex, Fnv};
use h3::qpack::{decode_stateless, encode_stateless, HeaderField};
use refimpl::frames as rf;
use refimpl::qpack::{self as rq, Field, QErr, Repr};
use refimpl::{huffman as rh, qstr};
use serde_json::{json, Value};

fn h3_encode(fields: &[Field]) -> Result<Result<(Vec<u8>, u64), String>, String> {
    guard(|| {
        let hf: Vec<HeaderField> = fields.iter().map(|(n, v)| HeaderField::new(n.clone(), v.clone())).collect();
        let mut out = bytes::BytesMut::new();
        match encode_stateless(&mut out, hf) {
            Ok(size) => Ok((out.to_vec(), size)),
            Err(e) => Err(format!("{e:?}")),
        }
    })
}

fn h3_decode(b: &[u8]) -> Result<Result<(Vec<Field>, u64), String>, String> {
    guard(|| {
        let mut buf = Bytes::copy_from_slice(b);
        match decode_stateless(&mut buf, u64::MAX) {
            Ok(d) => Ok((d.fields.into_iter().map(|f| (f.name.to_vec(), f.value.to_vec())).collect(), d.mem_size)),
            Err(e) => Err(format!("{e:?}")),
        }
    })
}

fn fields_str(f: &[Field]) -> String {
    f.iter().map(|(n, v)| format!("{}={}", String::from_utf8_lossy(n), hex(v))).collect::<Vec<_>>().join(", ")
}

fn check_encode(fields: &[Field], acc: &mut Acc) {
    acc.evaluations += 1;
    let rep = || json!({"kind":"encode","fields":fields.iter().map(|(n,v)| json!([hex(n),hex(v)])).collect::<Vec<_>>()});
    let size = fields.len();
    match h3_encode(fields) {
        Err(p) => acc.violation("C11:encode-panic", format!("encode_stateless([{}]) panicked: {p}", fields_str(fields)), (0, size), rep),
        Ok(Err(e)) => acc.violation("C11:encode-error", format!("encode_stateless([{}]) failed: {e}", fields_str(fields)), (0, size), rep),
        Ok(Ok((bytes, reported))) => {
            match rq::decode_static_only(&bytes) {
                Ok(back) if back == fields => {}
                other => {
                    // which representation did h3 choose?
                    let kind = rq::parse_section(&bytes)
                        .ok()
                        .and_then(|s| s.reprs.first().map(|r| match r {
                            Repr::IndexedStatic(_) => "indexed-static",
                            Repr::LiteralNameRefStatic { .. } => "literal-static-name-ref",
                            Repr::LiteralName { .. } => "literal-name",
                            _ => "dynamic",
                        }))
                        .unwrap_or("unparsable");
                    acc.violation(
                        format!("C11:encoding-not-rfc:{kind}"),
                        format!("h3 encodes [{}] as {}; an independent RFC 9204 decoder reads {:?}", fields_str(fields), hex(&bytes), other.map(|f| fields_str(&f))),
                        (0, size),
                        rep,
                    );
                }
            }
            if reported != rq::section_size(fields) {
                acc.violation(
                    "C11:encode-size-wrong",
                    format!("encode_stateless reports size {reported} for [{}], RFC 9114 4.2.2 size is {}", fields_str(fields), rq::section_size(fields)),
                    (0, size),
                    rep,
                );
            }
            let mut h = Fnv::new();
            h.u64(bytes.len() as u64);
            h.u64(bytes.get(2).copied().unwrap_or(0) as u64 >> 4);
            acc.outcomes.insert(h.finish());
        }
    }
    let mut h = Fnv::new();
    for (n, v) in fields {
        h.bytes(n);
        h.bytes(&[0]);
        h.bytes(v);
        h.bytes(&[1]);
    }
    if !fields.is_empty() {
        acc.nontrivial.insert(h.finish());
    }
}

/// Precise class of an invalid section that was accepted (so that known findings name exactly
/// what they cover).
fn invalid_class(b: &[u8], e: &QErr) -> String {
    match e {
        QErr::Str(qstr::StrErr::Huffman(he)) => {
            // find the offending string: walk the representations
            let mut class = format!("huffman:{he:?}");
            if let Ok((_, _, _, mut pos)) = rq::parse_prefix(b) {
                while pos < b.len() {
                    // try to locate the first string with a Huffman fault
                    let first = b[pos];
                    let strings: Vec<(u8, usize)> = if first & 0x80 != 0 {
                        vec![]
                    } else if first & 0xc0 == 0x40 || first & 0xf0 == 0x00 {
                        // name reference + value string: skip the index integer
                        let pfx = if first & 0xc0 == 0x40 { 4 } else { 3 };
                        match refimpl::qint::decode(pfx, &b[pos..]) {
                            Ok((_, _, n)) => vec![(8, pos + n)],
                            Err(_) => vec![],
                        }
                    } else if first & 0xe0 == 0x20 {
                        // literal name (4-bit prefix incl. H) followed by the value string
                        match qstr::decode_raw(4, &b[pos..]) {
                            Ok(raw) => vec![(4, pos), (8, pos + raw.consumed)],
                            Err(_) => vec![(4, pos)],
                        }
                    } else {
                        vec![]
                    };
                    let mut advanced = false;
                    for (pfx, at) in strings {
                        if let Ok(raw) = qstr::decode_raw(pfx, &b[at..]) {
                            if raw.huffman && rh::decode(raw.data).is_err() {
                                let w = rh::walk(raw.data);
                                class = match he {
                                    rh::HuffErr::PaddingTooLong if w.leftover_all_ones => "huffman:padding-longer-than-7-bits:all-ones".into(),
                                    rh::HuffErr::PaddingTooLong => "huffman:padding-longer-than-7-bits:with-zero-bits".into(),
                                    rh::HuffErr::PaddingNotOnes => "huffman:padding-not-eos-prefix".into(),
                                    rh::HuffErr::EosInString => {
                                        let last = w.symbols.last() == Some(&rh::EOS);
                                        let n = w.symbols.iter().filter(|s| **s == rh::EOS).count();
                                        if last && n == 1 && w.leftover_all_ones && w.leftover_bits < 8 {
                                            "huffman:eos-symbol:as-terminator".into()
                                        } else {
                                            "huffman:eos-symbol:inside-string".into()
                                        }
                                    }
                                };
                                return class;
                            }
                        }
                        let _ = at;
                    }
                    match rq::parse_repr(&b[pos..]) {
                        Ok((_, n)) => {
                            pos += n;
                            advanced = true;
                        }
                        Err(_) => {}
                    }
                    if !advanced {
                        break;
                    }
                }
            }
            class
        }
        QErr::NonZeroRequiredInsertCount(_) => "required-insert-count-not-zero".into(),
        QErr::NonZeroBase => "negative-base".into(),
        QErr::DynamicReference => "dynamic-table-reference".into(),
        QErr::StaticIndexOutOfRange(_) => "static-index-out-of-range".into(),
        QErr::Truncated => "truncated".into(),
        QErr::Int(_) => "integer-overflow".into(),
        QErr::Str(s) => format!("string:{s:?}"),
        other => format!("{other:?}"),
    }
}

#[derive(Clone, Copy, PartialEq, Eq)]
enum Dense {
    InBlock,
    CoveredByBlocks,
    No,
}

fn check_decode(b: &[u8], dense: Dense, acc: &mut Acc) {
    acc.evaluations += 1;
    let rep = || json!({"kind":"decode","input":hex(b)});
    let want = rq::decode_static_only(b);
    let got = match h3_decode(b) {
        Ok(g) => g,
        Err(p) => {
            acc.violation(format!("C11:decode-panic@{}", explore::panics::short_loc(&p)), format!("decode_stateless({}) panicked: {p}", hex(b)), (0, b.len()), rep);
            return;
        }
    };
    let mut h = Fnv::new();
    match (&want, &got) {
        (Ok(wf), Ok((f, size))) => {
            h.str("ok");
            h.u64(f.len() as u64);
            if wf != f {
                acc.violation(
                    "C11:decode-wrong-fields",
                    format!("{} decodes to [{}]; RFC 9204: [{}]", hex(b), fields_str(f), fields_str(wf)),
                    (0, b.len()),
                    rep,
                );
            } else if *size != rq::section_size(wf) {
                acc.violation("C11:decode-size-wrong", format!("{}: mem_size {size}, RFC size {}", hex(b), rq::section_size(wf)), (0, b.len()), rep);
            }
        }
        (Err(e), Err(_)) => h.str(&format!("{:?}", std::mem::discriminant(e))),
        (Err(e), Ok((f, _))) => acc.violation(
            format!("C11:accepts-invalid:{}", invalid_class(b, e)),
            format!("{} accepted as [{}]; RFC 9204 (stateless decoder, capacity 0): {e:?}", hex(b), fields_str(f)),
            (0, b.len()),
            rep,
        ),
        (Ok(wf), Err(e)) => acc.violation(
            format!("C11:rejects-valid:{}", e.split('(').next().unwrap_or("")),
            format!("{} rejected with {e}; it is a valid static/literal-only section: [{}]", hex(b), fields_str(wf)),
            (0, b.len()),
            rep,
        ),
    }
    acc.outcomes.insert(h.finish());
    if b.len() > 2 {
        match dense {
            // part of a dense block enumeration: distinct by construction, counted
            Dense::InBlock => acc.nontrivial_counted += 1,
            // a structured input that the dense blocks also produce: already counted there
            Dense::CoveredByBlocks => {}
            Dense::No => {
                h.bytes(b);
                acc.nontrivial.insert(h.finish());
            }
        }
    }
}

fn static_names() -> Vec<&'static str> {
    let mut v: Vec<&str> = rq::STATIC_TABLE.iter().map(|e| e.0).collect();
    v.dedup();
    v
}

/// All single fields of the encode alphabet (pairs and triples are formed lazily from strided subsets).
fn encode_singles() -> Vec<Field> {
    let long_name: Vec<u8> = std::iter::repeat(b"a-very-long-header-name-".iter().copied()).flatten().take(130).collect();
    let mut names: Vec<Vec<u8>> = static_names().iter().map(|s| s.as_bytes().to_vec()).collect();
    names.extend([b"x".to_vec(), b"".to_vec(), long_name, b"X-Upper".to_vec(), b":unknown".to_vec()]);
    let mut singles: Vec<Field> = Vec::new();
    for n in &names {
        let mut values: Vec<Vec<u8>> = rq::STATIC_TABLE.iter().filter(|e| e.0.as_bytes() == &n[..]).map(|e| e.1.as_bytes().to_vec()).collect();
        values.extend([b"".to_vec(), b"v".to_vec(), b"GET ".to_vec(), b"get".to_vec()]);
        for len in [2usize, 126, 127, 128, 129, 254, 255, 256, 300] {
            values.push(vec![b'z'; len]);
            values.push((0..len).map(|i| (i * 11 + 5) as u8).collect());
        }
        values.sort();
        values.dedup();
        for v in values {
            singles.push((n.clone(), v));
        }
    }
    // near misses of every static name: one letter in the other case, all upper case, one byte more, one byte
    // less at either end - with the static values of the original name (a name+value or name hit in a sloppy lookup)
    for sn in static_names() {
        let b = sn.as_bytes();
        let mut variants: Vec<Vec<u8>> = Vec::new();
        if let Some(i) = b.iter().position(|c| c.is_ascii_lowercase()) {
            let mut v = b.to_vec();
            v[i] = v[i].to_ascii_uppercase();
            variants.push(v);
        }
        if let Some(i) = b.iter().rposition(|c| c.is_ascii_lowercase()) {
            let mut v = b.to_vec();
            v[i] = v[i].to_ascii_uppercase();
            variants.push(v);
        }
        variants.push(b.to_ascii_uppercase());
        let mut v = b.to_vec();
        v.push(b'x');
        variants.push(v);
        variants.push(b[..b.len() - 1].to_vec());
        variants.push(b[1..].to_vec());
        let mut v = b.to_vec();
        v.insert(0, b':');
        variants.push(v);
        variants.sort();
        variants.dedup();
        let mut values: Vec<Vec<u8>> = rq::STATIC_TABLE.iter().filter(|e| e.0 == sn).map(|e| e.1.as_bytes().to_vec()).collect();
        values.push(b"v".to_vec());
        // and the static values in the other case under the exact name
        for e in rq::STATIC_TABLE.iter().filter(|e| e.0 == sn && !e.1.is_empty()) {
            let up = e.1.as_bytes().to_ascii_uppercase();
            if up != e.1.as_bytes() {
                singles.push((b.to_vec(), up));
            }
            let low = e.1.as_bytes().to_ascii_lowercase();
            if low != e.1.as_bytes() {
                singles.push((b.to_vec(), low));
            }
        }
        values.sort();
        values.dedup();
        for n in &variants {
            if static_names().iter().any(|s| s.as_bytes() == &n[..]) {
                continue;
            }
            for v in &values {
                singles.push((n.clone(), v.clone()));
            }
        }
    }
    // every single byte value, for a static name, a non-static name and the empty name
    for n in [&b":path"[..], b"x", b"", b"cookie"] {
        for b in 0..=255u8 {
            singles.push((n.to_vec(), vec![b]));
            singles.push((n.to_vec(), vec![b, b'/', b]));
        }
    }
    // every byte value inside a literal name
    for b in 0..=255u8 {
        singles.push((vec![b'n', b], b"v".to_vec()));
    }
    singles
}

/// Connection level: an undecodable field section - as message head and as trailers, both roles, whole / one byte
/// per read / every execution with <= 2 delivery deviations - closes the connection with
/// QPACK_DECOMPRESSION_FAILED (the seam of C02's second part, other signature prefix).
fn conn_level(args: &Args, total: &mut Acc) {
    use crate::c02_conn::{execute, judge_p, Case, Mode, Where};
    const QPACK_DECOMPRESSION_FAILED: u64 = 0x200;
    let bad: [(&[u8], &'static str); 7] = [
        (&[0x02, 0x00, 0x80], "dynamic-reference"),
        (&[0x00, 0x00, 0x80], "dynamic-reference-ric0"),
        (&[0x00, 0x00, 0x10], "post-base-reference"),
        (&[0x00, 0x00, 0xff, 0x24], "static-index-out-of-range"),
        (&[0x00, 0x00, 0x51, 0x05, 0x2f, 0x61], "truncated-string"),
        (&[0x00, 0x00, 0xff, 0x80], "truncated-integer"),
        (&[0x00], "truncated-prefix"),
    ];
    let mut cases = Vec::new();
    for server in [true, false] {
        for (sec, why) in bad {
            for with_head in [false, true] {
                for mode in [Mode::Whole, Mode::PerByte, Mode::Explore] {
                    // with_head: a valid head and a DATA frame first, the bad section as trailers
                    let mut bytes = Vec::new();
                    if with_head {
                        bytes.extend(rf::frame(rf::DATA, b"xy"));
                    }
                    bytes.extend(rf::frame(rf::HEADERS, sec));
                    cases.push(Case { server, place: Where::Request, bytes, fin: true, with_head, after_trailers: false, mode, accept: vec![QPACK_DECOMPRESSION_FAILED], why });
                }
            }
        }
    }
    let seed = args.seed;
    let accs = explore::par::run(&cases, Acc::new, |_, case, acc| {
        let caps = explore::dfs::Caps { max_executions: 60_000, ..Default::default() };
        let mut viol = explore::report::ViolSet::new();
        let b = if case.mode == Mode::Explore { 2 } else { 0 };
        let st = explore::dfs::explore(
            b,
            &caps,
            || execute(case, seed),
            |e, o| {
                for (sig, msg) in judge_p("C11:conn", case, &o) {
                    viol.add(sig, msg, (e.cost, case.bytes.len()), &e.choices);
                }
            },
        );
        acc.evaluations += st.executions;
        acc.dfs.merge(&st);
        viol.drain_into(acc, |choices| {
            json!({"kind":"conn","seam":2,"server":case.server,"place":"request","bytes":hex(&case.bytes),"fin":case.fin,"with_head":case.with_head,
                "mode": match case.mode { Mode::Whole => "whole", Mode::PerByte => "per-byte", Mode::Explore => "explore", Mode::Late(_) => "late" },
                "accept": case.accept, "why": case.why, "choices": choices, "seed": seed})
        });
    });
    for a in accs {
        total.merge(a);
    }
    total.count("connection_level_cases", cases.len() as u64);
}

/// Abort screening: the structured inputs are first decoded in child processes, in batches; a batch whose child
/// is killed by a signal is bisected down to the input that kills it. That input is reported
/// (`C11:decode-process-aborted`) and taken out of the set that is then checked in-process, so that a subject
/// which aborts (an allocation sized by a peer-announced length) cannot take the check down with it.
fn screen_aborts(inputs: &mut Vec<Vec<u8>>, acc: &mut Acc) {
    use crate::common::{run_isolated, Isolated};
    fn kills(batch: &[Vec<u8>]) -> Option<String> {
        let rep = json!({"kind":"decode-screen","inputs": batch.iter().map(|b| hex(b)).collect::<Vec<_>>()});
        match run_isolated("C11", &rep) {
            Isolated::Aborted(s) => Some(s),
            Isolated::TimedOut => Some("no return within 120 s".into()),
            Isolated::Machinery(e) => explore::machinery_failure(&format!("abort screening failed to run: {e}")),
            _ => None,
        }
    }
    fn bisect(batch: &[Vec<u8>], how: &str, out: &mut Vec<(Vec<u8>, String)>) {
        if batch.len() == 1 {
            out.push((batch[0].clone(), how.to_string()));
            return;
        }
        let (a, b) = batch.split_at(batch.len() / 2);
        for half in [a, b] {
            if let Some(h) = kills(half) {
                bisect(half, &h, out);
            }
        }
    }
    let batches: Vec<&[Vec<u8>]> = inputs.chunks(4096).collect();
    let found: Vec<Vec<(Vec<u8>, String)>> = explore::par::run(&batches, Vec::new, |_, batch, out: &mut Vec<(Vec<u8>, String)>| {
        if let Some(h) = kills(batch) {
            bisect(batch, &h, out);
        }
    });
    let killers: Vec<(Vec<u8>, String)> = found.into_iter().flatten().collect();
    for (b, how) in &killers {
        acc.violation(
            "C11:decode-process-aborted".to_string(),
            format!("decode_stateless({}) killed the process ({how}): an allocation sized by a length the peer announced?", hex(b)),
            (0, b.len()),
            || json!({"kind":"decode","input":hex(b)}),
        );
    }
    if !killers.is_empty() {
        let set: std::collections::HashSet<&Vec<u8>> = killers.iter().map(|k| &k.0).collect();
        let kept: Vec<Vec<u8>> = inputs.iter().filter(|i| !set.contains(i)).cloned().collect();
        *inputs = kept;
    }
    acc.count("abort_screening_batches", batches_len(inputs.len()));
}

fn batches_len(n: usize) -> u64 {
    ((n + 4095) / 4096) as u64
}

fn structured_decode_inputs(thorough: bool) -> Vec<Vec<u8>> {
    let mut v: Vec<Vec<u8>> = Vec::new();
    let idxs: Vec<u64> = (0..=101).chain([126, 127, 128, 255, 256, 16383, 16384, (1 << 30), (1u64 << 62) - 1]).collect();
    let values: Vec<Vec<u8>> = {
        let mut vs = vec![vec![], b"v".to_vec(), vec![0x00, 0xff]];
        for len in [126usize, 127, 128, 129] {
            vs.push(vec![b'q'; len]);
        }
        vs
    };
    let mut reprs: Vec<Repr> = Vec::new();
    for &i in &idxs {
        reprs.push(Repr::IndexedStatic(i));
        reprs.push(Repr::IndexedDynamic(i));
        reprs.push(Repr::IndexedPostBase(i));
        for never in [false, true] {
            for val in &values {
                if i > 101 && val.len() > 1 {
                    continue;
                }
                reprs.push(Repr::LiteralNameRefStatic { index: i, never_indexed: never, value: val.clone() });
                if val.len() <= 1 {
                    reprs.push(Repr::LiteralNameRefDynamic { index: i, never_indexed: never, value: val.clone() });
                    reprs.push(Repr::LiteralPostBaseNameRef { index: i, never_indexed: never, value: val.clone() });
                }
            }
        }
    }
    for never in [false, true] {
        for name in [&b""[..], b"n", b"name123", b"Upper", &[0xffu8, 0x00][..], &[b'k'; 8][..], &[b'k'; 200][..]] {
            for val in &values {
                reprs.push(Repr::LiteralName { never_indexed: never, name: name.to_vec(), value: val.clone() });
            }
        }
    }
    for r in &reprs {
        for huff in [false, true] {
            let enc = rq::encode_repr(r, huff);
            for (ric, sign, delta) in [(0u64, false, 0u64), (1, false, 0), (0, true, 0), (0, false, 5), (2, true, 1)] {
                if (ric, sign, delta) != (0, false, 0) && enc.len() > 6 {
                    continue;
                }
                let mut s = rq::encode_section_raw(ric, sign, delta, &[], false);
                s.extend(&enc);
                // every truncation (dense near both ends)
                for cut in 0..s.len() {
                    if cut < 8 || cut + 4 > s.len() || thorough {
                        v.push(s[..cut].to_vec());
                    }
                }
                // followed by a second field line
                let mut t = s.clone();
                t.push(0xd1);
                v.push(t);
                v.push(s);
            }
        }
    }
    // over-long integer continuations in every integer position
    for first in [0xffu8, 0x1f, 0x5f, 0x4f, 0x0f, 0x07, 0x27, 0x2f] {
        for k in 1..=12usize {
            for fill in [0x80u8, 0xff] {
                for term in [0x00u8, 0x01, 0x7f] {
                    let mut s = vec![0x00, 0x00, first];
                    s.extend(std::iter::repeat(fill).take(k));
                    s.push(term);
                    s.extend([0x01, b'v', 0x01, b'w']);
                    v.push(s);
                }
            }
        }
    }
    // integers of 2^64 and above whose low bits are exactly the prefix maximum (a decoder that lets the top
    // group wrap reads 2^N - 1): nine to eleven continuation bytes, last group with bit 0 clear, in every integer
    // position, followed by exactly what the wrapped value would require
    for k in 8..=10usize {
        for term in [0x02u8, 0x04, 0x40, 0x7e] {
            let cont = |first: u8| {
                let mut c = vec![first];
                c.extend(std::iter::repeat(0x80u8).take(k));
                c.push(term);
                c
            };
            let mut cases: Vec<Vec<u8>> = Vec::new();
            // indexed static, wrapped index 63
            cases.push(cont(0xff));
            let mut t = cont(0xff);
            t.push(0xd1);
            cases.push(t);
            // literal with static name reference, wrapped index 15, value "v"
            let mut t = cont(0x5f);
            t.extend([0x01, b'v']);
            cases.push(t);
            // literal with literal name, wrapped name length 7
            let mut t = cont(0x27);
            t.extend(*b"nnnnnnn");
            t.extend([0x01, b'v']);
            cases.push(t);
            // value length, wrapped 127 (plain) after a static name reference and after a literal name
            let mut t = vec![0x51];
            t.extend(cont(0x7f));
            t.extend(std::iter::repeat(b'v').take(127));
            cases.push(t);
            let mut t = vec![0x21, b'n'];
            t.extend(cont(0x7f));
            t.extend(std::iter::repeat(b'v').take(127));
            cases.push(t);
            for c in cases {
                let mut sct = vec![0x00, 0x00];
                sct.extend(c);
                v.push(sct);
            }
        }
    }
    // prefix integers: over-long and large
    for k in 0..=11usize {
        let mut s = vec![0xff];
        s.extend(std::iter::repeat(0x80).take(k));
        s.push(0x00);
        s.push(0x00);
        s.push(0xd1);
        v.push(s);
        let mut s = vec![0x00, 0x7f];
        s.extend(std::iter::repeat(0xff).take(k));
        s.push(0x01);
        s.push(0xd1);
        v.push(s);
    }
    v.sort();
    v.dedup();
    v
}

pub fn run(args: &Args) -> i32 {
    let thorough = args.tier == Tier::Thorough;
    if let Err(e) = rh::self_check() {
        explore::machinery_failure(&format!("reference Huffman table self-check failed: {e}"));
    }
    let mut rep = Report::new("C11", args.tier, args.seed, "exploration");
    rep.exhaustive = true;
    rep.rule = format!(
        "encode: every single field over (every distinct static-table name, 'x', '', a 130-byte name, 'X-Upper', ':unknown'; plus 7 near-miss variants of every static name: one letter in the other case, upper case, one byte more / less, and static values in the other case) x (the static values of that name, '', 'v', near-miss values, fillers of length 2/126..129/254..256/300, every single byte value for 4 names, every byte value inside a literal name), all ordered pairs over a reduced set{}; decode: ALL byte strings of <= {} bytes after the prefix 00 00 and of <= {} bytes after the prefixes 00 7f 00 / 01 00 / 00 80 / 00 81; plus the structured set: every representation x index in 0..101 and at every integer boundary x N bit x H bit x value lengths around the 7-bit prefix x 5 section prefixes x every truncation x a following field line, over-long integer continuations in every integer position, integers >= 2^64 with small low bits in every integer position. Connection level: 7 undecodable sections as message head and as trailers, both roles, whole / per byte / <= 2 delivery deviations, must close the connection with QPACK_DECOMPRESSION_FAILED. Oracle refimpl::qpack. Non-trivial = sections longer than the 2-byte prefix.",
        if thorough { ", all triples over a smaller set" } else { "" },
        if thorough { 4 } else { 3 },
        if thorough { 3 } else { 2 },
    );
    rep.assumptions = vec![
        "refimpl::qpack: static table typed in from RFC 9204 Appendix A, self-tested on the RFC's Appendix B examples; Huffman table from octets 0.3.7".into(),
        "a stateless decoder (dynamic table capacity 0) must refuse Required Insert Count != 0 and a negative Base; Sign = 0 with Delta Base != 0 is legal (RFC 9204 4.5.1.2)".into(),
    ];
    rep.bound_note = "exhaustive over the stated finite sets".into();

    enum Job {
        /// single fields singles[a..b]
        EncSingles(usize, usize),
        /// all pairs (red[i], red[j]) for i in a..b, every j
        EncPairs(usize, usize),
        /// all triples (red3[i], *, *) for i in a..b
        EncTriples(usize, usize),
        Dec(Vec<Vec<u8>>),
        /// all strings prefix + [a, b, *] / [a, *, *] blocks
        DecBlock { prefix: Vec<u8>, lead: Vec<u8>, free: usize },
    }
    let mut jobs: Vec<Job> = Vec::new();
    let singles = encode_singles();
    let red: Vec<Field> = singles.iter().step_by(if thorough { 7 } else { 23 }).cloned().collect();
    let red3: Vec<Field> = if thorough { singles.iter().step_by(61).cloned().collect() } else { Vec::new() };
    for a in (0..singles.len()).step_by(2048) {
        jobs.push(Job::EncSingles(a, (a + 2048).min(singles.len())));
    }
    for a in (0..red.len()).step_by(8) {
        jobs.push(Job::EncPairs(a, (a + 8).min(red.len())));
    }
    for a in 0..red3.len() {
        jobs.push(Job::EncTriples(a, a + 1));
    }
    let mut structured = structured_decode_inputs(thorough);
    let mut screen_acc = Acc::new();
    screen_aborts(&mut structured, &mut screen_acc);
    for c in structured.chunks(4096) {
        jobs.push(Job::Dec(c.to_vec()));
    }
    let prefixes: Vec<Vec<u8>> = vec![vec![0x00, 0x00], vec![0x00, 0x7f, 0x00], vec![0x01, 0x00], vec![0x00, 0x80], vec![0x00, 0x81]];
    let maxlen_for = move |pi: usize| -> usize {
        if pi == 0 {
            if thorough {
                4
            } else {
                3
            }
        } else if thorough {
            3
        } else {
            2
        }
    };
    for (pi, p) in prefixes.iter().enumerate() {
        let maxlen = maxlen_for(pi);
        // lengths 0..maxlen-? : split the space by the first byte(s) so that jobs are even
        jobs.push(Job::Dec(vec![p.clone()]));
        for len in 1..=maxlen {
            if len <= 2 {
                jobs.push(Job::DecBlock { prefix: p.clone(), lead: vec![], free: len });
            } else {
                for a in 0..=255u8 {
                    if len == 3 {
                        jobs.push(Job::DecBlock { prefix: p.clone(), lead: vec![a], free: 2 });
                    } else {
                        for b in (0..=255u8).step_by(1) {
                            jobs.push(Job::DecBlock { prefix: p.clone(), lead: vec![a, b], free: 2 });
                        }
                    }
                }
            }
        }
    }
    let accs = explore::par::run(&jobs, Acc::new, |_, job, acc| match job {
        Job::EncSingles(a, b) => {
            if *a == 0 {
                check_encode(&Vec::new(), acc);
            }
            for f in &singles[*a..*b] {
                check_encode(&vec![f.clone()], acc);
            }
        }
        Job::EncPairs(a, b) => {
            for x in &red[*a..*b] {
                for y in &red {
                    check_encode(&vec![x.clone(), y.clone()], acc);
                }
            }
        }
        Job::EncTriples(a, b) => {
            for x in &red3[*a..*b] {
                for y in &red3 {
                    for z in &red3 {
                        check_encode(&vec![x.clone(), y.clone(), z.clone()], acc);
                    }
                }
            }
        }
        Job::Dec(ins) => {
            for i in ins {
                // the dense blocks enumerate every string of <= maxlen bytes after each prefix
                let covered = prefixes.iter().enumerate().any(|(pi, p)| i.starts_with(p) && i.len() - p.len() <= maxlen_for(pi));
                check_decode(i, if covered { Dense::CoveredByBlocks } else { Dense::No }, acc);
            }
        }
        Job::DecBlock { prefix, lead, free } => {
            let mut s = prefix.clone();
            s.extend(lead);
            let base = s.len();
            s.extend(std::iter::repeat(0).take(*free));
            let n = 1usize << (8 * free);
            for x in 0..n {
                for k in 0..*free {
                    s[base + k] = (x >> (8 * (free - 1 - k))) as u8;
                }
                check_decode(&s, Dense::InBlock, acc);
            }
        }
    });
    let mut total = Acc::new();
    for a in accs {
        total.merge(a);
    }
    total.merge(screen_acc);
    conn_level(args, &mut total);
    // sections with a string literal announcing 2^31 ... 2^64-1 bytes, two bytes present: child processes
    {
        let mut inputs: Vec<Vec<u8>> = Vec::new();
        for l in [1u64 << 31, 1 << 32, 1 << 36, 1 << 40, 1 << 47, 1 << 61, 1 << 62, 1 << 63, u64::MAX] {
            for huffman in [0u8, 1] {
                let mut a = vec![0x00, 0x00, 0x51];
                a.extend(refimpl::qint::encode(7, huffman, l));
                a.extend_from_slice(b"xy");
                inputs.push(a);
                let mut b = vec![0x00, 0x00];
                b.extend(refimpl::qint::encode(3, 0x4 | huffman, l));
                b.extend_from_slice(b"xy");
                inputs.push(b);
            }
        }
        let iso = explore::par::run(&inputs, Acc::new, |_, b, acc| {
            acc.evaluations += 1;
            let rep = || json!({"kind":"decode","input":hex(b)});
            match crate::common::run_isolated("C11", &rep()) {
                crate::common::Isolated::NoViolation => {}
                crate::common::Isolated::Violations(v) => {
                    for (sig, msg) in v {
                        acc.violation(sig, msg, (0, b.len()), rep);
                    }
                }
                crate::common::Isolated::Aborted(sigl) => acc.violation(
                    "C11:decode-process-aborted".to_string(),
                    format!("decode_stateless({}) killed the process ({sigl}): an allocation sized by the announced length?", hex(b)),
                    (0, b.len()),
                    rep,
                ),
                crate::common::Isolated::TimedOut => acc.violation("C11:decode-does-not-return".to_string(), format!("decode_stateless({}) did not return within 120 s", hex(b)), (0, b.len()), rep),
                crate::common::Isolated::Machinery(e) => explore::machinery_failure(&format!("isolated run failed: {e}")),
            }
        });
        for a in iso {
            total.merge(a);
        }
        total.count("isolated_huge_announced_length_inputs", inputs.len() as u64);
    }
    total.sample(|| json!({"decode":"0100d1","meaning":"Required Insert Count 1, then indexed static 17","reference":"reject: a stateless decoder has no dynamic table"}));
    total.sample(|| json!({"decode":"0000510b2f696e6465782e68746d6c","reference":":path=/index.html (RFC 9204 B.1)"}));
    total.sample(|| json!({"encode":[[":method","GET"],["x",""]],"reference":"decodes back to the same list, in order"}));
    rep.finish(total)
}

pub fn replay(r: &Value) -> i32 {
    let mut acc = Acc::new();
    match r["kind"].as_str() {
        Some("decode") => {
            let b = explore::unhex(r["input"].as_str().unwrap());
            println!("reference: {:?}", rq::decode_static_only(&b).map(|f| fields_str(&f)));
            println!("h3       : {:?}", h3_decode(&b));
            check_decode(&b, Dense::No, &mut acc);
        }
        Some("encode") => {
            let fields: Vec<Field> = r["fields"].as_array().unwrap().iter().map(|p| (explore::unhex(p[0].as_str().unwrap()), explore::unhex(p[1].as_str().unwrap()))).collect();
            println!("h3 encodes to: {:?}", h3_encode(&fields).map(|r| r.map(|(b, s)| (hex(&b), s))));
            check_encode(&fields, &mut acc);
        }
        Some("conn") => return crate::c02_conn::replay_p("C11:conn", r),
        Some("decode-screen") => {
            // child side of the abort screening: decode every input, report nothing (the parent looks at how
            // this process ends)
            for i in r["inputs"].as_array().unwrap() {
                let b = explore::unhex(i.as_str().unwrap());
                let _ = h3_decode(&b);
            }
            println!("observed: no violation");
            return 0;
        }
        _ => return 2,
    }
    for (sig, v) in &acc.violations {
        println!("observed: {sig}: {}", v.what);
    }
    if acc.violations.is_empty() {
        println!("observed: no violation");
        0
    } else {
        1
    }
}
