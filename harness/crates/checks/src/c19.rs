//! C19 — WebTransport streams stay attached to their session, bytes intact.
//!
//! Real `h3_webtransport::server::WebTransportSession` over simnet against a scripted client.
//! CONNECT request on stream ids with 1-, 2-, 4- and 8-byte varint encodings, accepted first or
//! after ordinary requests; client-opened uni and bidi WebTransport streams whose header + payload
//! are delivered under every single and double chunk cut (and delayed delivery), stream left open
//! or finished, read through poll_data or AsyncRead; server-opened streams under one-byte write
//! acceptance; extension enabled or not.

use crate::scen::*;
use crate::Args;
use bytes::{Buf, Bytes};
use explore::dfs::{self, Caps};
use explore::report::{Acc, Report, Tier, ViolSet};
use explore::{hex, Fnv};
use futures_util::io::AsyncReadExt;
use h3::quic::{RecvStream as _, SendStream as _, SendStreamUnframed as _, StreamId};
use h3_webtransport::server::{AcceptedBi, WebTransportSession};
use refimpl::frames as rf;
use refimpl::qpack as rq;
use refimpl::settings as rs;
use refimpl::varint;
use serde_json::{json, Value};
use simnet::exec::yield_now;
use simnet::{Exec, Net, NetCfg, Policy, SimConn, CLIENT, SERVER};

#[derive(Clone, Copy, Debug, PartialEq, Eq)]
pub enum Kind {
    /// client-opened unidirectional stream, read by the server
    InUni,
    /// client-opened bidirectional stream, read by the server
    InBidi,
    /// server opens a unidirectional stream and writes the payload
    OutUni,
    OutBidi,
}

#[derive(Clone, Debug)]
pub struct Case {
    pub connect_id: u64,
    /// ordinary requests served before the CONNECT (on streams 0, 4)
    pub prior: usize,
    pub kind: Kind,
    pub payload_len: usize,
    pub fin: bool,
    pub async_read: bool,
    pub enabled: bool,
    /// varint form used by the client for the session id in the stream header (None = shortest)
    pub sid_form: Option<usize>,
    /// incoming bidi stream: the application splits it into halves before the first read (as the
    /// webtransport example server does) and reads from the receive half
    pub split: bool,
}

#[derive(Debug, Clone, Default, PartialEq, Eq)]
pub struct Outcome {
    pub setup: String,
    pub session_id: Option<u64>,
    /// session id attached to the incoming stream
    pub stream_session: Option<u64>,
    pub received: Vec<u8>,
    pub read_end: String,
    pub wire_out: Vec<u8>,
    pub open_result: String,
    pub close_calls: Vec<u64>,
    pub panics: Vec<(String, String)>,
    pub horizon: bool,
    pub fps: Vec<u64>,
}

fn payload(n: usize) -> Vec<u8> {
    (0..n).map(|i| (i as u8).wrapping_mul(29).wrapping_add(0x41)).collect()
}

fn sid_of(s: h3_webtransport::SessionId) -> u64 {
    StreamId::from(s).into_inner()
}

const HORIZON: usize = 20_000;

pub fn execute(case: &Case, seed: u64, read: Policy, write: Policy) -> Outcome {
    fastrand::seed(seed);
    // the WebTransport stream under test: client-opened uni = 6 (after control 2), bidi = connect_id + 4
    let target_in: u64 = match case.kind {
        Kind::InUni => 6,
        _ => case.connect_id + 4,
    };
    let mut cfg = NetCfg::default();
    cfg.read = read;
    cfg.write = write;
    if read == Policy::Choose {
        cfg.allow_delay = true;
        cfg.focus = Some(vec![target_in]);
        cfg.dense_cut_limit = 64;
    }
    let net = Net::new(cfg);
    let mut ex = Exec::new();
    let out = shared(Outcome::default());
    {
        let (net2, out2, case2) = (net.clone(), out.clone(), case.clone());
        ex.spawn("server", async move {
            let mut b = h3::server::builder();
            b.send_grease(false).enable_webtransport(case2.enabled).enable_extended_connect(true).enable_datagram(true).max_webtransport_sessions(4);
            let mut conn: SrvConn = match b.build(SimConn::new(&net2, SERVER)).await {
                Ok(c) => c,
                Err(e) => {
                    out2.borrow_mut().setup = format!("build:{}", conn_class(&e));
                    return;
                }
            };
            // ordinary requests first
            for _ in 0..case2.prior {
                match conn.accept().await {
                    Ok(Some(r)) => {
                        let res = async {
                            let (_q, mut s) = r.resolve_request().await?;
                            s.send_response(http::Response::builder().status(200).body(()).unwrap()).await?;
                            s.finish().await
                        }
                        .await;
                        if let Err(e) = res {
                            out2.borrow_mut().setup = format!("prior:{}", stream_class(&e));
                            return;
                        }
                    }
                    other => {
                        out2.borrow_mut().setup = format!("prior-accept:{:?}", other.map(|o| o.is_some()).map_err(|e| conn_class(&e)));
                        return;
                    }
                }
            }
            let resolver = match conn.accept().await {
                Ok(Some(r)) => r,
                other => {
                    out2.borrow_mut().setup = format!("connect-accept:{:?}", other.map(|o| o.is_some()).map_err(|e| conn_class(&e)));
                    return;
                }
            };
            let (req, stream) = match resolver.resolve_request().await {
                Ok(x) => x,
                Err(e) => {
                    out2.borrow_mut().setup = format!("connect-resolve:{}", stream_class(&e));
                    return;
                }
            };
            let session: WebTransportSession<SimConn, Bytes> = match WebTransportSession::accept(req, stream, conn).await {
                Ok(s) => s,
                Err(e) => {
                    out2.borrow_mut().setup = format!("session-accept:{}", stream_class(&e));
                    return;
                }
            };
            {
                let mut o = out2.borrow_mut();
                o.setup = "ok".into();
                o.session_id = Some(sid_of(session.session_id()));
            }
            match case2.kind {
                Kind::InUni => match session.accept_uni().await {
                    Ok(Some((sid, mut s))) => {
                        out2.borrow_mut().stream_session = Some(sid_of(sid));
                        if case2.async_read {
                            let mut buf = [0u8; 7];
                            loop {
                                match s.read(&mut buf).await {
                                    Ok(0) => {
                                        out2.borrow_mut().read_end = "eof".into();
                                        break;
                                    }
                                    Ok(n) => out2.borrow_mut().received.extend_from_slice(&buf[..n]),
                                    Err(e) => {
                                        out2.borrow_mut().read_end = format!("err:{e}");
                                        break;
                                    }
                                }
                            }
                        } else {
                            loop {
                                match std::future::poll_fn(|cx| s.poll_data(cx)).await {
                                    Ok(Some(mut b)) => {
                                        let v = b.copy_to_bytes(b.remaining());
                                        out2.borrow_mut().received.extend_from_slice(&v);
                                    }
                                    Ok(None) => {
                                        out2.borrow_mut().read_end = "eof".into();
                                        break;
                                    }
                                    Err(e) => {
                                        out2.borrow_mut().read_end = format!("err:{e}");
                                        break;
                                    }
                                }
                            }
                        }
                    }
                    Ok(None) => out2.borrow_mut().read_end = "accept-none".into(),
                    Err(e) => out2.borrow_mut().read_end = format!("accept-err:{}", conn_class(&e)),
                },
                Kind::InBidi => match session.accept_bi().await {
                    Ok(Some(AcceptedBi::BidiStream(sid, s))) if case2.split => {
                        out2.borrow_mut().stream_session = Some(sid_of(sid));
                        let (tx, mut s) = h3::quic::BidiStream::split(s);
                        if case2.async_read {
                            let mut buf = [0u8; 7];
                            loop {
                                match s.read(&mut buf).await {
                                    Ok(0) => {
                                        out2.borrow_mut().read_end = "eof".into();
                                        break;
                                    }
                                    Ok(n) => out2.borrow_mut().received.extend_from_slice(&buf[..n]),
                                    Err(e) => {
                                        out2.borrow_mut().read_end = format!("err:{e}");
                                        break;
                                    }
                                }
                            }
                        } else {
                            loop {
                                match std::future::poll_fn(|cx| s.poll_data(cx)).await {
                                    Ok(Some(mut b)) => {
                                        let v = b.copy_to_bytes(b.remaining());
                                        out2.borrow_mut().received.extend_from_slice(&v);
                                    }
                                    Ok(None) => {
                                        out2.borrow_mut().read_end = "eof".into();
                                        break;
                                    }
                                    Err(e) => {
                                        out2.borrow_mut().read_end = format!("err:{e}");
                                        break;
                                    }
                                }
                            }
                        }
                        std::future::pending::<()>().await;
                        drop(tx);
                    }
                    Ok(Some(AcceptedBi::BidiStream(sid, mut s))) => {
                        out2.borrow_mut().stream_session = Some(sid_of(sid));
                        if case2.async_read {
                            let mut buf = [0u8; 7];
                            loop {
                                match s.read(&mut buf).await {
                                    Ok(0) => {
                                        out2.borrow_mut().read_end = "eof".into();
                                        break;
                                    }
                                    Ok(n) => out2.borrow_mut().received.extend_from_slice(&buf[..n]),
                                    Err(e) => {
                                        out2.borrow_mut().read_end = format!("err:{e}");
                                        break;
                                    }
                                }
                            }
                        } else {
                            loop {
                                match std::future::poll_fn(|cx| s.poll_data(cx)).await {
                                    Ok(Some(mut b)) => {
                                        let v = b.copy_to_bytes(b.remaining());
                                        out2.borrow_mut().received.extend_from_slice(&v);
                                    }
                                    Ok(None) => {
                                        out2.borrow_mut().read_end = "eof".into();
                                        break;
                                    }
                                    Err(e) => {
                                        out2.borrow_mut().read_end = format!("err:{e}");
                                        break;
                                    }
                                }
                            }
                        }
                    }
                    Ok(Some(AcceptedBi::Request(..))) => out2.borrow_mut().read_end = "accepted-as-request".into(),
                    Ok(None) => out2.borrow_mut().read_end = "accept-none".into(),
                    Err(e) => out2.borrow_mut().read_end = format!("accept-err:{}", stream_class(&e)),
                },
                Kind::OutUni => {
                    let sid = session.session_id();
                    match session.open_uni(sid).await {
                        Ok(mut s) => {
                            let id = s.send_id().into_inner();
                            let mut p = Bytes::from(payload(case2.payload_len));
                            let r = async {
                                while p.has_remaining() {
                                    std::future::poll_fn(|cx| s.poll_send(cx, &mut p)).await?;
                                }
                                std::future::poll_fn(|cx| s.poll_finish(cx)).await
                            }
                            .await;
                            let mut o = out2.borrow_mut();
                            o.open_result = match r {
                                Ok(()) => format!("ok:{id}"),
                                Err(e) => format!("err:{e}"),
                            };
                        }
                        Err(e) => out2.borrow_mut().open_result = format!("open-err:{}", stream_class(&e)),
                    }
                }
                Kind::OutBidi => {
                    let sid = session.session_id();
                    match session.open_bi(sid).await {
                        Ok(mut s) => {
                            let id = s.send_id().into_inner();
                            let mut p = Bytes::from(payload(case2.payload_len));
                            let r = async {
                                while p.has_remaining() {
                                    std::future::poll_fn(|cx| s.poll_send(cx, &mut p)).await?;
                                }
                                std::future::poll_fn(|cx| s.poll_finish(cx)).await
                            }
                            .await;
                            let mut o = out2.borrow_mut();
                            o.open_result = match r {
                                Ok(()) => format!("ok:{id}"),
                                Err(e) => format!("err:{e}"),
                            };
                        }
                        Err(e) => out2.borrow_mut().open_result = format!("open-err:{}", stream_class(&e)),
                    }
                }
            }
            std::future::pending::<()>().await;
            drop(session);
        });
    }
    {
        let (net, case) = (net.clone(), case.clone());
        ex.spawn("script", async move {
            net.raw_open(CLIENT_CTRL);
            let settings = rs::encode(&[(rs::ENABLE_WEBTRANSPORT, 1), (rs::H3_DATAGRAM, 1), (rs::ENABLE_CONNECT_PROTOCOL, 1)]);
            net.raw_write(CLIENT, CLIENT_CTRL, &control_preamble(&settings));
            for _ in 0..4 {
                yield_now().await;
            }
            for i in 0..case.prior {
                let id = i as u64 * 4;
                net.raw_open(id);
                net.raw_write(CLIENT, id, &rf::frame(rf::HEADERS, REQ_SECTION));
                net.raw_fin(CLIENT, id);
                yield_now().await;
            }
            let f = |n: &str, v: &[u8]| (n.as_bytes().to_vec(), v.to_vec());
            let connect = rq::encode_static_section(&[f(":method", b"CONNECT"), f(":scheme", b"https"), f(":authority", b"a"), f(":path", b"/wt"), f(":protocol", b"webtransport")], false);
            net.raw_open(case.connect_id);
            net.raw_write(CLIENT, case.connect_id, &rf::frame(rf::HEADERS, &connect));
            for _ in 0..4 {
                yield_now().await;
            }
            let sid_bytes = match case.sid_form {
                Some(n) => varint::encode_len(case.connect_id, n).unwrap_or_else(|| varint::encode(case.connect_id).unwrap()),
                None => varint::encode(case.connect_id).unwrap(),
            };
            match case.kind {
                Kind::InUni | Kind::InBidi => {
                    let mut b = if case.kind == Kind::InUni { vec![0x40, 0x54] } else { vec![0x40, 0x41] };
                    b.extend(&sid_bytes);
                    let hl = b.len();
                    b.extend(payload(case.payload_len));
                    net.raw_open(target_in);
                    net.raw_write(CLIENT, target_in, &b);
                    net.raw_mark(CLIENT, target_in, b.len() - hl);
                    if case.fin {
                        yield_now().await;
                        net.raw_fin(CLIENT, target_in);
                    }
                }
                _ => {}
            }
        });
    }
    let mut fps = Vec::new();
    let q = {
        let (net, out) = (net.clone(), out.clone());
        ex.run(HORIZON, |_| {
            let mut h = Fnv::new();
            h.u64(net.fingerprint_light());
            h.u64(out.borrow().received.len() as u64);
            fps.push(h.finish());
        })
    };
    let mut o = out.borrow().clone();
    if let Some(id) = o.open_result.strip_prefix("ok:").and_then(|s| s.parse::<u64>().ok()) {
        o.wire_out = net.wire(SERVER, id);
    }
    o.close_calls = net.close_calls(SERVER).iter().map(|c| c.0).collect();
    o.panics = q.panics;
    o.horizon = q.horizon_hit;
    o.fps = fps;
    o
}

pub fn judge(case: &Case, o: &Outcome) -> Vec<(String, String)> {
    let ctx = format!("{case:?}");
    let form = varint::shortest_len(case.connect_id).unwrap();
    let mut out = Vec::new();
    for (t, p) in &o.panics {
        out.push((format!("C19:panic@{}", explore::panics::short_loc(p)), format!("{ctx}: task {t} panicked: {p}")));
    }
    if o.horizon {
        out.push(("C19:livelock".into(), ctx.clone()));
        return out;
    }
    if !o.close_calls.is_empty() {
        out.push((format!("C19:connection-closed:{:#x}", o.close_calls[0]), format!("{ctx}: close calls {:x?}; {o:?}", o.close_calls)));
        return out;
    }
    if o.setup != "ok" {
        out.push((format!("C19:session-setup-failed:{}", o.setup.split(':').next().unwrap_or("")), format!("{ctx}: setup result {:?}", o.setup)));
        return out;
    }
    if o.session_id != Some(case.connect_id) {
        out.push((
            format!("C19:session-id-is-not-the-connect-stream-id:varint-form={form}"),
            format!("{ctx}: CONNECT arrived on stream {}, session_id() = {:?}", case.connect_id, o.session_id),
        ));
    }
    let want = payload(case.payload_len);
    match case.kind {
        Kind::InUni | Kind::InBidi => {
            let k = if case.kind == Kind::InUni { "uni" } else { "bidi" };
            if !case.enabled && case.kind == Kind::InUni {
                // extension off: no uni stream is surfaced, no connection error
                if o.stream_session.is_some() {
                    out.push(("C19:uni-stream-surfaced-although-extension-disabled".into(), format!("{ctx}: {o:?}")));
                }
                return out;
            }
            match o.stream_session {
                None => out.push((
                    format!("C19:incoming-{k}-stream-never-surfaced:{}", if o.read_end.is_empty() { "pending" } else { &o.read_end }),
                    format!("{ctx}: the WebTransport stream was never handed to the application ({:?})", o.read_end),
                )),
                Some(s) => {
                    if s != case.connect_id {
                        out.push((format!("C19:incoming-{k}-stream-session-id-wrong"), format!("{ctx}: stream header carries session {}, application was told {s}", case.connect_id)));
                    }
                    let end_ok = if case.fin { o.read_end == "eof" } else { o.read_end.is_empty() };
                    if o.received != want {
                        let class = if want.starts_with(&o.received) {
                            if o.received.is_empty() && !want.is_empty() { "nothing-delivered" } else { "truncated" }
                        } else {
                            "corrupted"
                        };
                        out.push((
                            format!("C19:incoming-{k}-payload-{class}:{}", if case.fin { "fin" } else { "open" }),
                            format!("{ctx}: payload sent {} ; received {} ; read end {:?}", hex(&want), hex(&o.received), o.read_end),
                        ));
                    } else if !end_ok {
                        out.push((format!("C19:incoming-{k}-end-of-stream-wrong:{}", o.read_end), format!("{ctx}: fin={} read end {:?}", case.fin, o.read_end)));
                    }
                }
            }
        }
        Kind::OutUni | Kind::OutBidi => {
            let k = if case.kind == Kind::OutUni { "uni" } else { "bidi" };
            if !o.open_result.starts_with("ok:") {
                out.push((format!("C19:open-{k}-failed"), format!("{ctx}: {:?}", o.open_result)));
                return out;
            }
            // wire: stream type / signal varint, session id varint, payload
            let ty = if case.kind == Kind::OutUni { 0x54u64 } else { 0x41 };
            let mut ok = false;
            if let varint::Decoded::Ok(t, n) = varint::decode(&o.wire_out) {
                if let varint::Decoded::Ok(s, m) = varint::decode(&o.wire_out[n..]) {
                    if t == ty && s == case.connect_id && o.wire_out[n + m..] == want[..] {
                        ok = true;
                    } else if t == ty && s != case.connect_id {
                        out.push((
                            format!("C19:opened-{k}-stream-carries-wrong-session-id:varint-form={form}"),
                            format!("{ctx}: the stream opened for the session starts with {} : session {s}, CONNECT stream {}", hex(&o.wire_out[..n + m]), case.connect_id),
                        ));
                        ok = true;
                    }
                }
            }
            if !ok {
                out.push((format!("C19:opened-{k}-stream-bytes-wrong"), format!("{ctx}: wire {} expected {:#x} || varint({}) || {}", hex(&o.wire_out), ty, case.connect_id, hex(&want))));
            }
        }
    }
    out
}

fn case_json(c: &Case, choices: &[u32], seed: u64, mode: &str) -> Value {
    json!({"connect_id": c.connect_id.to_string(), "prior": c.prior, "kind": format!("{:?}", c.kind), "payload_len": c.payload_len, "fin": c.fin, "async_read": c.async_read, "enabled": c.enabled, "sid_form": c.sid_form, "split": c.split, "choices": choices, "seed": seed, "mode": mode})
}

pub fn run(args: &Args) -> i32 {
    let thorough = args.tier == Tier::Thorough;
    let bound = if thorough { 4 } else { 3 };
    let mut rep = Report::new("C19", args.tier, args.seed, "model_checking");
    rep.exhaustive = true;
    rep.rule = format!("CONNECT request on stream id in {{0, 4, 8, 252, 256, 65536, 2^30}} (1-, 2-, 4- and 8-byte varints), accepted first or after 1-2 ordinary requests; then one WebTransport stream: client-opened uni (0x54 || session id || payload) or bidi (0x41 || session id || payload) with payload of 0, 1 or 40 position-coded bytes, session id in its shortest and in a padded varint form, stream left open or finished, read through poll_data or AsyncRead (bidi: also after split() into halves before the first read), delivered under EVERY execution with <= {bound} deviations (chunk cuts at any offset of header and payload, delayed delivery, scheduling) plus one byte per read; server-opened uni / bidi streams written under the default and the one-byte-at-a-time write acceptance; uni streams with the extension disabled. Oracle: session_id() = CONNECT stream id = id on incoming streams = varint after 0x54/0x41 on opened streams; payload delivered complete, in order, also when it shares a chunk with the header and the stream stays open. states = distinct (transport, bytes received) fingerprints; non-trivial = executions with a deviation.");
    rep.assumptions = vec!["stream ids are chosen freely by the scripted client (gaps are legal in simnet)".into()];
    rep.bound_note = format!("deviation bound {bound}: all combinations of up to {bound} cuts / delays / scheduling deviations");
    let ids: Vec<u64> = vec![0, 4, 8, 252, 256, 65536, 1 << 30];
    let mut cases: Vec<Case> = Vec::new();
    for &connect_id in &ids {
        let priors: Vec<usize> = match connect_id {
            0 => vec![0],
            4 => vec![0, 1],
            _ => vec![0, 2],
        };
        for prior in priors {
            for kind in [Kind::InUni, Kind::InBidi] {
                for payload_len in [0usize, 1, 40] {
                    for fin in [false, true] {
                        for async_read in [false, true] {
                            if prior > 0 && (payload_len == 1 || async_read) && !thorough {
                                continue;
                            }
                            for sid_form in [None, Some(8)] {
                                if sid_form.is_some() && (payload_len != 40 || prior > 0) {
                                    continue;
                                }
                                cases.push(Case { connect_id, prior, kind, payload_len, fin, async_read, enabled: true, sid_form, split: false });
                                if kind == Kind::InBidi && payload_len > 0 && prior == 0 {
                                    cases.push(Case { connect_id, prior, kind, payload_len, fin, async_read, enabled: true, sid_form, split: true });
                                }
                            }
                        }
                    }
                }
            }
            for kind in [Kind::OutUni, Kind::OutBidi] {
                for payload_len in [0usize, 40] {
                    cases.push(Case { connect_id, prior, kind, payload_len, fin: true, async_read: false, enabled: true, sid_form: None, split: false });
                }
            }
        }
        cases.push(Case { connect_id, prior: 0, kind: Kind::InUni, payload_len: 40, fin: true, async_read: false, enabled: false, sid_form: None, split: false });
    }
    let seed = args.seed;
    let deadline = std::time::Instant::now() + std::time::Duration::from_secs(if thorough { 1500 } else { 55 });
    let accs = explore::par::run(&cases, Acc::new, |_, case, acc| {
        let incoming = matches!(case.kind, Kind::InUni | Kind::InBidi);
        // uniform modes
        for (mode, r, w) in [("whole", Policy::Whole, Policy::Whole), ("read1", Policy::PerByte, Policy::Whole), ("write1", Policy::Whole, Policy::PerByte)] {
            let o = execute(case, seed, r, w);
            acc.evaluations += 1;
            acc.dfs.executions += 1;
            acc.states.extend(o.fps.iter().copied());
            acc.outcomes.insert(explore::fnv_str(&format!("{:?}{:?}{}{}", o.session_id, o.stream_session, o.read_end, o.received.len())));
            for (sig, msg) in judge(case, &o) {
                acc.violation(sig, msg, ((mode != "whole") as usize, case.payload_len), || case_json(case, &[], seed, mode));
            }
        }
        if incoming && case.enabled {
            let caps = Caps { deadline: Some(deadline), max_executions: if thorough { 4_000_000 } else { 300_000 }, ..Caps::default() };
            let mut viol = ViolSet::new();
            let mut states: Vec<u64> = Vec::new();
            let mut nontrivial = 0u64;
            let st = dfs::explore(
                bound,
                &caps,
                || execute(case, seed, Policy::Choose, Policy::Whole),
                |e, o| {
                    states.extend(o.fps.iter().copied());
                    if e.cost > 0 {
                        nontrivial += 1;
                    }
                    for (sig, msg) in judge(case, &o) {
                        viol.add(sig, msg, (e.cost, e.choices.len()), &e.choices);
                    }
                },
            );
            if st.capped {
                acc.capped_cases += 1;
            }
            acc.dfs.merge(&st);
            acc.evaluations += st.executions;
            acc.states.extend(states);
            let h = explore::fnv_str(&format!("{case:?}"));
            for k in 0..nontrivial.min(100_000) {
                acc.nontrivial.insert(h.wrapping_add(k));
            }
            viol.drain_into(acc, |choices| case_json(case, choices, seed, "explore"));
        } else {
            acc.nontrivial.insert(explore::fnv_str(&format!("{case:?}")));
        }
    });
    let mut total = Acc::new();
    for a in accs {
        total.merge(a);
    }
    total.count("cases", cases.len() as u64);
    for i in [0, cases.len() / 2, cases.len() - 2] {
        total.samples.push(json!(format!("{:?}", cases[i])));
    }
    rep.finish(total)
}

pub fn replay(r: &Value) -> i32 {
    let case = Case {
        connect_id: r["connect_id"].as_str().unwrap().parse().unwrap(),
        prior: r["prior"].as_u64().unwrap() as usize,
        kind: match r["kind"].as_str().unwrap() {
            "InUni" => Kind::InUni,
            "InBidi" => Kind::InBidi,
            "OutUni" => Kind::OutUni,
            _ => Kind::OutBidi,
        },
        payload_len: r["payload_len"].as_u64().unwrap() as usize,
        fin: r["fin"].as_bool().unwrap(),
        async_read: r["async_read"].as_bool().unwrap(),
        enabled: r["enabled"].as_bool().unwrap(),
        sid_form: r["sid_form"].as_u64().map(|x| x as usize),
        split: r["split"].as_bool().unwrap_or(false),
    };
    let seed = r["seed"].as_u64().unwrap_or(0);
    let choices: Vec<u32> = r["choices"].as_array().unwrap().iter().map(|v| v.as_u64().unwrap() as u32).collect();
    println!("case: {case:?} mode {} choices {choices:?}", r["mode"]);
    let once = || match r["mode"].as_str() {
        Some("whole") => (execute(&case, seed, Policy::Whole, Policy::Whole), None),
        Some("read1") => (execute(&case, seed, Policy::PerByte, Policy::Whole), None),
        Some("write1") => (execute(&case, seed, Policy::Whole, Policy::PerByte), None),
        _ => {
            let (o, _, d) = dfs::replay(&choices, || execute(&case, seed, Policy::Choose, Policy::Whole));
            (o, d)
        }
    };
    let (o1, d1) = once();
    let (o2, d2) = once();
    if let Some(d) = d1.or(d2) {
        println!("REPLAY DIVERGED: {d}");
        return 2;
    }
    if o1 != o2 {
        println!("REPLAY NOT DETERMINISTIC");
        return 2;
    }
    println!("outcome: {:?}", Outcome { fps: vec![], ..o1.clone() });
    let v = judge(&case, &o1);
    for (sig, msg) in &v {
        println!("observed: {sig}: {msg}");
    }
    if v.is_empty() {
        println!("observed: no violation");
        0
    } else {
        1
    }
}
