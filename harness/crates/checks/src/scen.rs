//! Building blocks for connection-level scenarios over simnet: error classification, canned
//! wire bytes, the documented application call patterns of both roles.
#![allow(dead_code)]

use bytes::{Buf, Bytes};
use h3::error::{Code, ConnectionError, LocalError, StreamError};
use h3::quic::ConnectionErrorIncoming;
use refimpl::frames as rf;
use simnet::{Net, Obs, SimConn, Spawner, CLIENT, SERVER};

pub type SrvConn = h3::server::Connection<SimConn, Bytes>;
pub type SrvStream = h3::server::RequestStream<simnet::SimBidi<Bytes>, Bytes>;
pub type CliConn = h3::client::Connection<SimConn, Bytes>;
pub type CliSend = h3::client::SendRequest<simnet::SimOpener, Bytes>;
pub type CliStream = h3::client::RequestStream<simnet::SimBidi<Bytes>, Bytes>;

/// first unidirectional stream ids
pub const CLIENT_CTRL: u64 = 2;
pub const SERVER_CTRL: u64 = 3;

pub fn conn_class(e: &ConnectionError) -> String {
    match e {
        ConnectionError::Local { error } => match error {
            LocalError::Application { code, .. } => format!("Local({:#x})", code.value()),
            other => format!("Local({other:?})"),
        },
        ConnectionError::Remote(r) => match r {
            ConnectionErrorIncoming::ApplicationClose { error_code } => format!("Remote(AppClose({error_code:#x}))"),
            ConnectionErrorIncoming::Timeout => "Remote(Timeout)".into(),
            ConnectionErrorIncoming::InternalError(_) => "Remote(Internal)".into(),
            ConnectionErrorIncoming::Undefined(_) => "Remote(Undefined)".into(),
        },
        ConnectionError::Timeout => "Timeout".into(),
        _ => "?".into(),
    }
}

pub fn stream_class(e: &StreamError) -> String {
    match e {
        StreamError::StreamError { code, .. } => format!("Stream({:#x})", code.value()),
        StreamError::RemoteTerminate { code } => format!("RemoteTerminate({:#x})", code.value()),
        StreamError::ConnectionError(c) => format!("Conn:{}", conn_class(c)),
        StreamError::HeaderTooBig { actual_size, max_size } => format!("HeaderTooBig({actual_size},{max_size})"),
        StreamError::RemoteClosing => "RemoteClosing".into(),
        StreamError::Undefined(_) => "Undefined".into(),
        _ => "?".into(),
    }
}

pub fn is_conn_err(class: &str) -> bool {
    class.starts_with("Conn:")
}

// ---- canned QPACK sections (static/literal only; hand-assembled from RFC 9204) -----------------

/// :method GET, :scheme https, :path /, :authority a
pub const REQ_SECTION: &[u8] = &[0x00, 0x00, 0xd1, 0xd7, 0xc1, 0x50, 0x01, b'a'];
/// :status 200
pub const RESP_SECTION: &[u8] = &[0x00, 0x00, 0xd9];
/// t: v   (literal name, literal value)
pub const TRAILER_SECTION: &[u8] = &[0x00, 0x00, 0x21, b't', 0x01, b'v'];

pub fn headers_frame(section: &[u8]) -> Vec<u8> {
    rf::frame(rf::HEADERS, section)
}

/// stream type 0x00 + SETTINGS frame with the given payload
pub fn control_preamble(settings_payload: &[u8]) -> Vec<u8> {
    let mut v = vec![0x00];
    v.extend(rf::frame(rf::SETTINGS, settings_payload));
    v
}

pub fn drain(mut b: impl Buf) -> Vec<u8> {
    let mut v = Vec::with_capacity(b.remaining());
    while b.has_remaining() {
        let c = b.chunk();
        let n = c.len();
        v.extend_from_slice(c);
        b.advance(n);
    }
    v
}

pub fn headermap_str(h: &http::HeaderMap) -> String {
    let mut items: Vec<String> = Vec::new();
    for name in h.keys() {
        let vals: Vec<String> = h.get_all(name).iter().map(|v| explore::hex(v.as_bytes())).collect();
        items.push(format!("{}=[{}]", name.as_str(), vals.join(",")));
    }
    items.sort();
    items.join(";")
}

pub const PROTOCOLS: [(&str, h3::ext::Protocol); 4] = [
    ("webtransport", h3::ext::Protocol::WEB_TRANSPORT),
    ("connect-udp", h3::ext::Protocol::CONNECT_UDP),
    ("connect-ip", h3::ext::Protocol::CONNECT_IP),
    ("websocket", h3::ext::Protocol::WEBSOCKET),
];

/// Which of the four constants a Protocol value is (not through `as_str`, which is code under test).
pub fn protocol_name(p: &h3::ext::Protocol) -> &'static str {
    PROTOCOLS.iter().find(|(_, c)| c == p).map(|(n, _)| *n).unwrap_or("?")
}

pub fn headermap_fields(h: &http::HeaderMap) -> Vec<(Vec<u8>, Vec<u8>)> {
    let mut v: Vec<(Vec<u8>, Vec<u8>)> = h.iter().map(|(n, v)| (n.as_str().as_bytes().to_vec(), v.as_bytes().to_vec())).collect();
    v.sort();
    v
}

// ---- documented call patterns -------------------------------------------------------------------

/// What the handler of one request observed (server role) / what the client observed for one
/// response. All fields are filled in as the calls complete, so a snapshot taken at quiescence
/// shows which call is still pending.
#[derive(Debug, Clone, Default, PartialEq, Eq)]
pub struct MsgObs {
    /// "ok" | error class | "" (pending)
    pub head: String,
    /// answers of the calls made after the first recv_data error (recv_data again, then recv_trailers), when enabled
    pub after_error: Vec<String>,
    pub head_info: String,
    /// what the application was given, piece by piece: (method, scheme, authority, path and query) of a request
    pub req_target: Option<(String, Option<String>, Option<String>, Option<Vec<u8>>)>,
    /// the Protocol extension handed over with a request, named by comparing it with the four constants
    pub protocol: Option<&'static str>,
    /// status of a response
    pub status: Option<u16>,
    /// regular fields of the head as the application sees them, sorted
    pub head_fields: Vec<(Vec<u8>, Vec<u8>)>,
    pub body: Vec<u8>,
    /// result of the recv_data call that ended the body loop: "none" | error class | "" (pending / not reached)
    pub body_end: String,
    /// "some:<map>" | "none" | error class | "" (pending / not reached)
    pub trailers: String,
    /// results of the send half of the pattern
    pub sent: String,
    pub recv_data_calls: usize,
    /// the call in progress: "resolve" | "recv_response" | "recv_data" | "recv_trailers" | "send_response" | "send_data" | "finish" | "done"
    pub stage: String,
    pub stream_id: Option<u64>,
}

pub type Shared<T> = std::rc::Rc<std::cell::RefCell<T>>;
pub fn shared<T>(v: T) -> Shared<T> {
    std::rc::Rc::new(std::cell::RefCell::new(v))
}

thread_local! {
    static APP_PAUSES: std::cell::Cell<bool> = const { std::cell::Cell::new(false) };
    static INLINE_HANDLERS: std::cell::Cell<bool> = const { std::cell::Cell::new(false) };
    static RETRY_AFTER_ERROR: std::cell::Cell<bool> = const { std::cell::Cell::new(false) };
}

/// With this on, the receive patterns do not stop at the first error of recv_data: they call recv_data twice more
/// (an application that retries, or a combinator polled once more) and record the answers in
/// `MsgObs::after_error`. What those calls may NOT do is turn a stream-level problem into a connection error.
pub fn set_retry_after_error(on: bool) {
    RETRY_AFTER_ERROR.with(|c| c.set(on));
}

fn retry_after_error() -> bool {
    RETRY_AFTER_ERROR.with(|c| c.get())
}

/// With this on, `server_main` handles every request INSIDE its accept loop (the sequential loop of the examples):
/// accept() is not polled again - and nothing else drives the connection - until the handler has returned.
pub fn set_inline_handlers(on: bool) {
    INLINE_HANDLERS.with(|c| c.set(on));
}

/// Turns the application pause points of the documented call patterns on or off (per thread).
pub fn set_app_pauses(on: bool) {
    APP_PAUSES.with(|c| c.set(on));
}

/// A place where a real application may be slow (awaiting something else between two h3 calls): under
/// exploration a deviation lets every other task run first. Without it the handler would issue its next call
/// in the same poll and the states "data buffered in h3, then the peer's RESET/FIN/close arrives, then the
/// next call" could never be reached.
pub async fn app_pause() {
    if APP_PAUSES.with(|c| c.get()) && explore::chooser::active() && explore::choose(2, "app-pause") == 1 {
        simnet::exec::yield_now().await;
    }
}

/// server handler: resolve_request -> recv_data* -> recv_trailers -> (optional) response
pub async fn server_handler(
    resolver: h3::server::RequestResolver<SimConn, Bytes>,
    out: Shared<MsgObs>,
    respond: bool,
) {
    {
        let mut o = out.borrow_mut();
        o.stage = "resolve".into();
        o.stream_id = Some(resolver.frame_stream.id().into_inner());
    }
    let (req, mut stream) = match resolver.resolve_request().await {
        Ok(x) => x,
        Err(e) => {
            let mut o = out.borrow_mut();
            o.head = stream_class(&e);
            o.stage = "done".into();
            return;
        }
    };
    {
        let mut o = out.borrow_mut();
        o.head = "ok".into();
        o.head_info = format!("{} {} {}", req.method(), req.uri(), headermap_str(req.headers()));
        o.req_target = Some((
            req.method().as_str().to_string(),
            req.uri().scheme_str().map(|s| s.to_string()),
            req.uri().authority().map(|a| a.as_str().to_string()),
            req.uri().path_and_query().map(|p| p.as_str().as_bytes().to_vec()),
        ));
        o.head_fields = headermap_fields(req.headers());
        o.protocol = req.extensions().get::<h3::ext::Protocol>().map(protocol_name);
    }
    loop {
        app_pause().await;
        {
            let mut o = out.borrow_mut();
            o.recv_data_calls += 1;
            o.stage = "recv_data".into();
        }
        match stream.recv_data().await {
            Ok(Some(b)) => {
                let v = drain(b);
                out.borrow_mut().body.extend(v);
            }
            Ok(None) => {
                out.borrow_mut().body_end = "none".into();
                break;
            }
            Err(e) => {
                {
                    let mut o = out.borrow_mut();
                    o.body_end = stream_class(&e);
                }
                if retry_after_error() {
                    let a = match stream.recv_data().await {
                        Ok(Some(_)) => "data".to_string(),
                        Ok(None) => "none".to_string(),
                        Err(e) => stream_class(&e),
                    };
                    out.borrow_mut().after_error.push(a);
                    // (recv_trailers is not retried: the API wants the body read to its end first, and says so with a
                    // panic - calling it after a failed recv_data is the application's mistake, not the peer's)
                    let b = match stream.recv_data().await {
                        Ok(Some(_)) => "data".to_string(),
                        Ok(None) => "none".to_string(),
                        Err(e) => stream_class(&e),
                    };
                    out.borrow_mut().after_error.push(b);
                }
                out.borrow_mut().stage = "done".into();
                return;
            }
        }
    }
    app_pause().await;
    out.borrow_mut().stage = "recv_trailers".into();
    match stream.recv_trailers().await {
        Ok(Some(t)) => out.borrow_mut().trailers = format!("some:{}", headermap_str(&t)),
        Ok(None) => out.borrow_mut().trailers = "none".into(),
        Err(e) => {
            let mut o = out.borrow_mut();
            o.trailers = stream_class(&e);
            o.stage = "done".into();
            return;
        }
    }
    if respond {
        let r = async {
            out.borrow_mut().stage = "send_response".into();
            stream.send_response(http::Response::builder().status(200).body(()).unwrap()).await?;
            out.borrow_mut().stage = "send_data".into();
            stream.send_data(Bytes::from_static(b"pong")).await?;
            out.borrow_mut().stage = "finish".into();
            stream.finish().await
        }
        .await;
        let failed = r.is_err();
        out.borrow_mut().sent = match r {
            Ok(()) => "ok".into(),
            Err(e) => stream_class(&e),
        };
        if failed && retry_after_error() {
            // an application that tidies up: finish() after a send call has failed
            let a = match stream.finish().await {
                Ok(()) => "finish:ok".to_string(),
                Err(e) => stream_class(&e),
            };
            out.borrow_mut().after_error.push(a);
        }
    }
    out.borrow_mut().stage = "done".into();
}

/// client side of one request whose stream is already open: recv_response -> recv_data* -> recv_trailers
pub async fn client_reader(mut stream: CliStream, out: Shared<MsgObs>) {
    out.borrow_mut().stage = "recv_response".into();
    match stream.recv_response().await {
        Ok(resp) => {
            let mut o = out.borrow_mut();
            o.head = "ok".into();
            o.head_info = format!("{} {}", resp.status().as_u16(), headermap_str(resp.headers()));
            o.status = Some(resp.status().as_u16());
            o.head_fields = headermap_fields(resp.headers());
        }
        Err(e) => {
            let mut o = out.borrow_mut();
            o.head = stream_class(&e);
            o.stage = "done".into();
            return;
        }
    }
    loop {
        app_pause().await;
        {
            let mut o = out.borrow_mut();
            o.recv_data_calls += 1;
            o.stage = "recv_data".into();
        }
        match stream.recv_data().await {
            Ok(Some(b)) => {
                let v = drain(b);
                out.borrow_mut().body.extend(v);
            }
            Ok(None) => {
                out.borrow_mut().body_end = "none".into();
                break;
            }
            Err(e) => {
                {
                    let mut o = out.borrow_mut();
                    o.body_end = stream_class(&e);
                }
                if retry_after_error() {
                    let a = match stream.recv_data().await {
                        Ok(Some(_)) => "data".to_string(),
                        Ok(None) => "none".to_string(),
                        Err(e) => stream_class(&e),
                    };
                    out.borrow_mut().after_error.push(a);
                    // (recv_trailers is not retried: the API wants the body read to its end first, and says so with a
                    // panic - calling it after a failed recv_data is the application's mistake, not the peer's)
                    let b = match stream.recv_data().await {
                        Ok(Some(_)) => "data".to_string(),
                        Ok(None) => "none".to_string(),
                        Err(e) => stream_class(&e),
                    };
                    out.borrow_mut().after_error.push(b);
                }
                out.borrow_mut().stage = "done".into();
                return;
            }
        }
    }
    app_pause().await;
    out.borrow_mut().stage = "recv_trailers".into();
    match stream.recv_trailers().await {
        Ok(Some(t)) => out.borrow_mut().trailers = format!("some:{}", headermap_str(&t)),
        Ok(None) => out.borrow_mut().trailers = "none".into(),
        Err(e) => out.borrow_mut().trailers = stream_class(&e),
    }
    out.borrow_mut().stage = "done".into();
}

/// Results of the connection driver: every `accept()` / `poll_close()` outcome in order.
#[derive(Debug, Clone, Default, PartialEq, Eq)]
pub struct DriverObs {
    pub results: Vec<String>,
    pub build: String,
    /// a driver call (accept / poll_close) is in progress
    pub in_call: bool,
}

/// Server main task: build, then accept in a loop, spawning `server_handler` per request.
/// After the first error / None it calls accept `extra_calls` more times to check stability.
pub async fn server_main(
    net: Net,
    builder: h3::server::Builder,
    spawner: Spawner,
    drv: Shared<DriverObs>,
    handlers: Shared<Vec<Shared<MsgObs>>>,
    respond: bool,
    extra_calls: usize,
) {
    server_main_with_state(net, builder, spawner, drv, handlers, respond, extra_calls, shared(None)).await
}

/// As `server_main`; additionally hands out the connection's shared state for inspection.
#[allow(clippy::too_many_arguments)]
pub async fn server_main_with_state(
    net: Net,
    builder: h3::server::Builder,
    spawner: Spawner,
    drv: Shared<DriverObs>,
    handlers: Shared<Vec<Shared<MsgObs>>>,
    respond: bool,
    extra_calls: usize,
    state_out: Shared<Option<std::sync::Arc<h3::SharedState>>>,
) {
    let mut conn: SrvConn = match builder.build(SimConn::new(&net, SERVER)).await {
        Ok(c) => {
            drv.borrow_mut().build = "ok".into();
            *state_out.borrow_mut() = Some(c.inner.shared.clone());
            c
        }
        Err(e) => {
            drv.borrow_mut().build = conn_class(&e);
            return;
        }
    };
    let mut after_end = 0;
    loop {
        drv.borrow_mut().in_call = true;
        let r = conn.accept().await;
        drv.borrow_mut().in_call = false;
        match r {
            Ok(Some(resolver)) => {
                let o = shared(MsgObs::default());
                handlers.borrow_mut().push(o.clone());
                let n = handlers.borrow().len();
                drv.borrow_mut().results.push("req".into());
                if INLINE_HANDLERS.with(|c| c.get()) {
                    server_handler(resolver, o, respond).await;
                } else {
                    spawner.spawn(format!("handler{n}"), server_handler(resolver, o, respond));
                }
            }
            Ok(None) => {
                drv.borrow_mut().results.push("none".into());
                after_end += 1;
            }
            Err(e) => {
                drv.borrow_mut().results.push(conn_class(&e));
                after_end += 1;
            }
        }
        if after_end > extra_calls {
            break;
        }
    }
    // keep the connection object alive until quiescence so that Drop's close(H3_NO_ERROR) does
    // not hide what the driver itself did
    std::future::pending::<()>().await;
    drop(conn);
}

pub fn code_name(c: u64) -> String {
    format!("{}", Code::from(c))
}

pub fn obs_unused(_: &Obs) {}
pub const SIDES: (usize, usize) = (CLIENT, SERVER);
