//! C09 — shutdown drains: accept() ends exactly when all accepted requests have.
//!
//! Real server connection + scripted client over simnet. 0..N requests, each ending in one of ten
//! ways (normal finish, resolver dropped before resolution, FIN before HEADERS, RESET before /
//! after HEADERS, malformed headers, oversized headers, split into halves dropped in either
//! order, handler still running), the peer's GOAWAY injected at every position, every execution
//! with at most k scheduling deviations among accept loop, handlers and script.
//! Liveness is decided at quiescence of the closed world.

use crate::scen::*;
use crate::Args;
use bytes::Bytes;
use explore::dfs::{self, Caps};
use explore::report::{Acc, Report, Tier, ViolSet};
use explore::Fnv;
use refimpl::frames as rf;
use refimpl::qpack as rq;
use serde_json::{json, Value};
use simnet::exec::yield_now;
use simnet::{Exec, Net, NetCfg, SimConn, CLIENT, SERVER};

#[derive(Clone, Copy, Debug, PartialEq, Eq)]
pub enum End {
    Normal,
    DropResolver,
    FinBeforeHeaders,
    ResetBeforeHeaders,
    ResetAfterHeaders,
    Malformed,
    Oversize,
    SplitDropSendFirst,
    SplitDropRecvFirst,
    StillRunning,
    /// the response has been sent and finish() has returned, but the handler keeps the handle (it is still in progress)
    FinishedHeld,
    /// split; the send half has finished and is dropped, the receive half is kept
    SplitSendFinishedRecvHeld,
    /// RESET after the handler has buffered half of the HEADERS frame (the peer stops in the middle of a frame)
    ResetMidHeaders,
    /// RESET after the handler has buffered the head and half of a DATA frame
    ResetMidData,
}

pub const ENDS: [End; 14] = [
    End::Normal,
    End::DropResolver,
    End::FinBeforeHeaders,
    End::ResetBeforeHeaders,
    End::ResetAfterHeaders,
    End::Malformed,
    End::Oversize,
    End::SplitDropSendFirst,
    End::SplitDropRecvFirst,
    End::StillRunning,
    End::FinishedHeld,
    End::SplitSendFinishedRecvHeld,
    End::ResetMidHeaders,
    End::ResetMidData,
];

#[derive(Clone, Debug)]
pub struct Case {
    pub ends: Vec<End>,
    /// the peer GOAWAY is sent before the content of request number `goaway_at` (== len: after all)
    pub goaway_at: usize,
    /// the requests arrive in descending stream-ID order (the h3::quic traits allow any order)
    pub reversed: bool,
    /// the identifiers of the GOAWAY frames the peer sends at that point (client to server they are push ids: any
    /// value is legal, as long as a later one is not larger)
    pub goaway_ids: Vec<u64>,
    /// the server sends grease and the peer never grants the (fourth) unidirectional stream the grease needs: the
    /// optional grease stream stays pending for the whole run and must not hold anything up
    pub grease_starved: bool,
    /// the server application has called shutdown(n) itself before the peer's GOAWAY is read
    pub local_shutdown: Option<usize>,
    /// the peer's GOAWAY frame arrives in two pieces (frame header, pause, payload)
    pub goaway_split: bool,
    /// a control frame the server has nothing to do for (MAX_PUSH_ID = 0xd, CANCEL_PUSH = 0x3; 0 = none) written
    /// directly in front of the GOAWAY, in the same write: the GOAWAY is already buffered when that frame is read
    pub goaway_behind: u64,
}

#[derive(Debug, Clone, Default, PartialEq, Eq)]
pub struct Outcome {
    /// accept() results in order: "req:<id>", "none", error class
    pub accepts: Vec<String>,
    /// number of live request handles when accept() answered None
    pub live_at_none: Option<usize>,
    pub handlers_done: usize,
    pub handlers_started: usize,
    pub accept_pending: bool,
    pub goaway_delivered: bool,
    pub close_calls: Vec<u64>,
    pub panics: Vec<(String, String)>,
    pub horizon: bool,
    pub fps: Vec<u64>,
}

const LIMIT: u64 = 300;
const HORIZON: usize = 20_000;

pub fn execute(case: &Case, seed: u64) -> Outcome {
    fastrand::seed(seed);
    let mut ncfg = NetCfg::default();
    if case.grease_starved {
        ncfg.uni_credit[SERVER] = Some(3);
    }
    let net = Net::new(ncfg);
    let mut ex = Exec::new();
    let out = shared(Outcome::default());
    let live = shared(0usize);
    let grease = case.grease_starved;
    let local_shutdown = case.local_shutdown;
    {
        let (net2, sp, out2, live2, ends) = (net.clone(), ex.spawner(), out.clone(), live.clone(), case.ends.clone());
        ex.spawn("accept-loop", async move {
            let mut b = h3::server::builder();
            b.send_grease(grease).max_field_section_size(LIMIT);
            let mut conn: SrvConn = match b.build(SimConn::new(&net2, SERVER)).await {
                Ok(c) => c,
                Err(_) => return,
            };
            if let Some(n) = local_shutdown {
                let _ = conn.shutdown(n).await;
            }
            loop {
                out2.borrow_mut().accept_pending = true;
                let r = conn.accept().await;
                out2.borrow_mut().accept_pending = false;
                match r {
                    Ok(Some(resolver)) => {
                        let id = resolver.frame_stream.id().into_inner();
                        out2.borrow_mut().accepts.push(format!("req:{id}"));
                        out2.borrow_mut().handlers_started += 1;
                        *live2.borrow_mut() += 1;
                        let end = ends.get((id / 4) as usize).copied().unwrap_or(End::Normal);
                        let (out3, live3) = (out2.clone(), live2.clone());
                        sp.spawn(format!("handler{id}"), async move {
                            match end {
                                End::DropResolver => drop(resolver),
                                End::StillRunning => {
                                    let r = resolver.resolve_request().await;
                                    // hold the handles forever
                                    std::future::pending::<()>().await;
                                    drop(r);
                                }
                                End::FinishedHeld => {
                                    let r = async {
                                        let (_req, mut s) = resolver.resolve_request().await?;
                                        while s.recv_data().await?.is_some() {}
                                        s.recv_trailers().await?;
                                        s.send_response(http::Response::builder().status(200).body(()).unwrap()).await?;
                                        s.send_data(Bytes::from_static(b"ok")).await?;
                                        s.finish().await?;
                                        Ok::<_, h3::error::StreamError>(s)
                                    }
                                    .await;
                                    if let Ok(s) = r {
                                        std::future::pending::<()>().await;
                                        drop(s);
                                    }
                                }
                                End::SplitSendFinishedRecvHeld => {
                                    if let Ok((_req, stream)) = resolver.resolve_request().await {
                                        let (mut tx, rx) = stream.split();
                                        let _ = tx.send_response(http::Response::builder().status(200).body(()).unwrap()).await;
                                        let _ = tx.finish().await;
                                        drop(tx);
                                        std::future::pending::<()>().await;
                                        drop(rx);
                                    }
                                }
                                End::SplitDropSendFirst | End::SplitDropRecvFirst => {
                                    if let Ok((_req, stream)) = resolver.resolve_request().await {
                                        let (tx, rx) = stream.split();
                                        if end == End::SplitDropSendFirst {
                                            drop(tx);
                                            yield_now().await;
                                            yield_now().await;
                                            drop(rx);
                                        } else {
                                            drop(rx);
                                            yield_now().await;
                                            yield_now().await;
                                            drop(tx);
                                        }
                                    }
                                }
                                _ => {
                                    // the documented pattern; every error ends the handler
                                    let r = async {
                                        let (_req, mut s) = resolver.resolve_request().await?;
                                        while s.recv_data().await?.is_some() {}
                                        s.recv_trailers().await?;
                                        s.send_response(http::Response::builder().status(200).body(()).unwrap()).await?;
                                        s.send_data(Bytes::from_static(b"ok")).await?;
                                        s.finish().await
                                    }
                                    .await;
                                    let _ = r;
                                }
                            }
                            *live3.borrow_mut() -= 1;
                            out3.borrow_mut().handlers_done += 1;
                        });
                    }
                    Ok(None) => {
                        let mut o = out2.borrow_mut();
                        o.accepts.push("none".into());
                        o.live_at_none = Some(*live2.borrow());
                        break;
                    }
                    Err(e) => {
                        out2.borrow_mut().accepts.push(conn_class(&e));
                        break;
                    }
                }
            }
            std::future::pending::<()>().await;
            drop(conn);
        });
    }
    {
        let (net, case) = (net.clone(), case.clone());
        ex.spawn("script", async move {
            net.raw_open(CLIENT_CTRL);
            net.raw_write(CLIENT, CLIENT_CTRL, &control_preamble(&[]));
            yield_now().await;
            let f = |n: &str, v: &[u8]| (n.as_bytes().to_vec(), v.to_vec());
            for i in 0..=case.ends.len() {
                if i == case.goaway_at {
                    for id in &case.goaway_ids {
                        let mut fr = rf::frame(rf::GOAWAY, &refimpl::varint::encode(*id).unwrap());
                        if case.goaway_behind != 0 {
                            let mut b = rf::frame(case.goaway_behind, &[if case.goaway_behind == rf::MAX_PUSH_ID { 1 } else { 0 }]);
                            b.extend(fr);
                            fr = b;
                        }
                        if case.goaway_split {
                            net.raw_write(CLIENT, CLIENT_CTRL, &fr[..2]);
                            for _ in 0..4 {
                                yield_now().await;
                            }
                            net.raw_write(CLIENT, CLIENT_CTRL, &fr[2..]);
                        } else {
                            net.raw_write(CLIENT, CLIENT_CTRL, &fr);
                        }
                    }
                    yield_now().await;
                }
                if i == case.ends.len() {
                    break;
                }
                let id = if case.reversed { (case.ends.len() - 1 - i) as u64 * 4 } else { i as u64 * 4 };
                net.raw_open(id);
                let valid = {
                    let mut b = rf::frame(rf::HEADERS, REQ_SECTION);
                    b.extend(rf::frame(rf::DATA, b"hello"));
                    b
                };
                match case.ends[(id / 4) as usize] {
                    End::FinBeforeHeaders => net.raw_fin(CLIENT, id),
                    End::ResetBeforeHeaders => net.raw_reset(CLIENT, id, 0x10c),
                    End::ResetAfterHeaders => {
                        net.raw_write(CLIENT, id, &valid);
                        yield_now().await;
                        yield_now().await;
                        net.raw_reset(CLIENT, id, 0x10c);
                    }
                    End::ResetMidHeaders | End::ResetMidData => {
                        let head_len = rf::frame(rf::HEADERS, REQ_SECTION).len();
                        let cut = if case.ends[(id / 4) as usize] == End::ResetMidHeaders { head_len / 2 } else { head_len + 4 };
                        net.raw_write(CLIENT, id, &valid[..cut]);
                        // let the server read (and buffer) the incomplete frame before the reset arrives
                        for _ in 0..6 {
                            yield_now().await;
                        }
                        net.raw_reset(CLIENT, id, 0x10c);
                    }
                    End::Malformed => {
                        let sec = rq::encode_literal_section(&[f(":method", b"GET"), f(":scheme", b"https"), f(":authority", b"a"), f(":path", b"/"), f("Upper", b"v")], false);
                        net.raw_write(CLIENT, id, &rf::frame(rf::HEADERS, &sec));
                        net.raw_fin(CLIENT, id);
                    }
                    End::Oversize => {
                        let sec = rq::encode_literal_section(&[f(":method", b"GET"), f(":scheme", b"https"), f(":authority", b"a"), f(":path", b"/"), f("big", &vec![b'z'; LIMIT as usize])], false);
                        net.raw_write(CLIENT, id, &rf::frame(rf::HEADERS, &sec));
                        net.raw_fin(CLIENT, id);
                    }
                    _ => {
                        net.raw_write(CLIENT, id, &valid);
                        net.raw_fin(CLIENT, id);
                    }
                }
                yield_now().await;
            }
        });
    }
    let mut fps = Vec::new();
    let q = {
        let (net, out) = (net.clone(), out.clone());
        ex.run(HORIZON, |_| {
            let mut h = Fnv::new();
            h.u64(net.fingerprint_light());
            let o = out.borrow();
            h.u64(o.accepts.len() as u64 | (o.handlers_done as u64) << 8 | (o.accept_pending as u64) << 16);
            fps.push(h.finish());
        })
    };
    let mut o = out.borrow().clone();
    o.goaway_delivered = {
        let g = net.lock();
        g.streams.get(&CLIENT_CTRL).map(|s| s.fwd.delivered == s.fwd.written.len()).unwrap_or(false)
    };
    o.close_calls = net.close_calls(SERVER).iter().map(|c| c.0).collect();
    o.panics = q.panics;
    o.horizon = q.horizon_hit;
    o.fps = fps;
    o
}

/// Scale boundary: `n` requests are handed out and held; after the peer's GOAWAY all of them are dropped in one
/// burst, i.e. between two polls of accept(). accept() must then answer "no more requests" (a bounded queue of
/// end-of-request notifications would lose some). One deterministic execution per n.
pub fn burst_run(n: usize) -> (Vec<String>, bool, usize, Vec<(String, String)>) {
    fastrand::seed(1);
    let net = Net::new(NetCfg::default());
    let mut ex = Exec::new();
    let accepts: Shared<Vec<String>> = shared(Vec::new());
    let pending = shared(false);
    let started = shared(0usize);
    let release = shared(false);
    {
        let (net2, sp, accepts, pending, started, release) = (net.clone(), ex.spawner(), accepts.clone(), pending.clone(), started.clone(), release.clone());
        ex.spawn("accept-loop", async move {
            let mut b = h3::server::builder();
            b.send_grease(false);
            let mut conn: SrvConn = match b.build(SimConn::new(&net2, SERVER)).await {
                Ok(c) => c,
                Err(_) => return,
            };
            loop {
                *pending.borrow_mut() = true;
                let r = conn.accept().await;
                *pending.borrow_mut() = false;
                match r {
                    Ok(Some(resolver)) => {
                        *started.borrow_mut() += 1;
                        let release = release.clone();
                        sp.spawn("holder", async move {
                            while !*release.borrow() {
                                yield_now().await;
                            }
                            drop(resolver);
                        });
                    }
                    Ok(None) => {
                        accepts.borrow_mut().push("none".into());
                        break;
                    }
                    Err(e) => {
                        accepts.borrow_mut().push(conn_class(&e));
                        break;
                    }
                }
            }
            std::future::pending::<()>().await;
            drop(conn);
        });
    }
    {
        let (net, started, release) = (net.clone(), started.clone(), release.clone());
        ex.spawn("script", async move {
            net.raw_open(CLIENT_CTRL);
            net.raw_write(CLIENT, CLIENT_CTRL, &control_preamble(&[]));
            for i in 0..n as u64 {
                net.raw_open(i * 4);
                net.raw_write(CLIENT, i * 4, &rf::frame(rf::HEADERS, REQ_SECTION));
                net.raw_fin(CLIENT, i * 4);
            }
            let mut spins = 0;
            while *started.borrow() < n && spins < 100 * n + 1000 {
                spins += 1;
                yield_now().await;
            }
            net.raw_write(CLIENT, CLIENT_CTRL, &rf::frame(rf::GOAWAY, &[0x00]));
            for _ in 0..8 {
                yield_now().await;
            }
            *release.borrow_mut() = true;
        });
    }
    let q = ex.run(400 * n + 20_000, |_| {});
    let a = accepts.borrow().clone();
    let p = *pending.borrow();
    let st = *started.borrow();
    (a, p, st, q.panics)
}

pub fn judge(case: &Case, o: &Outcome) -> Vec<(String, String)> {
    let ctx = format!("requests (by stream id / 4) ending {:?}, arriving in {} id order, peer GOAWAY{} before arrival #{}{}{}", case.ends, if case.reversed { "descending" } else { "ascending" }, if case.goaway_ids != [0] { format!(" (identifiers {:?}){}", case.goaway_ids, if case.grease_starved { ", grease stream starved" } else { "" }) } else if case.grease_starved { " (grease stream starved)".to_string() } else { String::new() }, case.goaway_at, if let Some(n) = case.local_shutdown { format!(", after the server's own shutdown({n})") } else { String::new() }, if case.goaway_split { ", GOAWAY frame in two pieces" } else if case.goaway_behind != 0 { ", GOAWAY in the same write behind a MAX_PUSH_ID / CANCEL_PUSH frame" } else { "" });
    let mut out = Vec::new();
    for (t, p) in &o.panics {
        out.push((format!("C09:panic@{}", explore::panics::short_loc(p)), format!("{ctx}: task {t} panicked: {p}")));
    }
    if o.horizon {
        out.push(("C09:livelock".into(), ctx.clone()));
        return out;
    }
    if !o.close_calls.is_empty() {
        out.push((format!("C09:connection-closed:{:#x}", o.close_calls[0]), format!("{ctx}: close calls {:x?}; accept results {:?}", o.close_calls, o.accepts)));
        return out;
    }
    let got_none = o.accepts.iter().any(|a| a == "none");
    // safety
    if let Some(live) = o.live_at_none {
        if live > 0 {
            out.push((
                "C09:no-more-requests-while-a-request-is-in-progress".into(),
                format!("{ctx}: accept() answered None while {live} handed-out request(s) were still held; accept results {:?}", o.accepts),
            ));
        }
    }
    // liveness (at quiescence): GOAWAY delivered, every handed-out request ended => None
    let all_ended = o.handlers_done == o.handlers_started;
    if o.goaway_delivered && all_ended && !got_none {
        // which ending kinds were handed out (for the signature): the first non-normal one
        let handed: Vec<End> = o.accepts.iter().filter_map(|a| a.strip_prefix("req:").and_then(|s| s.parse::<u64>().ok())).filter_map(|id| case.ends.get((id / 4) as usize).copied()).collect();
        let culprit = handed.iter().find(|e| **e != End::Normal).map(|e| format!("{e:?}")).unwrap_or_else(|| if handed.is_empty() { "no-request".into() } else { "Normal".into() });
        out.push((
            format!("C09:accept-never-ends:{culprit}"),
            format!("{ctx}: the peer's GOAWAY was delivered and all {} handed-out requests have ended, but accept() is still pending at quiescence; accept results {:?}", o.handlers_started, o.accepts),
        ));
    }
    if got_none && !o.goaway_delivered {
        out.push(("C09:no-more-requests-without-peer-shutdown".into(), format!("{ctx}: accept results {:?}", o.accepts)));
    }
    out
}

pub fn run(args: &Args) -> i32 {
    let thorough = args.tier == Tier::Thorough;
    let n = if thorough { 4 } else { 3 };
    let bound = 2;
    let mut rep = Report::new("C09", args.tier, args.seed, "model_checking");
    rep.exhaustive = true;
    rep.rule = format!(
        "0..{n} requests, each ending in one of {{normal finish, resolver dropped before resolve_request, FIN before HEADERS, RESET before HEADERS, RESET after HEADERS, RESET after half of the HEADERS frame / half of a DATA frame has been read, malformed headers, oversized headers, split into halves dropped send-first / recv-first, handler still running, response finished but the handle kept, split with the send half finished and dropped and the receive half kept}} (all {}^k assignments), the peer's GOAWAY injected before each request and after the last, requests arriving in ascending and in descending stream-ID order, the peer's GOAWAY carrying identifier 0, 0 twice, 3, 2^62-1, or 2^62-1 followed by 1 (client to server these are push ids; any value is legal), histories of <= 2 requests also after the server's own shutdown(3), with the GOAWAY frame arriving in two pieces (header, pause, payload), with the GOAWAY written in one piece behind a MAX_PUSH_ID or a CANCEL_PUSH frame (frames a server has nothing to do for), and with grease enabled and its unidirectional stream never granted by the peer, every execution with <= {bound} scheduling deviations among the accept loop, the handler tasks and the script. Oracle at quiescence: GOAWAY delivered and every handed-out request ended => accept() has returned Ok(None); accept() never returns Ok(None) while a handler still holds a request handle. states = distinct (transport, progress) fingerprints; non-trivial = cases with at least one request.",
        ENDS.len()
    );
    rep.assumptions = vec!["liveness is decided at quiescence of the closed world (no timers, nothing in flight), where 'still pending' means 'pending forever'".into()];
    rep.bound_note = format!("{n} requests, deviation bound {bound}");
    let mut cases: Vec<Case> = Vec::new();
    let mut combos: Vec<Vec<End>> = vec![vec![]];
    let mut frontier: Vec<Vec<End>> = vec![vec![]];
    for _ in 0..n {
        let mut next = Vec::new();
        for c in &frontier {
            for e in ENDS {
                let mut d = c.clone();
                d.push(e);
                next.push(d);
            }
        }
        combos.extend(next.iter().cloned());
        frontier = next;
    }
    for c in combos {
        for g in 0..=c.len() {
            cases.push(Case { ends: c.clone(), goaway_at: g, reversed: false, goaway_ids: vec![0], grease_starved: false, local_shutdown: None, goaway_split: false, goaway_behind: 0 });
            if c.len() >= 2 {
                cases.push(Case { ends: c.clone(), goaway_at: g, reversed: true, goaway_ids: vec![0], grease_starved: false, local_shutdown: None, goaway_split: false, goaway_behind: 0 });
            }
            if c.len() <= 2 {
                // the server's own shutdown(n) (n large enough to keep serving these requests) before the peer's GOAWAY
                cases.push(Case { ends: c.clone(), goaway_at: g, reversed: false, goaway_ids: vec![0], grease_starved: false, local_shutdown: Some(3), goaway_split: false, goaway_behind: 0 });
                cases.push(Case { ends: c.clone(), goaway_at: g, reversed: false, goaway_ids: vec![0], grease_starved: false, local_shutdown: None, goaway_split: true, goaway_behind: 0 });
                for behind in [rf::MAX_PUSH_ID, rf::CANCEL_PUSH] {
                    cases.push(Case { ends: c.clone(), goaway_at: g, reversed: false, goaway_ids: vec![0], grease_starved: false, local_shutdown: None, goaway_split: false, goaway_behind: behind });
                }
                cases.push(Case { ends: c.clone(), goaway_at: g, reversed: false, goaway_ids: vec![0], grease_starved: true, local_shutdown: None, goaway_split: false, goaway_behind: 0 });
                for ids in [vec![0, 0], vec![3], vec![(1 << 62) - 1], vec![(1 << 62) - 1, 1]] {
                    cases.push(Case { ends: c.clone(), goaway_at: g, reversed: false, goaway_ids: ids, grease_starved: false, local_shutdown: None, goaway_split: false, goaway_behind: 0 });
                }
            }
        }
    }
    let seed = args.seed;
    let deadline = std::time::Instant::now() + std::time::Duration::from_secs(if thorough { 1500 } else { 55 });
    let accs = explore::par::run(&cases, Acc::new, |_, case, acc| {
        let caps = Caps { deadline: Some(deadline), max_executions: 200_000, ..Caps::default() };
        let mut viol = ViolSet::new();
        let mut states: Vec<u64> = Vec::new();
        let mut outcomes: Vec<u64> = Vec::new();
        let st = dfs::explore(
            bound,
            &caps,
            || execute(case, seed),
            |e, o| {
                states.extend(o.fps.iter().copied());
                outcomes.push(explore::fnv_str(&format!("{:?}{:?}{}", o.accepts, o.live_at_none, o.accept_pending)));
                for (sig, msg) in judge(case, &o) {
                    viol.add(sig, msg, (e.cost, case.ends.len() * 100 + e.choices.len()), &e.choices);
                }
            },
        );
        if st.capped {
            acc.capped_cases += 1;
        }
        acc.dfs.merge(&st);
        acc.evaluations += st.executions;
        acc.states.extend(states);
        acc.outcomes.extend(outcomes);
        if !case.ends.is_empty() {
            acc.nontrivial.insert(explore::fnv_str(&format!("{case:?}")));
        }
        viol.drain_into(acc, |choices| json!({"ends": case.ends.iter().map(|e| format!("{e:?}")).collect::<Vec<_>>(), "goaway_at": case.goaway_at, "reversed": case.reversed, "goaway_ids": case.goaway_ids, "grease_starved": case.grease_starved, "local_shutdown": case.local_shutdown, "goaway_split": case.goaway_split, "goaway_behind": case.goaway_behind, "choices": choices, "seed": seed}));
    });
    let mut total = Acc::new();
    for a in accs {
        total.merge(a);
    }
    // burst scenarios
    for n in if thorough { vec![64usize, 129, 200, 1000] } else { vec![129usize, 200] } {
        total.evaluations += 1;
        let (accepts, pending, started, panics) = burst_run(n);
        let ok = started == n && accepts == ["none"] && !pending && panics.is_empty();
        if !ok {
            total.violation(
                format!("C09:burst:accept-never-ends"),
                format!("{n} requests handed out and held, peer GOAWAY, then all {n} dropped in one burst: accept() results {accepts:?}, still pending {pending}, handed out {started}, panics {panics:?}"),
                (0, n),
                || json!({"kind":"burst","n":n}),
            );
        }
    }
    total.count("burst_scenarios", if thorough { 4 } else { 2 });
    total.count("cases", cases.len() as u64);
    for i in [1, cases.len() / 2, cases.len() - 1] {
        total.samples.push(json!(format!("{:?}", cases[i])));
    }
    rep.finish(total)
}

pub fn replay(r: &Value) -> i32 {
    if r["kind"] == "burst" {
        let n = r["n"].as_u64().unwrap() as usize;
        let (accepts, pending, started, panics) = burst_run(n);
        println!("burst of {n}: accept() results {accepts:?}, still pending {pending}, handed out {started}, panics {panics:?}");
        if started == n && accepts == ["none"] && !pending && panics.is_empty() {
            println!("observed: no violation");
            return 0;
        }
        println!("observed: C09:burst:accept-never-ends: accept() results {accepts:?}, still pending {pending}");
        return 1;
    }
    let case = Case {
        ends: r["ends"].as_array().unwrap().iter().map(|s| *ENDS.iter().find(|e| format!("{e:?}") == s.as_str().unwrap()).unwrap()).collect(),
        goaway_at: r["goaway_at"].as_u64().unwrap() as usize,
        reversed: r["reversed"].as_bool().unwrap_or(false),
        grease_starved: r["grease_starved"].as_bool().unwrap_or(false),
        local_shutdown: r["local_shutdown"].as_u64().map(|v| v as usize),
        goaway_split: r["goaway_split"].as_bool().unwrap_or(false),
        goaway_behind: r["goaway_behind"].as_u64().unwrap_or(0),
        goaway_ids: match r["goaway_ids"].as_array() {
            Some(a) => a.iter().map(|v| v.as_u64().unwrap()).collect(),
            None => if r["goaway_twice"].as_bool().unwrap_or(false) { vec![0, 0] } else { vec![0] },
        },
    };
    let seed = r["seed"].as_u64().unwrap_or(0);
    let choices: Vec<u32> = r["choices"].as_array().unwrap().iter().map(|v| v.as_u64().unwrap() as u32).collect();
    println!("case: {case:?} choices {choices:?}");
    let (o1, _, d1) = dfs::replay(&choices, || execute(&case, seed));
    let (o2, _, d2) = dfs::replay(&choices, || execute(&case, seed));
    if let Some(d) = d1.or(d2) {
        println!("REPLAY DIVERGED: {d}");
        return 2;
    }
    if o1 != o2 {
        println!("REPLAY NOT DETERMINISTIC");
        return 2;
    }
    println!("outcome: {:?}", Outcome { fps: vec![], ..o1.clone() });
    let v = judge(&case, &o1);
    for (sig, msg) in &v {
        println!("observed: {sig}: {msg}");
    }
    if v.is_empty() {
        println!("observed: no violation");
        0
    } else {
        1
    }
}
