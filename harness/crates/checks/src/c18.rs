//! C18 — HTTP Datagrams carry their stream ID and payload unchanged.
//!
//! (a) encode: every stream id 4k (k < 2^16 and every varint form boundary) x payload lengths x
//!     EVERY consumption program over the encoded `Buf` (chunk/advance(1), advance(chunk),
//!     skip(k), copy_to_slice(2), copy_to_bytes(all)) against `refimpl::datagram`;
//! (b) decode: all byte strings up to 2 (3) bytes, every boundary varint in every form + payload,
//!     every truncation; error code must be H3_DATAGRAM_ERROR;
//! (c) the same through DatagramSender / DatagramReader of a real connection over simnet.

use crate::common::guard;
use crate::scen::*;
use crate::Args;
use bytes::{Buf, Bytes};
use explore::report::{Acc, Report, Tier};
use explore::{hex, Fnv};
use h3::error::internal_error::InternalConnectionError;
use h3::error::LocalError;
use h3::quic::StreamId;
use h3_datagram::datagram::Datagram;
use h3_datagram::datagram_handler::HandleDatagramsExt;
use refimpl::datagram as rd;
use serde_json::{json, Value};
use simnet::exec::yield_now;
use simnet::{Exec, Net, NetCfg, SimConn, CLIENT, SERVER};
use std::convert::TryFrom;

fn payload(len: usize) -> Vec<u8> {
    // position coded; the first bytes look like a varint of another form
    (0..len).map(|i| (0xc1u8).wrapping_add((i as u8).wrapping_mul(37))).collect()
}

#[derive(Clone, Copy, Debug, PartialEq, Eq)]
enum Op {
    /// read chunk()[0], advance(1)
    Byte,
    /// read the whole chunk(), advance(chunk.len())
    Chunk,
    /// advance(k) without looking
    Skip(usize),
    /// copy_to_slice into a 2-byte array
    Slice2,
    /// copy_to_bytes(remaining())
    All,
    /// copy_to_bytes(k) for a k below remaining() (may end inside the header)
    Bytes(usize),
    /// get_u8()
    GetU8,
}

/// Runs `prog` (then `Chunk` until drained). Returns bytes by offset (None = skipped) and the
/// `remaining()` value seen before every step.
fn consume(id: u64, p: &[u8], prog: &[Op]) -> Result<(Vec<Option<u8>>, Vec<usize>), String> {
    guard(|| {
        let d = Datagram::new(StreamId::try_from(id).unwrap(), Bytes::copy_from_slice(p));
        let mut e = d.encode();
        let mut out: Vec<Option<u8>> = Vec::new();
        let mut rems = Vec::new();
        let mut pc = 0;
        let mut guard_steps = 0;
        while e.has_remaining() {
            guard_steps += 1;
            if guard_steps > 10_000 {
                panic!("consumption does not terminate");
            }
            rems.push(e.remaining());
            let op = if pc < prog.len() { prog[pc] } else { Op::Chunk };
            pc += 1;
            match op {
                Op::Byte => {
                    let c = e.chunk();
                    if c.is_empty() {
                        panic!("remaining() = {} but chunk() is empty", e.remaining());
                    }
                    out.push(Some(c[0]));
                    e.advance(1);
                }
                Op::Chunk => {
                    let c = e.chunk().to_vec();
                    if c.is_empty() {
                        panic!("remaining() = {} but chunk() is empty", e.remaining());
                    }
                    out.extend(c.iter().map(|b| Some(*b)));
                    e.advance(c.len());
                }
                Op::Skip(k) => {
                    let k = k.min(e.remaining());
                    out.extend(std::iter::repeat(None).take(k));
                    e.advance(k);
                }
                Op::Slice2 => {
                    if e.remaining() >= 2 {
                        let mut a = [0u8; 2];
                        e.copy_to_slice(&mut a);
                        out.extend(a.iter().map(|b| Some(*b)));
                    } else {
                        let c = e.chunk()[0];
                        out.push(Some(c));
                        e.advance(1);
                    }
                }
                Op::All => {
                    let n = e.remaining();
                    let b = e.copy_to_bytes(n);
                    out.extend(b.iter().map(|b| Some(*b)));
                }
                Op::Bytes(k) => {
                    let k = k.min(e.remaining());
                    let b = e.copy_to_bytes(k);
                    if b.len() != k {
                        panic!("copy_to_bytes({k}) returned {} bytes", b.len());
                    }
                    out.extend(b.iter().map(|b| Some(*b)));
                }
                Op::GetU8 => out.push(Some(e.get_u8())),
            }
        }
        rems.push(e.remaining());
        (out, rems)
    })
}

fn programs(depth: usize) -> Vec<Vec<Op>> {
    let ops = [Op::Byte, Op::Chunk, Op::Skip(1), Op::Skip(2), Op::Skip(3), Op::Slice2, Op::All, Op::Bytes(1), Op::Bytes(3), Op::GetU8];
    let mut out: Vec<Vec<Op>> = vec![vec![]];
    let mut frontier: Vec<Vec<Op>> = vec![vec![]];
    for _ in 0..depth {
        let mut next = Vec::new();
        for p in &frontier {
            for op in ops {
                if p.last() == Some(&Op::All) {
                    continue;
                }
                let mut q = p.clone();
                q.push(op);
                next.push(q);
            }
        }
        out.extend(next.iter().cloned());
        frontier = next;
    }
    out
}

fn check_encode(id: u64, plen: usize, progs: &[Vec<Op>], acc: &mut Acc) {
    let p = payload(plen);
    let want = rd::encode(id, &p).expect("id is 4k");
    let form = want.len() - p.len();
    for prog in progs {
        acc.evaluations += 1;
        acc.transitions += prog.len() as u64 + 1;
        let rep = || json!({"kind":"encode","id":id.to_string(),"payload_len":plen,"program":format!("{prog:?}")});
        match consume(id, &p, prog) {
            Err(panic) => acc.violation(
                format!("C18:encode-panic:form={form}"),
                format!("stream {id}, payload {plen} B, program {prog:?}: {panic}"),
                (prog.len(), plen),
                rep,
            ),
            Ok((got, rems)) => {
                let same_len = got.len() == want.len();
                let same = same_len && got.iter().zip(&want).all(|(g, w)| g.map(|g| g == *w).unwrap_or(true));
                if !same {
                    let gb: String = got.iter().map(|g| g.map(|b| format!("{b:02x}")).unwrap_or("..".into())).collect();
                    let where_ = if !same_len {
                        "length"
                    } else if got.iter().zip(&want).take(form).any(|(g, w)| g.map(|g| g != *w).unwrap_or(false)) {
                        "quarter-stream-id"
                    } else {
                        "payload"
                    };
                    acc.violation(
                        format!("C18:encode-bytes-wrong:{where_}:form={form}"),
                        format!("stream {id}, payload {plen} B consumed by {prog:?}: wire bytes {gb}, RFC 9297: {}", hex(&want)),
                        (prog.len(), plen + (id != 0) as usize),
                        rep,
                    );
                }
                // remaining() must count down consistently
                let mut consumed = 0usize;
                let mut ok = rems.first() == Some(&want.len());
                for (i, w) in rems.windows(2).enumerate() {
                    if w[1] > w[0] {
                        ok = false;
                    }
                    consumed += w[0] - w[1];
                    let _ = i;
                }
                if !ok || consumed != want.len() {
                    acc.violation(
                        format!("C18:encode-remaining-inconsistent:form={form}"),
                        format!("stream {id}, payload {plen} B, program {prog:?}: remaining() sequence {rems:?}, encoded length {}", want.len()),
                        (prog.len(), plen),
                        rep,
                    );
                }
            }
        }
    }
    // decode(encode) = id
    acc.evaluations += 1;
    let r = guard(|| {
        let d = Datagram::new(StreamId::try_from(id).unwrap(), Bytes::copy_from_slice(&p));
        let mut e = d.encode();
        let wire = e.copy_to_bytes(e.remaining());
        Datagram::decode(wire).map(|d| (d.stream_id().into_inner(), d.payload().to_vec())).map_err(|e| format!("{e:?}"))
    });
    match r {
        Ok(Ok((i, pl))) if i == id && pl == p => {}
        other => acc.violation(
            format!("C18:roundtrip:form={form}"),
            format!("decode(encode(stream {id}, {plen} B)) = {other:?}"),
            (0, plen + (id != 0) as usize),
            || json!({"kind":"encode","id":id.to_string(),"payload_len":plen,"program":"[]"}),
        ),
    }
    let mut h = Fnv::new();
    h.u64(id);
    h.u64(plen as u64);
    if form > 1 || plen > 0 {
        acc.nontrivial.insert(h.finish());
    }
    acc.states.insert(h.finish());
    acc.outcomes.insert(form as u64);
}

fn code_of(e: InternalConnectionError) -> u64 {
    match LocalError::from(e) {
        LocalError::Application { code, .. } => code.value(),
        _ => u64::MAX,
    }
}

fn check_decode(input: &[u8], acc: &mut Acc) {
    acc.evaluations += 1;
    let want = rd::decode(input);
    let rep = || json!({"kind":"decode","input":hex(input)});
    let got = guard(|| match Datagram::decode(Bytes::copy_from_slice(input)) {
        Ok(d) => Ok((d.stream_id().into_inner(), d.payload().to_vec())),
        Err(e) => Err(code_of(e)),
    });
    let mut h = Fnv::new();
    match (got, want) {
        (Err(p), _) => acc.violation("C18:decode-panic", format!("decode({}) panicked: {p}", hex(input)), (0, input.len()), rep),
        (Ok(Ok((id, pl))), Ok((wid, wpl))) => {
            h.str("ok");
            if id != wid || pl != wpl {
                acc.violation(
                    "C18:decode-wrong-value",
                    format!("decode({}) = stream {id}, payload {}; RFC 9297: stream {wid}, payload {}", hex(input), hex(&pl), hex(wpl)),
                    (0, input.len()),
                    rep,
                );
            }
        }
        (Ok(Err(code)), Err(e)) => {
            h.str(&format!("{e:?}"));
            if code != refimpl::h3auto::H3_DATAGRAM_ERROR {
                acc.violation(
                    format!("C18:decode-wrong-code:{e:?}"),
                    format!("decode({}) rejected with {code:#x}, expected H3_DATAGRAM_ERROR (0x33)", hex(input)),
                    (0, input.len()),
                    rep,
                );
            }
        }
        (Ok(Ok((id, _))), Err(e)) => acc.violation(
            format!("C18:decode-accepts-invalid:{e:?}"),
            format!("decode({}) accepted as stream {id}; reference: {e:?}", hex(input)),
            (0, input.len()),
            rep,
        ),
        (Ok(Err(code)), Ok((wid, _))) => acc.violation(
            "C18:decode-rejects-valid",
            format!("decode({}) rejected with {code:#x}; reference: stream {wid}", hex(input)),
            (0, input.len()),
            rep,
        ),
    }
    acc.outcomes.insert(h.finish() ^ 0x99);
    if input.len() >= 2 {
        let mut f = Fnv::new();
        f.bytes(input);
        acc.nontrivial.insert(f.finish());
    }
}

fn decode_inputs(thorough: bool) -> Vec<Vec<u8>> {
    let mut v: Vec<Vec<u8>> = vec![vec![]];
    let maxlen = if thorough { 3 } else { 2 };
    let mut cur: Vec<Vec<u8>> = vec![vec![]];
    for _ in 0..maxlen {
        let mut next = Vec::new();
        for s in &cur {
            for b in 0..=255u8 {
                let mut t = s.clone();
                t.push(b);
                next.push(t);
            }
        }
        v.extend(next.iter().cloned());
        cur = next;
    }
    let top = (1u64 << 60) - 1;
    let mut qs = vec![0u64, 1, 62, 63, 64, 65, 16382, 16383, 16384, 16385, (1 << 30) - 1, 1 << 30, (1 << 30) + 1, top - 1, top, top + 1, top + 2, (1 << 61), (1u64 << 62) - 1];
    qs.dedup();
    for q in qs {
        for enc in refimpl::varint::all_forms(q) {
            for cut in 0..enc.len() {
                v.push(enc[..cut].to_vec());
            }
            for tail in [&[][..], &[0x00][..], &[0xff, 0x40, 0x01][..]] {
                let mut e = enc.clone();
                e.extend_from_slice(tail);
                v.push(e);
            }
        }
    }
    v.sort();
    v.dedup();
    v
}

// ---- (c) through a real connection over simnet ---------------------------------------------------

#[derive(Debug, Clone, PartialEq, Eq, Default)]
struct ConnOutcome {
    sent_wire: Vec<Vec<u8>>,
    send_results: Vec<String>,
    read_results: Vec<String>,
    close_calls: Vec<u64>,
    panics: Vec<(String, String)>,
}

fn conn_run(role_server: bool, ids: &[u64], plen: usize, incoming: &[Vec<u8>]) -> ConnOutcome {
    fastrand::seed(1);
    let net = Net::new(NetCfg::default());
    let mut ex = Exec::new();
    let out = shared(ConnOutcome::default());
    let (me, peer) = if role_server { (SERVER, CLIENT) } else { (CLIENT, SERVER) };
    {
        let (net, out, ids, incoming_n) = (net.clone(), out.clone(), ids.to_vec(), incoming.len());
        ex.spawn("main", async move {
            let p = Bytes::from(payload(plen));
            macro_rules! body {
                ($conn:expr) => {{
                    for id in &ids {
                        let mut s = $conn.get_datagram_sender(StreamId::try_from(*id).unwrap());
                        let r = s.send_datagram(p.clone());
                        out.borrow_mut().send_results.push(match r {
                            Ok(()) => "ok".into(),
                            Err(e) => format!("{e}"),
                        });
                    }
                    let mut rd = $conn.get_datagram_reader();
                    for _ in 0..incoming_n {
                        let r = rd.read_datagram().await;
                        out.borrow_mut().read_results.push(match r {
                            Ok(d) => format!("ok:{}:{}", d.stream_id().into_inner(), hex(d.payload())),
                            Err(e) => stream_class(&e),
                        });
                    }
                }};
            }
            if role_server {
                let mut b = h3::server::builder();
                b.send_grease(false).enable_datagram(true);
                let conn: SrvConn = b.build(SimConn::new(&net, SERVER)).await.unwrap();
                body!(conn);
                std::future::pending::<()>().await;
                drop(conn);
            } else {
                let mut b = h3::client::builder();
                b.send_grease(false).enable_datagram(true);
                let (conn, sr): (CliConn, CliSend) = b.build(SimConn::new(&net, CLIENT)).await.unwrap();
                body!(conn);
                std::future::pending::<()>().await;
                drop((conn, sr));
            }
        });
    }
    {
        let (net, incoming) = (net.clone(), incoming.to_vec());
        ex.spawn("script", async move {
            for d in incoming {
                net.raw_datagram(me, &d);
                yield_now().await;
            }
        });
    }
    let q = ex.run(2000, |_| {});
    let mut o = out.borrow().clone();
    o.sent_wire = net.lock().sides[me].datagrams_sent.clone();
    o.close_calls = net.close_calls(me).iter().map(|c| c.0).collect();
    o.panics = q.panics;
    let _ = peer;
    o
}

fn check_conn(role_server: bool, ids: &[u64], plen: usize, incoming: &[Vec<u8>], acc: &mut Acc) {
    acc.evaluations += 1;
    let role = if role_server { "server" } else { "client" };
    let o = conn_run(role_server, ids, plen, incoming);
    let rep = || json!({"kind":"conn","server":role_server,"ids":ids.iter().map(|i| i.to_string()).collect::<Vec<_>>(),"payload_len":plen,"incoming":incoming.iter().map(|d| hex(d)).collect::<Vec<_>>()});
    for (t, p) in &o.panics {
        acc.violation(format!("C18:conn:{role}:panic"), format!("task {t}: {p}"), (0, 0), rep);
    }
    let p = payload(plen);
    for (i, id) in ids.iter().enumerate() {
        let want = rd::encode(*id, &p).unwrap();
        match o.sent_wire.get(i) {
            Some(w) if *w == want => {}
            other => acc.violation(
                format!("C18:conn:{role}:sent-bytes-wrong:form={}", want.len() - p.len()),
                format!("{role} send_datagram(stream {id}, {plen} B) put {:?} on the wire, RFC 9297: {}", other.map(|w| hex(w)), hex(&want)),
                (0, plen + (*id != 0) as usize),
                rep,
            ),
        }
    }
    let mut expect_close: Option<u64> = None;
    for (i, d) in incoming.iter().enumerate() {
        let got = o.read_results.get(i).cloned().unwrap_or_else(|| "pending".into());
        if expect_close.is_some() {
            break;
        }
        match rd::decode(d) {
            Ok((id, pl)) => {
                let want = format!("ok:{id}:{}", hex(pl));
                if got != want {
                    acc.violation(format!("C18:conn:{role}:read-wrong"), format!("datagram {} read as {got}, expected {want}", hex(d)), (0, d.len()), rep);
                }
            }
            Err(e) => {
                let want = format!("Conn:Local({:#x})", refimpl::h3auto::H3_DATAGRAM_ERROR);
                if got != want {
                    acc.violation(
                        format!("C18:conn:{role}:invalid-datagram:{e:?}:got={got}"),
                        format!("invalid datagram {} ({e:?}) read as {got}, expected {want}", hex(d)),
                        (0, d.len()),
                        rep,
                    );
                }
                expect_close = Some(refimpl::h3auto::H3_DATAGRAM_ERROR);
            }
        }
    }
    let mut h = Fnv::new();
    h.str(&format!("{o:?}"));
    acc.outcomes.insert(h.finish());
    acc.states.insert(h.finish());
}

pub fn run(args: &Args) -> i32 {
    // the deeper parameter set is cheap enough (seconds) to be the quick tier as well
    let thorough = true;
    let _ = Tier::Thorough;
    let mut rep = Report::new("C18", args.tier, args.seed, "exploration");
    rep.exhaustive = true;
    let depth = if thorough { 5 } else { 4 };
    rep.rule = format!("(a) stream ids 4k for all k < 2^16 plus every varint form boundary of k (63/64, 16383/16384, 2^30-1/2^30, 2^60-1) x payload lengths {{0,1,2,7,8,9}} (and 1200/1500 for boundary ids) x every consumption program of depth <= {depth} over 10 Buf operations (byte, chunk, advance 1/2/3, copy_to_slice, copy_to_bytes of everything / 1 / 3 bytes, get_u8) (all programs for boundary ids, 3 canonical programs for the dense id sweep); (b) decode of all byte strings of <= {} bytes, every form (minimal or padded) of every boundary quarter id with trailing payload, every truncation; (c) DatagramSender/DatagramReader of a real server and client connection over simnet. Oracle refimpl::datagram. Non-trivial = multi-byte varint form or non-empty payload.", if thorough { 3 } else { 2 });
    rep.assumptions = vec!["refimpl::datagram transcribes RFC 9297 2.1 (unit-tested)".into(), "payload bytes are position-coded; the codec never branches on payload bytes".into()];
    rep.bound_note = "exhaustive over the stated finite sets".into();
    let progs_all = programs(depth);
    let progs_few: Vec<Vec<Op>> = vec![vec![], vec![Op::All], vec![Op::Byte, Op::Byte, Op::Byte, Op::Byte], vec![Op::Bytes(1)], vec![Op::GetU8, Op::Bytes(3)]];
    let top = (1u64 << 60) - 1;
    let boundary_k: Vec<u64> = vec![0, 1, 2, 62, 63, 64, 65, 16382, 16383, 16384, 16385, (1 << 30) - 1, 1 << 30, (1 << 30) + 1, top - 1, top];
    // dense sweep
    let ks: Vec<u64> = (0..65536u64).collect();
    let chunks: Vec<&[u64]> = ks.chunks(1024).collect();
    let mut accs = explore::par::run(&chunks, Acc::new, |_, c, acc| {
        for &k in *c {
            for plen in [0usize, 1, 9] {
                check_encode(4 * k, plen, &progs_few, acc);
            }
        }
    });
    let bcases: Vec<(u64, usize)> = boundary_k.iter().flat_map(|&k| [0usize, 1, 2, 7, 8, 9].into_iter().map(move |p| (k, p))).collect();
    accs.extend(explore::par::run(&bcases, Acc::new, |_, (k, plen), acc| {
        check_encode(4 * k, *plen, &progs_all, acc);
    }));
    let big: Vec<(u64, usize)> = boundary_k.iter().flat_map(|&k| [1200usize, 1500].into_iter().map(move |p| (k, p))).collect();
    accs.extend(explore::par::run(&big, Acc::new, |_, (k, plen), acc| {
        check_encode(4 * k, *plen, &programs(2), acc);
    }));
    let inputs = decode_inputs(thorough);
    let chunks: Vec<&[Vec<u8>]> = inputs.chunks(4096).collect();
    accs.extend(explore::par::run(&chunks, Acc::new, |_, c, acc| {
        for i in *c {
            check_decode(i, acc);
        }
    }));
    // (c)
    let mut conn_cases: Vec<(bool, Vec<u64>, usize, Vec<Vec<u8>>)> = Vec::new();
    for server in [true, false] {
        for ids in [vec![0u64], vec![4], vec![4, 8, 256], vec![65536 * 4, ((1u64 << 30) - 1) * 4, top * 4]] {
            for plen in [0usize, 3, 1200] {
                conn_cases.push((server, ids.clone(), plen, vec![]));
            }
        }
        let good = rd::encode(8, b"hey").unwrap();
        let good2 = rd::encode(top * 4, b"").unwrap();
        conn_cases.push((server, vec![], 0, vec![good.clone(), good2.clone()]));
        conn_cases.push((server, vec![], 0, vec![good.clone(), vec![0x40]]));
        conn_cases.push((server, vec![], 0, vec![vec![]]));
        conn_cases.push((server, vec![], 0, vec![vec![0xd0, 0, 0, 0, 0, 0, 0, 0, 1]]));
        conn_cases.push((server, vec![4], 2, vec![good2, vec![0xff, 0xff, 0xff, 0xff, 0xff, 0xff, 0xff, 0xff]]));
    }
    accs.extend(explore::par::run(&conn_cases, Acc::new, |_, (s, ids, plen, inc), acc| {
        check_conn(*s, ids, *plen, inc, acc);
    }));
    let mut total = Acc::new();
    for a in accs {
        total.merge(a);
    }
    total.count("consumption_programs", progs_all.len() as u64);
    total.count("decode_inputs", inputs.len() as u64);
    total.sample(|| json!({"encode":{"stream_id":"260","payload_len":2,"program":"[Byte, Skip(1), Slice2]"},"reference_bytes":hex(&rd::encode(260, &payload(2)).unwrap())}));
    total.sample(|| json!({"decode":"d000000000000000","reference":"quarter stream id 2^60 -> H3_DATAGRAM_ERROR"}));
    total.sample(|| json!({"connection":"server","send_datagram":{"stream_ids":["4","8","256"],"payload_len":3}}));
    rep.finish(total)
}

pub fn replay(r: &Value) -> i32 {
    let mut acc = Acc::new();
    match r["kind"].as_str() {
        Some("encode") => {
            let id: u64 = r["id"].as_str().unwrap().parse().unwrap();
            let plen = r["payload_len"].as_u64().unwrap() as usize;
            let want = r["program"].as_str().unwrap();
            let progs: Vec<Vec<Op>> = programs(5).into_iter().filter(|p| format!("{p:?}") == want).collect();
            println!("encode stream {id}, payload {} consumed by {want}", hex(&payload(plen)));
            println!("reference wire bytes: {}", hex(&rd::encode(id, &payload(plen)).unwrap()));
            check_encode(id, plen, &progs, &mut acc);
        }
        Some("decode") => check_decode(&explore::unhex(r["input"].as_str().unwrap()), &mut acc),
        Some("conn") => {
            let ids: Vec<u64> = r["ids"].as_array().unwrap().iter().map(|v| v.as_str().unwrap().parse().unwrap()).collect();
            let inc: Vec<Vec<u8>> = r["incoming"].as_array().unwrap().iter().map(|v| explore::unhex(v.as_str().unwrap())).collect();
            check_conn(r["server"].as_bool().unwrap(), &ids, r["payload_len"].as_u64().unwrap() as usize, &inc, &mut acc);
        }
        _ => return 2,
    }
    for (sig, v) in &acc.violations {
        println!("observed: {sig}: {}", v.what);
    }
    if acc.violations.is_empty() {
        println!("observed: no violation");
        0
    } else {
        1
    }
}
