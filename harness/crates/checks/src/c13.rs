//! C13 — SETTINGS are sent, parsed and applied exactly, for every configuration.
//!
//! Send side: every builder configuration (booleans x size values incl. >= 2^62 x grease x
//! fastrand seeds x write acceptance) is built over simnet; the local control stream's wire log
//! is parsed by refimpl. Receive side: every entry sequence up to length 3 over 15 identifiers x
//! values x varint forms, truncated at every byte, whole and per byte, is sent to a real client
//! and server; errors and the applied values (observed by behaviour) are compared with refimpl.

use crate::scen::*;
use crate::Args;
use explore::report::{Acc, Report, Tier};
use explore::{hex, Fnv};
use h3::ConnectionState;
use refimpl::frames as rf;
use refimpl::h3auto::{self as auto, Endpoint};
use refimpl::settings as rs;
use refimpl::varint;
use serde_json::{json, Value};
use simnet::exec::yield_now;
use simnet::{Exec, Net, NetCfg, Policy, SimConn, CLIENT, SERVER};
use std::sync::Arc;

// ------------------------------------------------------------------------------------------------
// send side

#[derive(Clone, Debug, PartialEq, Eq)]
pub struct Cfg {
    pub server: bool,
    pub max_field_section_size: Option<u64>,
    pub max_webtransport_sessions: Option<u64>,
    pub enable_webtransport: bool,
    pub enable_extended_connect: bool,
    pub enable_datagram: bool,
    pub grease: bool,
    pub seed: u64,
    pub write_per_byte: bool,
}

#[derive(Debug, Clone, Default, PartialEq, Eq)]
pub struct SendOutcome {
    pub build: String,
    pub wire: Vec<u8>,
    pub close_calls: Vec<u64>,
    pub panics: Vec<(String, String)>,
    pub horizon: bool,
}

pub fn build_run(c: &Cfg) -> SendOutcome {
    fastrand::seed(c.seed);
    let mut cfg = NetCfg::default();
    if c.write_per_byte {
        cfg.write = Policy::PerByte;
    }
    let net = Net::new(cfg);
    let mut ex = Exec::new();
    let res = shared(String::new());
    {
        let (net, c, res) = (net.clone(), c.clone(), res.clone());
        ex.spawn("main", async move {
            if c.server {
                let mut b = h3::server::builder();
                if let Some(v) = c.max_field_section_size {
                    b.max_field_section_size(v);
                }
                if let Some(v) = c.max_webtransport_sessions {
                    b.max_webtransport_sessions(v);
                }
                b.enable_webtransport(c.enable_webtransport)
                    .enable_extended_connect(c.enable_extended_connect)
                    .enable_datagram(c.enable_datagram)
                    .send_grease(c.grease);
                let r: Result<SrvConn, _> = b.build(SimConn::new(&net, SERVER)).await;
                *res.borrow_mut() = match &r {
                    Ok(_) => "ok".into(),
                    Err(e) => conn_class(e),
                };
                std::future::pending::<()>().await;
                drop(r);
            } else {
                let mut b = h3::client::builder();
                if let Some(v) = c.max_field_section_size {
                    b.max_field_section_size(v);
                }
                b.enable_extended_connect(c.enable_extended_connect).enable_datagram(c.enable_datagram).send_grease(c.grease);
                let r: Result<(CliConn, CliSend), _> = b.build(SimConn::new(&net, CLIENT)).await;
                *res.borrow_mut() = match &r {
                    Ok(_) => "ok".into(),
                    Err(e) => conn_class(e),
                };
                std::future::pending::<()>().await;
                drop(r);
            }
        });
    }
    let q = ex.run(5000, |_| {});
    let me = if c.server { SERVER } else { CLIENT };
    let ctrl = if c.server { SERVER_CTRL } else { CLIENT_CTRL };
    let build = res.borrow().clone();
    SendOutcome {
        build,
        wire: net.wire(me, ctrl),
        close_calls: net.close_calls(me).iter().map(|c| c.0).collect(),
        panics: q.panics,
        horizon: q.horizon_hit,
    }
}

fn cfg_str(c: &Cfg) -> String {
    format!(
        "{} builder(max_field_section_size={:?}, max_webtransport_sessions={:?}, webtransport={}, extended_connect={}, datagram={}, grease={}, seed={}, writes {})",
        if c.server { "server" } else { "client" },
        c.max_field_section_size,
        c.max_webtransport_sessions,
        c.enable_webtransport,
        c.enable_extended_connect,
        c.enable_datagram,
        c.grease,
        c.seed,
        if c.write_per_byte { "1 byte at a time" } else { "whole" }
    )
}

const VARINT_MAX: u64 = (1 << 62) - 1;

pub fn judge_send(c: &Cfg, o: &SendOutcome) -> Vec<(String, String)> {
    let role = if c.server { "server" } else { "client" };
    let cs = cfg_str(c);
    let mut out = Vec::new();
    for (t, p) in &o.panics {
        out.push((format!("C13:send:{role}:setup-panic@{}", explore::panics::short_loc(p)), format!("{cs}: task {t} panicked: {p}")));
    }
    if !o.panics.is_empty() {
        return out;
    }
    if o.horizon {
        out.push((format!("C13:send:{role}:setup-livelock"), format!("{cs}: setup still runnable after 5000 polls")));
        return out;
    }
    let unrepresentable = c.max_field_section_size.map(|v| v > VARINT_MAX).unwrap_or(false) || c.max_webtransport_sessions.map(|v| v > VARINT_MAX).unwrap_or(false);
    if o.build != "ok" {
        if unrepresentable && !o.build.is_empty() {
            // a clean refusal of a value that no varint can carry is accepted; nothing malformed
            // may have been written though
            if !o.wire.is_empty() {
                let (frames, _) = rf::segment(&o.wire[1.min(o.wire.len())..]);
                for f in frames {
                    if f.ty == rf::SETTINGS && rs::parse(&f.payload).is_err() {
                        out.push((format!("C13:send:{role}:malformed-settings-on-refusal"), format!("{cs}: refused, but wrote {}", hex(&o.wire))));
                    }
                }
            }
            return out;
        }
        out.push((
            format!("C13:send:{role}:setup-failed:{}", if o.build.is_empty() { "never-completed" } else { &o.build }),
            format!("{cs}: setup did not complete: {:?}", o.build),
        ));
        return out;
    }
    // ---- the control stream log
    if o.wire.first() != Some(&0x00) {
        out.push((format!("C13:send:{role}:control-stream-type"), format!("{cs}: control stream starts with {}", hex(&o.wire[..o.wire.len().min(4)]))));
        return out;
    }
    let (frames, tail) = rf::segment(&o.wire[1..]);
    let settings: Vec<&rf::Frame> = frames.iter().filter(|f| f.ty == rf::SETTINGS).collect();
    if tail != rf::Tail::Clean || frames.first().map(|f| f.ty) != Some(rf::SETTINGS) || settings.len() != 1 {
        out.push((
            format!("C13:send:{role}:not-exactly-one-settings-first"),
            format!("{cs}: control stream {} parses to frame types {:?}, tail {tail:?}", hex(&o.wire), frames.iter().map(|f| f.ty).collect::<Vec<_>>()),
        ));
        return out;
    }
    let entries = match rs::entries(&settings[0].payload) {
        Ok(e) => e,
        Err(e) => {
            out.push((format!("C13:send:{role}:settings-payload-malformed"), format!("{cs}: SETTINGS payload {} : {e:?}", hex(&settings[0].payload))));
            return out;
        }
    };
    for (i, (id, _)) in entries.iter().enumerate() {
        if entries[..i].iter().any(|(j, _)| j == id) {
            out.push((format!("C13:send:{role}:identifier-twice"), format!("{cs}: identifier {id:#x} listed twice in {entries:x?}")));
        }
        if rs::is_h2_reserved(*id) {
            out.push((format!("C13:send:{role}:h2-reserved-identifier:{id:#x}"), format!("{cs}: HTTP/2-reserved identifier {id:#x} sent: {entries:x?}")));
        }
    }
    let known = [rs::QPACK_MAX_TABLE_CAPACITY, rs::MAX_FIELD_SECTION_SIZE, rs::QPACK_BLOCKED_STREAMS, rs::ENABLE_CONNECT_PROTOCOL, rs::H3_DATAGRAM, rs::ENABLE_WEBTRANSPORT, rs::WEBTRANSPORT_MAX_SESSIONS];
    let others: Vec<u64> = entries.iter().map(|e| e.0).filter(|i| !known.contains(i) && !rs::is_h2_reserved(*i)).collect();
    for id in &others {
        if !rs::is_grease(*id) {
            out.push((format!("C13:send:{role}:undefined-identifier"), format!("{cs}: identifier {id:#x} is neither defined nor of the 0x1f*N+0x21 form")));
        }
    }
    if !c.grease && !others.is_empty() {
        out.push((format!("C13:send:{role}:grease-although-disabled"), format!("{cs}: reserved identifiers {others:x?} sent with grease off")));
    }
    // ---- effective values = configured values
    let eff = |id: u64, default: u64| rs::get(&entries, id).unwrap_or(default);
    let sat = |v: u64| v.min(VARINT_MAX);
    let mut want: Vec<(&str, u64, u64, u64)> = vec![
        ("max_field_section_size", rs::MAX_FIELD_SECTION_SIZE, sat(c.max_field_section_size.unwrap_or(VARINT_MAX)), VARINT_MAX),
        ("enable_extended_connect", rs::ENABLE_CONNECT_PROTOCOL, c.enable_extended_connect as u64, 0),
        ("enable_datagram", rs::H3_DATAGRAM, c.enable_datagram as u64, 0),
    ];
    if c.server {
        want.push(("enable_webtransport", rs::ENABLE_WEBTRANSPORT, c.enable_webtransport as u64, 0));
        want.push(("max_webtransport_sessions", rs::WEBTRANSPORT_MAX_SESSIONS, sat(c.max_webtransport_sessions.unwrap_or(0)), 0));
    }
    for (name, id, configured, default) in want {
        let got = eff(id, default);
        if got != configured {
            out.push((
                format!("C13:send:{role}:value-differs:{name}"),
                format!("{cs}: peer sees {name} = {got} (frame {entries:x?}), configured {configured}"),
            ));
        }
    }
    out
}

// ------------------------------------------------------------------------------------------------
// receive side

#[derive(Clone, Debug, PartialEq, Eq)]
pub struct RecvCase {
    pub me: Endpoint,
    pub payload: Vec<u8>,
    pub per_byte: bool,
}

#[derive(Debug, Clone, Default, PartialEq, Eq)]
pub struct RecvOutcome {
    pub driver: Vec<String>,
    pub close_calls: Vec<u64>,
    pub datagram: Option<bool>,
    pub webtransport: Option<bool>,
    pub extended_connect: Option<bool>,
    /// client only: result of a request with a 300-byte header sent after the SETTINGS
    pub late_request: String,
    pub panics: Vec<(String, String)>,
    pub horizon: bool,
}

pub fn recv_run(case: &RecvCase) -> RecvOutcome {
    fastrand::seed(1);
    let (me, peer) = match case.me {
        Endpoint::Server => (SERVER, CLIENT),
        Endpoint::Client => (CLIENT, SERVER),
    };
    let mut cfg = NetCfg::default();
    if case.per_byte {
        cfg.read = Policy::PerByte;
    }
    let net = Net::new(cfg);
    let mut ex = Exec::new();
    let drv = shared(DriverObs::default());
    let state: Shared<Option<Arc<h3::SharedState>>> = shared(None);
    let late = shared(String::new());
    let done = shared(false);
    match case.me {
        Endpoint::Server => {
            let mut b = h3::server::builder();
            b.send_grease(false);
            ex.spawn("main", server_main_with_state(net.clone(), b, ex.spawner(), drv.clone(), shared(Vec::new()), false, 1, state.clone()));
        }
        Endpoint::Client => {
            let (net2, drv2, sp, state2, late2, done2) = (net.clone(), drv.clone(), ex.spawner(), state.clone(), late.clone(), done.clone());
            ex.spawn("main", async move {
                let mut b = h3::client::builder();
                b.send_grease(false);
                let (mut conn, mut sr): (CliConn, CliSend) = match b.build(SimConn::new(&net2, CLIENT)).await {
                    Ok(x) => x,
                    Err(e) => {
                        drv2.borrow_mut().build = conn_class(&e);
                        return;
                    }
                };
                *state2.borrow_mut() = Some(conn.inner.shared.clone());
                let drv3 = drv2.clone();
                sp.spawn("driver", async move {
                    for _ in 0..2 {
                        let e = std::future::poll_fn(|cx| conn.poll_close(cx)).await;
                        drv3.borrow_mut().results.push(conn_class(&e));
                    }
                    std::future::pending::<()>().await;
                    drop(conn);
                });
                let mut spins = 0;
                while !*done2.borrow() && spins < 400 {
                    spins += 1;
                    yield_now().await;
                }
                for _ in 0..3 {
                    yield_now().await;
                }
                let req = http::Request::get("https://a/").header("x-pad", "p".repeat(300)).body(()).unwrap();
                *late2.borrow_mut() = match sr.send_request(req).await {
                    Ok(_) => "ok".into(),
                    Err(e) => stream_class(&e),
                };
                std::future::pending::<()>().await;
                drop(sr);
            });
        }
    }
    {
        let (net, payload, done) = (net.clone(), case.payload.clone(), done.clone());
        ex.spawn("script", async move {
            let ctrl = if peer == CLIENT { CLIENT_CTRL } else { SERVER_CTRL };
            net.raw_open(ctrl);
            net.raw_write(peer, ctrl, &control_preamble(&payload));
            yield_now().await;
            *done.borrow_mut() = true;
        });
    }
    let q = ex.run(8000, |_| {});
    let st = state.borrow().clone();
    let d = drv.borrow().clone();
    let late_request = late.borrow().clone();
    RecvOutcome {
        driver: d.results,
        close_calls: net.close_calls(me).iter().map(|c| c.0).collect(),
        datagram: st.as_ref().map(|s| s.settings().enable_datagram()),
        webtransport: st.as_ref().map(|s| s.settings().enable_webtransport()),
        extended_connect: st.as_ref().map(|s| s.settings().enable_extended_connect()),
        late_request,
        panics: q.panics,
        horizon: q.horizon_hit,
    }
}

pub fn judge_recv(case: &RecvCase, o: &RecvOutcome) -> Vec<(String, String)> {
    let role = if case.me == Endpoint::Server { "server" } else { "client" };
    let ctx = format!("{role} receives SETTINGS payload {} ({})", hex(&case.payload), if case.per_byte { "one byte per read" } else { "whole" });
    let mut out = Vec::new();
    for (t, p) in &o.panics {
        out.push((format!("C13:recv:{role}:panic@{}", explore::panics::short_loc(p)), format!("{ctx}: task {t} panicked: {p}")));
    }
    if o.horizon {
        out.push((format!("C13:recv:{role}:livelock"), format!("{ctx}: still runnable")));
    }
    let known = [rs::QPACK_MAX_TABLE_CAPACITY, rs::MAX_FIELD_SECTION_SIZE, rs::QPACK_BLOCKED_STREAMS, rs::ENABLE_CONNECT_PROTOCOL, rs::H3_DATAGRAM, rs::ENABLE_WEBTRANSPORT, rs::WEBTRANSPORT_MAX_SESSIONS];
    // the reference verdict, with "repeated identifier" asserted for identifiers h3 knows only
    // (DESIGN.md 7): walk the entries in order
    let mut verdict: Result<Vec<(u64, u64)>, String> = Ok(Vec::new());
    match rs::entries(&case.payload) {
        Err(_) => verdict = Err("truncated".into()),
        Ok(es) => {
            let mut seen: Vec<(u64, u64)> = Vec::new();
            let mut maybe_dup_unknown = false;
            for (id, v) in es {
                if rs::is_h2_reserved(id) {
                    verdict = Err(format!("reserved:{id:#x}"));
                    break;
                }
                if seen.iter().any(|(i, _)| *i == id) {
                    if known.contains(&id) {
                        verdict = Err(format!("duplicate:{id:#x}"));
                        break;
                    }
                    maybe_dup_unknown = true;
                    continue;
                }
                seen.push((id, v));
            }
            if verdict.is_ok() {
                if maybe_dup_unknown {
                    // a repeated UNKNOWN identifier may be ignored or rejected (RFC: MAY)
                    if !o.close_calls.is_empty() && o.close_calls != [auto::H3_SETTINGS_ERROR] {
                        out.push((format!("C13:recv:{role}:wrong-code-for-repeated-unknown-id"), format!("{ctx}: close calls {:x?}", o.close_calls)));
                    }
                    if !o.close_calls.is_empty() {
                        return out;
                    }
                }
                verdict = Ok(seen);
            }
        }
    }
    match verdict {
        Err(why) => {
            let ok = if why == "truncated" {
                // "a truncated entry is a connection error too": any code
                o.close_calls.len() == 1
            } else {
                o.close_calls == [auto::H3_SETTINGS_ERROR]
            };
            if !ok {
                out.push((
                    format!("C13:recv:{role}:{}:close={:x?}", why.split(':').next().unwrap(), o.close_calls),
                    format!("{ctx}: {why} => {}; close calls {:x?}, driver {:?}", if why == "truncated" { "a connection error" } else { "H3_SETTINGS_ERROR" }, o.close_calls, o.driver),
                ));
            }
        }
        Ok(es) => {
            if !o.close_calls.is_empty() {
                out.push((
                    format!("C13:recv:{role}:valid-settings-rejected:{:#x}", o.close_calls[0]),
                    format!("{ctx}: valid SETTINGS {es:x?}; close calls {:x?}", o.close_calls),
                ));
                return out;
            }
            let flag = |id: u64| rs::get(&es, id).map(|v| v != 0).unwrap_or(false);
            let checks = [("H3_DATAGRAM", rs::H3_DATAGRAM, o.datagram), ("ENABLE_WEBTRANSPORT", rs::ENABLE_WEBTRANSPORT, o.webtransport), ("ENABLE_CONNECT_PROTOCOL", rs::ENABLE_CONNECT_PROTOCOL, o.extended_connect)];
            for (name, id, got) in checks {
                if got != Some(flag(id)) {
                    out.push((
                        format!("C13:recv:{role}:not-applied:{name}"),
                        format!("{ctx}: entries {es:x?}: {name} should be {}, endpoint's view {:?}", flag(id), got),
                    ));
                }
            }
            if case.me == Endpoint::Client {
                // the request's field section is > 300 bytes: it is refused exactly when the applied limit is below its size
                let limit = rs::get(&es, rs::MAX_FIELD_SECTION_SIZE).unwrap_or(VARINT_MAX);
                let refused = o.late_request.starts_with("HeaderTooBig(");
                let echoed = o.late_request.strip_prefix("HeaderTooBig(").and_then(|s| s.strip_suffix(')')).and_then(|s| s.split(',').nth(1)).and_then(|s| s.parse::<u64>().ok());
                let should_refuse = limit < 300;
                if refused != should_refuse || (refused && echoed != Some(limit)) {
                    out.push((
                        format!("C13:recv:{role}:not-applied:MAX_FIELD_SECTION_SIZE"),
                        format!("{ctx}: entries {es:x?}: limit {limit}; a request with a > 300 byte section returned {:?}", o.late_request),
                    ));
                }
            }
        }
    }
    out
}

fn recv_payloads(thorough: bool) -> Vec<Vec<u8>> {
    let ids: Vec<u64> = vec![0x1, 0x6, 0x7, 0x8, 0x33, 0x2b603742, 0x2b603743, 0xffd277, 0x21 + 0x1f * 5, 0x4242, 0x0, 0x2, 0x3, 0x4, 0x5];
    let values: Vec<u64> = vec![0, 1, 100, VARINT_MAX];
    let mut entries: Vec<Vec<u8>> = Vec::new();
    for &id in &ids {
        for &v in &values {
            let mut e = varint::encode(id).unwrap();
            e.extend(varint::encode(v).unwrap());
            entries.push(e);
        }
        // padded varint forms
        for (idf, vf) in [(8usize, 1usize), (0, 8), (4, 2)] {
            let idb = if idf == 0 { varint::encode(id) } else { varint::encode_len(id, idf) };
            let vb = varint::encode_len(1, vf);
            if let (Some(mut a), Some(b)) = (idb, vb) {
                a.extend(b);
                entries.push(a);
            }
        }
    }
    let mut set: std::collections::BTreeSet<Vec<u8>> = Default::default();
    set.insert(vec![]);
    let mut add_t = |p: Vec<u8>, truncations: bool| {
        if truncations {
            for cut in 0..=p.len() {
                set.insert(p[..cut].to_vec());
            }
        } else {
            set.insert(p);
        }
    };
    let mut add = |p: Vec<u8>| add_t(p, true);
    for a in &entries {
        add(a.clone());
        for b in &entries {
            let mut p = a.clone();
            p.extend(b);
            add(p);
        }
    }
    // triples over value 1 only
    let red: Vec<Vec<u8>> = ids.iter().map(|&id| { let mut e = varint::encode(id).unwrap(); e.push(0x01); e }).collect();
    let tri: Vec<&Vec<u8>> = if thorough { red.iter().collect() } else { red.iter().take(10).collect() };
    let mut triples: Vec<Vec<u8>> = Vec::new();
    for a in &tri {
        for b in &tri {
            for c in &tri {
                let mut p = (*a).clone();
                p.extend(*b);
                p.extend(*c);
                triples.push(p);
            }
        }
    }
    let _ = &mut add;
    for p in triples {
        if thorough {
            for cut in 0..=p.len() {
                set.insert(p[..cut].to_vec());
            }
        } else {
            set.insert(p);
        }
    }
    // long payloads: any number of unknown / reserved-form (grease) identifiers may accompany the known ones.
    // n entries with distinct identifiers in the 8-byte form and 8-byte values (16 bytes each), a known identifier
    // first / last / in the middle: payload lengths well above anything h3 itself would send
    for n in [1usize, 7, 8, 9, 15, 16, 17, 33, 64, 200] {
        let unknown: Vec<Vec<u8>> = (0..n as u64)
            .map(|i| {
                let id = if i % 2 == 0 { 0x21 + 0x1f * (1000 + i) } else { 0x1_0000_0000 + i };
                let mut e = varint::encode_len(id, 8).unwrap();
                e.extend(varint::encode_len(i + 2, 8).unwrap());
                e
            })
            .collect();
        let known = { let mut e = varint::encode(rs::MAX_FIELD_SECTION_SIZE).unwrap(); e.extend(varint::encode(100).unwrap()); e };
        let dg = { let mut e = varint::encode(rs::H3_DATAGRAM).unwrap(); e.push(0x01); e };
        for pos in [0usize, n / 2, n] {
            let mut pl = Vec::new();
            for (i, u) in unknown.iter().enumerate() {
                if i == pos {
                    pl.extend(&known);
                }
                pl.extend(u);
            }
            if pos == n {
                pl.extend(&known);
            }
            pl.extend(&dg);
            set.insert(pl);
        }
    }
    set.into_iter().collect()
}

// ------------------------------------------------------------------------------------------------
// behaviour that depends on the applied settings: establishing a WebTransport session

#[derive(Clone, Debug)]
pub struct WtCase {
    /// the peer's SETTINGS: ENABLE_WEBTRANSPORT, H3_DATAGRAM, ENABLE_CONNECT_PROTOCOL (None = not listed)
    pub peer: [Option<u64>; 3],
    /// the server's own configuration (must not matter for what the PEER supports)
    pub local_wt: bool,
    pub local_dg: bool,
}

/// A server receives the peer's SETTINGS, then an extended CONNECT for webtransport, and calls
/// `WebTransportSession::accept`. Result: "ok" or the error class.
pub fn wt_run(c: &WtCase) -> (String, Vec<u64>, Vec<(String, String)>) {
    fastrand::seed(1);
    let net = Net::new(NetCfg::default());
    let mut ex = Exec::new();
    let res = shared(String::new());
    let state: Shared<Option<Arc<h3::SharedState>>> = shared(None);
    {
        let (net2, res2, st2, c2) = (net.clone(), res.clone(), state.clone(), c.clone());
        ex.spawn("main", async move {
            let mut b = h3::server::builder();
            b.send_grease(false).enable_webtransport(c2.local_wt).enable_extended_connect(true).enable_datagram(c2.local_dg).max_webtransport_sessions(1);
            let mut conn: SrvConn = match b.build(SimConn::new(&net2, SERVER)).await {
                Ok(c) => c,
                Err(e) => {
                    *res2.borrow_mut() = format!("build:{}", conn_class(&e));
                    return;
                }
            };
            *st2.borrow_mut() = Some(conn.inner.shared.clone());
            let resolver = match conn.accept().await {
                Ok(Some(r)) => r,
                other => {
                    *res2.borrow_mut() = format!("accept:{:?}", other.map(|o| o.is_some()).map_err(|e| conn_class(&e)));
                    return;
                }
            };
            let (req, stream) = match resolver.resolve_request().await {
                Ok(x) => x,
                Err(e) => {
                    *res2.borrow_mut() = format!("resolve:{}", stream_class(&e));
                    return;
                }
            };
            let r = h3_webtransport::server::WebTransportSession::<SimConn, bytes::Bytes>::accept(req, stream, conn).await;
            *res2.borrow_mut() = match &r {
                Ok(_) => "ok".into(),
                Err(e) => stream_class(e),
            };
            std::future::pending::<()>().await;
            drop(r);
        });
    }
    {
        let (net, c, state) = (net.clone(), c.clone(), state.clone());
        ex.spawn("script", async move {
            let ids = [rs::ENABLE_WEBTRANSPORT, rs::H3_DATAGRAM, rs::ENABLE_CONNECT_PROTOCOL];
            let entries: Vec<(u64, u64)> = ids.iter().zip(c.peer.iter()).filter_map(|(id, v)| v.map(|v| (*id, v))).collect();
            net.raw_open(CLIENT_CTRL);
            net.raw_write(CLIENT, CLIENT_CTRL, &control_preamble(&rs::encode(&entries)));
            // the request comes after the SETTINGS have been taken in
            let mut spins = 0;
            while spins < 40 {
                spins += 1;
                yield_now().await;
                if state.borrow().is_some() && spins > 6 {
                    break;
                }
            }
            let f = |n: &str, v: &[u8]| (n.as_bytes().to_vec(), v.to_vec());
            let sec = refimpl::qpack::encode_literal_section(&[f(":method", b"CONNECT"), f(":protocol", b"webtransport"), f(":scheme", b"https"), f(":authority", b"a"), f(":path", b"/wt")], false);
            net.raw_open(0);
            net.raw_write(CLIENT, 0, &rf::frame(rf::HEADERS, &sec));
        });
    }
    let q = ex.run(8000, |_| {});
    let r = res.borrow().clone();
    (r, net.close_calls(SERVER).iter().map(|c| c.0).collect(), q.panics)
}

pub fn judge_wt(c: &WtCase, r: &str, closes: &[u64], panics: &[(String, String)]) -> Vec<(String, String)> {
    let ctx = format!("server (own configuration webtransport={}, datagram={}) whose peer's SETTINGS list ENABLE_WEBTRANSPORT={:?}, H3_DATAGRAM={:?}, ENABLE_CONNECT_PROTOCOL={:?}, then WebTransportSession::accept on an extended CONNECT", c.local_wt, c.local_dg, c.peer[0], c.peer[1], c.peer[2]);
    let mut out = Vec::new();
    for (t, p) in panics {
        out.push((format!("C13:wt:panic@{}", explore::panics::short_loc(p)), format!("{ctx}: task {t} panicked: {p}")));
    }
    // what the PEER advertised decides (its values are the applied settings), not the server's own configuration
    let peer_supports = c.peer[0] == Some(1) && c.peer[1] == Some(1);
    let refused = format!("Conn:Local({:#x})", auto::H3_SETTINGS_ERROR);
    if peer_supports {
        if r != "ok" {
            out.push((format!("C13:wt:session-refused-although-the-peer-enabled-it:{r}"), format!("{ctx}: result {r:?}, close calls {closes:x?}")));
        }
    } else if r != refused {
        out.push((format!("C13:wt:session-accepted-although-the-peer-did-not-enable-it:{}", if r.is_empty() { "pending" } else { r }), format!("{ctx}: result {r:?}, expected the connection error H3_SETTINGS_ERROR; close calls {closes:x?}")));
    }
    out
}

pub fn run(args: &Args) -> i32 {
    // the deeper parameter set is cheap enough (seconds) to be the quick tier as well
    let thorough = true;
    let _ = Tier::Thorough;
    let mut rep = Report::new("C13", args.tier, args.seed, "model_checking");
    rep.exhaustive = true;
    rep.rule = "send: every builder configuration - all combinations of the boolean options x max_field_section_size and max_webtransport_sessions over {unset, 0, 1, 63, 64, 16383, 16384, 2^30-1, 2^30, 2^62-1, 2^62, u64::MAX} x grease on/off x 4 fastrand seeds x write acceptance (whole, one byte at a time), for the server and the client builder; the local control stream log is parsed by refimpl (one SETTINGS first, no identifier twice, no HTTP/2-reserved identifier, grease form, effective value of every known identifier = configured value). receive: every SETTINGS payload made of <= 2 entries over 15 identifiers x {0,1,100,2^62-1} plus padded varint forms, triples over 10 (15) identifiers, truncated at every byte, delivered whole and one byte per read, to a real server and client; error code and applied values (shared settings getters; the size limit echoed by HeaderTooBig on a late request) compared with refimpl::settings; payloads of 1..200 unknown / grease entries in the 8-byte forms (up to 3.2 KB) around the known ones; and behaviour that depends on the applied values: a server whose peer's SETTINGS list ENABLE_WEBTRANSPORT / H3_DATAGRAM / ENABLE_CONNECT_PROTOCOL in {absent, 0, 1} x the server's own webtransport / datagram configuration calls WebTransportSession::accept on an extended CONNECT: established iff the PEER enabled both, else H3_SETTINGS_ERROR. states = distinct configurations / payloads; non-trivial = non-default configurations and payloads with >= 2 entries.".into();
    rep.assumptions = vec![
        "a configured value >= 2^62 cannot be carried by a varint: a clean refusal of setup (error, no panic) or a saturated value is accepted".into(),
        "repeated identifier is asserted for identifiers h3 knows; a repeated unknown identifier may be ignored or rejected with H3_SETTINGS_ERROR".into(),
        "max_webtransport_sessions has no observable getter on the receive side and is checked on the send side only".into(),
    ];
    rep.bound_note = "exhaustive over the stated configuration grid and payload grammar".into();
    // ---- send
    let sizes: Vec<Option<u64>> = vec![None, Some(0), Some(1), Some(63), Some(64), Some(16383), Some(16384), Some((1 << 30) - 1), Some(1 << 30), Some(VARINT_MAX), Some(1 << 62), Some(u64::MAX)];
    let mut cfgs: Vec<Cfg> = Vec::new();
    for server in [true, false] {
        for &mfs in &sizes {
            for &mws in if server { &sizes[..] } else { &sizes[..1] } {
                for bits in 0..8u8 {
                    let (wt, ec, dg) = (bits & 1 != 0, bits & 2 != 0, bits & 4 != 0);
                    if !server && wt {
                        continue;
                    }
                    for grease in [true, false] {
                        for seed in if grease { &[1u64, 2, 3, 0xdead_beef][..] } else { &[1u64][..] } {
                            for wpb in [false, true] {
                                if wpb && (bits != 7 && bits != 0) {
                                    continue;
                                }
                                cfgs.push(Cfg { server, max_field_section_size: mfs, max_webtransport_sessions: mws, enable_webtransport: wt, enable_extended_connect: ec, enable_datagram: dg, grease, seed: *seed, write_per_byte: wpb });
                            }
                        }
                    }
                }
            }
        }
    }
    let chunks: Vec<&[Cfg]> = cfgs.chunks(64).collect();
    let mut accs = explore::par::run(&chunks, Acc::new, |_, ch, acc| {
        for c in *ch {
            let o = build_run(c);
            acc.evaluations += 1;
            acc.dfs.executions += 1;
            acc.transitions += o.wire.len() as u64 + 1;
            let mut h = Fnv::new();
            h.str(&format!("{c:?}"));
            acc.states.insert(h.finish());
            if c.max_field_section_size.is_some() || c.max_webtransport_sessions.is_some() || c.enable_datagram {
                acc.nontrivial.insert(h.finish());
            }
            let mut h = Fnv::new();
            h.str(&o.build);
            h.u64(o.wire.len() as u64);
            acc.outcomes.insert(h.finish());
            for (sig, msg) in judge_send(c, &o) {
                acc.violation(sig, msg, (0, 0), || json!({"kind":"send","cfg":{"server":c.server,"mfs":c.max_field_section_size.map(|v| v.to_string()),"mws":c.max_webtransport_sessions.map(|v| v.to_string()),"wt":c.enable_webtransport,"ec":c.enable_extended_connect,"dg":c.enable_datagram,"grease":c.grease,"seed":c.seed,"wpb":c.write_per_byte}}));
            }
        }
    });
    // ---- receive
    let payloads = recv_payloads(thorough);
    let mut rcases: Vec<RecvCase> = Vec::new();
    for me in [Endpoint::Server, Endpoint::Client] {
        for p in &payloads {
            for per_byte in [false, true] {
                if per_byte && p.len() < 2 {
                    continue;
                }
                rcases.push(RecvCase { me, payload: p.clone(), per_byte });
            }
        }
    }
    let chunks: Vec<&[RecvCase]> = rcases.chunks(256).collect();
    accs.extend(explore::par::run(&chunks, Acc::new, |_, ch, acc| {
        for c in *ch {
            let o = recv_run(c);
            acc.evaluations += 1;
            acc.dfs.executions += 1;
            acc.transitions += c.payload.len() as u64 + 1;
            let mut h = Fnv::new();
            h.str(&format!("{c:?}"));
            acc.states.insert(h.finish());
            if c.payload.len() >= 4 {
                acc.nontrivial.insert(h.finish());
            }
            let mut h = Fnv::new();
            h.str(&format!("{:?}{:?}{:?}{:?}{}", o.close_calls, o.datagram, o.webtransport, o.extended_connect, o.late_request));
            acc.outcomes.insert(h.finish());
            for (sig, msg) in judge_recv(c, &o) {
                acc.violation(sig, msg, (0, c.payload.len()), || json!({"kind":"recv","me": if c.me == Endpoint::Server {"server"} else {"client"},"payload":hex(&c.payload),"per_byte":c.per_byte}));
            }
        }
    }));
    // ---- behaviour that depends on applied settings: WebTransport session establishment
    let mut wcases: Vec<WtCase> = Vec::new();
    for wt in [None, Some(0), Some(1)] {
        for dg in [None, Some(0), Some(1)] {
            for ec in [None, Some(1)] {
                for local_wt in [false, true] {
                    for local_dg in [false, true] {
                        wcases.push(WtCase { peer: [wt, dg, ec], local_wt, local_dg });
                    }
                }
            }
        }
    }
    accs.extend(explore::par::run(&wcases, Acc::new, |_, c, acc| {
        let (r, closes, panics) = wt_run(c);
        acc.evaluations += 1;
        acc.dfs.executions += 1;
        let mut h = Fnv::new();
        h.str(&format!("{c:?}"));
        acc.states.insert(h.finish());
        acc.nontrivial.insert(h.finish());
        for (sig, msg) in judge_wt(c, &r, &closes, &panics) {
            acc.violation(sig, msg, (0, 0), || json!({"kind":"wt","peer":c.peer,"local_wt":c.local_wt,"local_dg":c.local_dg}));
        }
    }));
    let mut total = Acc::new();
    for a in accs {
        total.merge(a);
    }
    total.count("webtransport_accept_cases", wcases.len() as u64);
    total.count("configurations", cfgs.len() as u64);
    total.count("received_payloads", payloads.len() as u64);
    total.samples.push(json!(cfg_str(&cfgs[cfgs.len() / 3])));
    total.samples.push(json!({"receive":"server","settings_payload":"0601 0601","reference":"MAX_FIELD_SECTION_SIZE twice -> H3_SETTINGS_ERROR"}));
    total.samples.push(json!({"receive":"client","settings_payload": hex(&payloads[payloads.len() / 2])}));
    rep.finish(total)
}

pub fn replay(r: &Value) -> i32 {
    if r["kind"] == "wt" {
        let pv = |i: usize| r["peer"][i].as_u64();
        let c = WtCase { peer: [pv(0), pv(1), pv(2)], local_wt: r["local_wt"].as_bool().unwrap(), local_dg: r["local_dg"].as_bool().unwrap() };
        let (res, closes, panics) = wt_run(&c);
        println!("case: {c:?}\nresult: {res:?} close calls {closes:x?} panics {panics:?}");
        let v = judge_wt(&c, &res, &closes, &panics);
        for (sig, msg) in &v {
            println!("observed: {sig}: {msg}");
        }
        if v.is_empty() {
            println!("observed: no violation");
            return 0;
        }
        return 1;
    }
    let v = match r["kind"].as_str() {
        Some("send") => {
            let c = &r["cfg"];
            let cfg = Cfg {
                server: c["server"].as_bool().unwrap(),
                max_field_section_size: c["mfs"].as_str().map(|s| s.parse().unwrap()),
                max_webtransport_sessions: c["mws"].as_str().map(|s| s.parse().unwrap()),
                enable_webtransport: c["wt"].as_bool().unwrap(),
                enable_extended_connect: c["ec"].as_bool().unwrap(),
                enable_datagram: c["dg"].as_bool().unwrap(),
                grease: c["grease"].as_bool().unwrap(),
                seed: c["seed"].as_u64().unwrap(),
                write_per_byte: c["wpb"].as_bool().unwrap(),
            };
            println!("case: {}", cfg_str(&cfg));
            let o = build_run(&cfg);
            println!("outcome: build={:?} control stream={} close calls={:x?} panics={:?}", o.build, hex(&o.wire), o.close_calls, o.panics);
            judge_send(&cfg, &o)
        }
        Some("recv") => {
            let case = RecvCase { me: if r["me"] == "server" { Endpoint::Server } else { Endpoint::Client }, payload: explore::unhex(r["payload"].as_str().unwrap()), per_byte: r["per_byte"].as_bool().unwrap() };
            let o = recv_run(&case);
            println!("reference: {:?}", rs::parse(&case.payload));
            println!("outcome: {o:?}");
            judge_recv(&case, &o)
        }
        _ => return 2,
    };
    for (sig, msg) in &v {
        println!("observed: {sig}: {msg}");
    }
    if v.is_empty() {
        println!("observed: no violation");
        0
    } else {
        1
    }
}
