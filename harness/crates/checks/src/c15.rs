//! C15 — Huffman strings and prefixed integers: round trip and strict decoding.
//!
//! Complete enumeration of bounded input spaces of the real codecs (reached through the
//! `verif-hooks` re-exports) against `refimpl::{huffman, qint, qstr}`.

use crate::common::guard;
use crate::Args;
use explore::report::{Acc, Report, Tier};
use explore::{hex, Fnv};
use h3::qpack::verif::{prefix_int_decode, prefix_int_encode, prefix_string_decode, prefix_string_encode};
use refimpl::{huffman as rh, qint, qstr};
use serde_json::{json, Value};

// ---------------------------------------------------------------------------------------------
// integers

fn int_values(n: u8) -> Vec<u64> {
    let m = (1u64 << n) - 1;
    let mut v = vec![0, 1, m.saturating_sub(1), m, m + 1, m + 2, m + 127, m + 128, m + 129, m + 16383, m + 16384];
    for k in 0..64u32 {
        let c = 1u64 << k;
        v.extend([c.wrapping_sub(1), c, c.wrapping_add(1)]);
    }
    v.push(u64::MAX);
    v.push(u64::MAX - 1);
    v.sort_unstable();
    v.dedup();
    v
}

fn h3_int_decode(n: u8, b: &[u8]) -> Result<Result<(u8, u64, usize), String>, String> {
    guard(|| {
        let mut cur = std::io::Cursor::new(b);
        match prefix_int_decode(n, &mut cur) {
            Ok((f, v)) => Ok((f, v, cur.position() as usize)),
            Err(e) => Err(format!("{e:?}")),
        }
    })
}

fn check_int_roundtrip(n: u8, flags: u8, v: u64, acc: &mut Acc) {
    acc.evaluations += 1;
    let rep = || json!({"kind":"int-encode","prefix":n,"flags":flags,"value":v.to_string()});
    let enc = guard(|| {
        let mut out = Vec::new();
        prefix_int_encode(n, flags, v, &mut out);
        out
    });
    let enc = match enc {
        Ok(e) => e,
        Err(p) => {
            acc.violation(format!("C15:int-encode-panic:prefix={n}"), format!("encode({n}, {flags}, {v}) panicked: {p}"), (0, 0), rep);
            return;
        }
    };
    let want = qint::encode(n, flags, v);
    if enc != want {
        acc.violation(
            format!("C15:int-encode-bytes:prefix={n}"),
            format!("encode(prefix {n}, flags {flags:#b}, {v}) = {}, RFC 7541 5.1: {}", hex(&enc), hex(&want)),
            (0, 0),
            rep,
        );
    }
    match h3_int_decode(n, &enc) {
        Err(p) => acc.violation(format!("C15:int-decode-panic:prefix={n}"), format!("decode of {} panicked: {p}", hex(&enc)), (0, 0), rep),
        Ok(Ok((f, got, used))) => {
            if got != v || f != flags || used != enc.len() {
                acc.violation(
                    format!("C15:int-roundtrip:prefix={n}:{}", if v <= qint::MAX_62 { "in-range" } else { "above-2^62" }),
                    format!("prefix {n}: {v} (flags {flags:#b}) encodes to {} and decodes to {got} (flags {f:#b}, {used} bytes)", hex(&enc)),
                    (0, 0),
                    rep,
                );
            }
        }
        Ok(Err(e)) => {
            if v <= qint::MAX_62 {
                acc.violation(
                    format!("C15:int-roundtrip-rejected:prefix={n}"),
                    format!("prefix {n}: {v} < 2^62 encodes to {} which the decoder rejects ({e})", hex(&enc)),
                    (0, 0),
                    rep,
                );
            }
        }
    }
    let mut h = Fnv::new();
    h.u64(n as u64);
    h.u64(enc.len() as u64);
    acc.outcomes.insert(h.finish());
    if enc.len() > 1 {
        h.u64(v);
        acc.nontrivial.insert(h.finish());
    }
}

fn check_int_decode(n: u8, b: &[u8], acc: &mut Acc) {
    acc.evaluations += 1;
    let rep = || json!({"kind":"int-decode","prefix":n,"input":hex(b)});
    let want = qint::decode_exact(n, b);
    let got = match h3_int_decode(n, b) {
        Ok(g) => g,
        Err(p) => {
            acc.violation(format!("C15:int-decode-panic:prefix={n}"), format!("decode(prefix {n}, {}) panicked: {p}", hex(b)), (0, b.len()), rep);
            return;
        }
    };
    let mut h = Fnv::new();
    h.u64(n as u64);
    match (&want, &got) {
        (Err(qint::IntErr::Truncated), Err(_)) => h.str("trunc"),
        (Err(qint::IntErr::Truncated), Ok((_, v, _))) => acc.violation(
            format!("C15:int-truncated-accepted:prefix={n}"),
            format!("prefix {n}: truncated encoding {} decoded to {v}", hex(b)),
            (0, b.len()),
            rep,
        ),
        (Err(qint::IntErr::Overflow), Err(_)) => h.str("overlong"),
        (Err(qint::IntErr::Overflow), Ok((_, v, _))) => acc.violation(
            format!("C15:int-overlong-accepted:prefix={n}"),
            format!("prefix {n}: encoding with more than 16 continuation bytes {} decoded to {v}", hex(b)),
            (0, b.len()),
            rep,
        ),
        (Ok((wf, wv, wused)), Ok((f, v, used))) => {
            h.str("ok");
            if *v as u128 != *wv || f != wf || used != wused {
                acc.violation(
                    format!("C15:int-decode-wrong-value:prefix={n}:{}", if *wv > u64::MAX as u128 { "wrapped" } else { "value" }),
                    format!("prefix {n}: {} decodes to {v} (flags {f:#b}, {used} bytes); its value is {wv} (flags {wf:#b}, {wused} bytes)", hex(b)),
                    (0, b.len()),
                    rep,
                );
            }
        }
        (Ok((_, wv, wused)), Err(e)) => {
            h.str("rejected");
            // must accept everything the RFC requires: values < 2^62 in at most 9 continuation bytes
            let conts = wused - 1;
            if *wv <= qint::MAX_62 as u128 && conts <= 9 {
                acc.violation(
                    format!("C15:int-valid-rejected:prefix={n}"),
                    format!("prefix {n}: {} (= {wv}, {conts} continuation bytes) rejected with {e}", hex(b)),
                    (0, b.len()),
                    rep,
                );
            }
        }
    }
    acc.outcomes.insert(h.finish());
    if b.len() > 1 {
        h.bytes(b);
        acc.nontrivial.insert(h.finish());
    }
}

fn int_decode_inputs(n: u8, thorough: bool) -> Vec<Vec<u8>> {
    let mask = ((1u16 << n) - 1) as u8;
    let mut v: Vec<Vec<u8>> = vec![vec![]];
    let alphabet: &[u8] = &[0x00, 0x01, 0x7f, 0x80, 0xff, 0x81];
    let maxc = if thorough { 4 } else { 3 };
    for first in 0..=255u8 {
        v.push(vec![first]);
        if first & mask != mask {
            // no continuation expected; a following byte must not be consumed
            v.push(vec![first, 0xff]);
            continue;
        }
        // all continuation sequences over the alphabet (each is also a truncation test when it ends in 0x80-type bytes)
        let firsts: &[u8] = if thorough || first == mask || first == 0xff { &[first][..] } else { &[] };
        for &f in firsts {
            let mut cur: Vec<Vec<u8>> = vec![vec![f]];
            for _ in 0..maxc {
                let mut next = Vec::new();
                for s in &cur {
                    for &a in alphabet {
                        let mut t = s.clone();
                        t.push(a);
                        next.push(t);
                    }
                }
                v.extend(next.iter().cloned());
                cur = next.into_iter().filter(|s| s.last().unwrap() & 0x80 != 0).collect();
            }
        }
    }
    // long tails: k continuation bytes of 0xff / 0x80 / 0x81, then a terminator, and every truncation
    for k in 5..=18usize {
        for fill in [0xffu8, 0x80, 0x81] {
            for term in [0x00u8, 0x01, 0x7f] {
                let mut s = vec![mask];
                s.extend(std::iter::repeat(fill).take(k));
                s.push(term);
                v.push(s.clone());
                s.pop();
                v.push(s);
            }
        }
    }
    // boundary values in minimal form plus 1..3 bytes of zero padding (non-minimal but legal)
    for val in int_values(n) {
        for extra in 0..=3usize {
            if extra > 0 && val < (1u64 << n) - 1 {
                continue; // a value that fits in the prefix has no padded form
            }
            let e = if extra == 0 { qint::encode(n, 0, val) } else { qint::encode_padded(n, 0, val, extra) };
            for cut in 1..e.len() {
                v.push(e[..cut].to_vec());
            }
            v.push(e);
        }
    }
    v.sort();
    v.dedup();
    v
}

// ---------------------------------------------------------------------------------------------
// strings

fn h3_str_decode(size: u8, b: &[u8]) -> Result<Result<(Vec<u8>, usize), String>, String> {
    guard(|| {
        let mut cur = std::io::Cursor::new(b);
        match prefix_string_decode(size, &mut cur) {
            Ok(v) => Ok((v, cur.position() as usize)),
            Err(e) => Err(format!("{e:?}")),
        }
    })
}

fn check_str_roundtrip(size: u8, s: &[u8], acc: &mut Acc) {
    acc.evaluations += 1;
    let rep = || json!({"kind":"str-encode","size":size,"string":hex(s)});
    let enc = guard(|| {
        let mut out = Vec::new();
        prefix_string_encode(size, 0, s, &mut out).map(|_| out).map_err(|e| format!("{e:?}"))
    });
    let enc = match enc {
        Err(p) => {
            acc.violation(format!("C15:str-encode-panic:size={size}"), format!("encode({}) panicked: {p}", hex(s)), (0, s.len()), rep);
            return;
        }
        Ok(Err(e)) => {
            acc.violation(format!("C15:str-encode-error:size={size}"), format!("encode({}) failed: {e}", hex(s)), (0, s.len()), rep);
            return;
        }
        Ok(Ok(e)) => e,
    };
    // an independent decoder must read back exactly s
    match qstr::decode(size, &enc) {
        Ok((_, back, used)) if back == s && used == enc.len() => {}
        other => acc.violation(
            format!("C15:str-encode-not-rfc:size={size}"),
            format!("h3 encodes {} as {}; the reference decoder reads {:?}", hex(s), hex(&enc), other),
            (0, s.len()),
            rep,
        ),
    }
    // h3 reads its own encoding back
    match h3_str_decode(size, &enc) {
        Ok(Ok((back, used))) if back == s && used == enc.len() => {}
        other => acc.violation(
            format!("C15:str-roundtrip:size={size}"),
            format!("{} -> {} -> {:?}", hex(s), hex(&enc), other),
            (0, s.len()),
            rep,
        ),
    }
    let mut h = Fnv::new();
    h.u64(size as u64);
    h.u64((enc.len() as u64) << 8 | s.len() as u64);
    acc.outcomes.insert(h.finish());
    if !s.is_empty() {
        h.bytes(s);
        acc.nontrivial.insert(h.finish());
    }
}

/// Compare the decoders on one complete string literal (prefix byte(s) + payload).
fn check_str_decode(size: u8, b: &[u8], acc: &mut Acc) {
    check_str_decode_d(size, b, false, acc)
}

/// `dense`: the input is part of a dense block enumeration (distinct by construction): counted, not fingerprinted
fn check_str_decode_d(size: u8, b: &[u8], dense: bool, acc: &mut Acc) {
    acc.evaluations += 1;
    let rep = || json!({"kind":"str-decode","size":size,"input":hex(b)});
    let want = qstr::decode(size, b);
    let got = match h3_str_decode(size, b) {
        Ok(g) => g,
        Err(p) => {
            acc.violation(format!("C15:str-decode-panic:size={size}"), format!("decode({}) panicked: {p}", hex(b)), (0, b.len()), rep);
            return;
        }
    };
    let mut h = Fnv::new();
    match (&want, &got) {
        (Ok((_, ws, wused)), Ok((s, used))) => {
            h.str("ok");
            if ws != s || wused != used {
                acc.violation(
                    format!("C15:str-decode-wrong-output:size={size}"),
                    format!("{} decodes to {} ({used} bytes); RFC 7541: {} ({wused} bytes)", hex(b), hex(s), hex(ws)),
                    (0, b.len()),
                    rep,
                );
            }
        }
        (Err(e), Err(_)) => h.str(&format!("{e:?}")),
        (Err(e), Ok((s, _))) => {
            // describe the input precisely, so that a known finding covers only what it names
            let walk = qstr::decode_raw(size, b).ok().filter(|r| r.huffman).map(|r| rh::walk(r.data));
            let class = match (e, &walk) {
                (qstr::StrErr::Huffman(rh::HuffErr::PaddingTooLong), Some(w)) if w.leftover_all_ones => "padding-longer-than-7-bits:all-ones".to_string(),
                (qstr::StrErr::Huffman(rh::HuffErr::PaddingTooLong), _) => "padding-longer-than-7-bits:with-zero-bits".to_string(),
                (qstr::StrErr::Huffman(rh::HuffErr::PaddingNotOnes), _) => "padding-not-eos-prefix".to_string(),
                (qstr::StrErr::Huffman(rh::HuffErr::EosInString), Some(w)) => {
                    // EOS as the very last symbol with a valid (all-ones, < 8 bit) padding, or anything else
                    let last_is_eos = w.symbols.last() == Some(&rh::EOS);
                    let eos_count = w.symbols.iter().filter(|s| **s == rh::EOS).count();
                    if last_is_eos && eos_count == 1 && w.leftover_all_ones && w.leftover_bits < 8 {
                        "eos-symbol:as-terminator".to_string()
                    } else {
                        "eos-symbol:inside-string".to_string()
                    }
                }
                (qstr::StrErr::Huffman(rh::HuffErr::EosInString), None) => "eos-symbol".to_string(),
                (qstr::StrErr::Truncated, _) => "truncated".to_string(),
                (qstr::StrErr::Int(_), _) => "length-integer".to_string(),
            };
            acc.violation(
                format!("C15:str-invalid-accepted:{class}"),
                format!("{} accepted as {:?}; RFC 7541 5.2 says {e:?}", hex(b), String::from_utf8_lossy(s)),
                (0, b.len()),
                rep,
            );
        }
        (Ok((_, ws, _)), Err(e)) => acc.violation(
            format!("C15:str-valid-rejected:size={size}"),
            format!("{} rejected with {e}; it is a valid encoding of {}", hex(b), hex(ws)),
            (0, b.len()),
            rep,
        ),
    }
    acc.outcomes.insert(h.finish());
    if b.len() > 1 {
        if dense {
            acc.nontrivial_counted += 1;
        } else {
            h.bytes(b);
            acc.nontrivial.insert(h.finish());
        }
    }
}

fn huff_literal(size: u8, payload: &[u8]) -> Vec<u8> {
    // flags above H are 0; H = 1
    let mut out = qint::encode(size - 1, 1, payload.len() as u64);
    out.extend_from_slice(payload);
    out
}

/// bits (MSB first) -> bytes; `bits.len()` must be a multiple of 8
fn pack(bits: &[u8]) -> Vec<u8> {
    bits.chunks(8).map(|c| c.iter().fold(0u8, |a, b| (a << 1) | b)).collect()
}

fn code_bits(sym: usize) -> Vec<u8> {
    let (n, c) = rh::code(sym);
    (0..n).rev().map(|i| ((c >> i) & 1) as u8).collect()
}

pub fn run(args: &Args) -> i32 {
    let thorough = args.tier == Tier::Thorough;
    if let Err(e) = rh::self_check() {
        explore::machinery_failure(&format!("reference Huffman table self-check failed: {e}"));
    }
    let mut rep = Report::new("C15", args.tier, args.seed, "exploration");
    rep.exhaustive = true;
    rep.rule = format!(
        "integers: prefix sizes 1..8 x all flag values x boundary values (0, 2^N-2..2^N+1, +127/+128, 2^k-1/2^k/2^k+1 for k<=64) through encode->decode; decode of every first byte x every continuation sequence of length <= {} over {{00,01,7f,80,81,ff}}, 5..18-byte all-ff/80/81 tails with and without terminator, padded (non-minimal) encodings, every truncation. Strings: encode->decode of all byte strings of length <= {} (prefix size 8) and length <= 1 for sizes 2..7, lengths around the 7-bit prefix boundary; decode of ALL Huffman-flagged payloads of 0..{} bytes; every 1-symbol string followed by every padding of the two byte-aligned lengths in 0..15 bits and every bit pattern; EOS after every symbol and at every byte alignment; EOS (after nothing / one symbol of every code length) followed by every byte value, ff + every byte value, more EOS bits, all-ones strings of 4..10 bytes; non-Huffman literals at prefix boundaries and every truncation; literals announcing 2^31 ... 2^64-1 bytes with two bytes present (child processes). Oracle refimpl::{{qint,qstr,huffman}} (table from quiche's octets crate). Non-trivial = inputs longer than one byte.",
        if thorough { 4 } else { 3 },
        if thorough { 3 } else { 2 },
        if thorough { 4 } else { 3 }
    );
    rep.assumptions = vec![
        "refimpl::huffman passes its self-check (Kraft sum 1, canonical code, EOS = 30 ones, RFC 7541 Appendix C examples); the code table comes from a third code base (octets 0.3.7)".into(),
        "integers: the RFC 9204 range is < 2^62; above it the codec must be exact or refuse (DESIGN.md 7); encodings with more than 9 continuation bytes may be refused by octet length (RFC 7541 5.1)".into(),
    ];
    rep.bound_note = "exhaustive over the stated finite sets".into();

    // ---- integers
    #[derive(Clone)]
    enum Job {
        IntRt(u8),
        IntDec(u8, Vec<Vec<u8>>),
        StrRt(u8, Vec<Vec<u8>>),
        StrDec(u8, Vec<Vec<u8>>),
        /// all Huffman-flagged payloads lead + every combination of `free` further bytes
        StrDecBlock(Vec<u8>, usize),
    }
    let mut jobs: Vec<Job> = Vec::new();
    for n in 1..=8u8 {
        jobs.push(Job::IntRt(n));
        for c in int_decode_inputs(n, thorough).chunks(8192) {
            jobs.push(Job::IntDec(n, c.to_vec()));
        }
    }
    // ---- strings: encode side
    let mut strs: Vec<Vec<u8>> = vec![vec![]];
    for a in 0..=255u8 {
        strs.push(vec![a]);
    }
    for a in 0..=255u8 {
        for b in 0..=255u8 {
            strs.push(vec![a, b]);
        }
    }
    for len in [3usize, 126, 127, 128, 129, 254, 255, 256, 300] {
        for fill in [b'a', 0x00, 0xff, b'Z'] {
            strs.push(vec![fill; len]);
        }
        strs.push((0..len).map(|i| (i * 7 + 3) as u8).collect());
    }
    for c in strs.chunks(4096) {
        jobs.push(Job::StrRt(8, c.to_vec()));
    }
    if thorough {
        // all 3-byte strings
        for a in 0..=255u8 {
            let mut v = Vec::with_capacity(65536);
            for b in 0..=255u8 {
                for c in 0..=255u8 {
                    v.push(vec![a, b, c]);
                }
            }
            jobs.push(Job::StrRt(8, v));
        }
    }
    for size in 2..=7u8 {
        jobs.push(Job::StrRt(size, strs[..257].to_vec()));
        jobs.push(Job::StrRt(size, strs[strs.len() - 45..].to_vec()));
    }
    // ---- strings: decode side. (1) all Huffman-flagged payloads of 0..2 (3) bytes
    let mut lits: Vec<Vec<u8>> = vec![huff_literal(8, &[])];
    for a in 0..=255u8 {
        lits.push(huff_literal(8, &[a]));
    }
    for a in 0..=255u8 {
        for b in 0..=255u8 {
            lits.push(huff_literal(8, &[a, b]));
        }
    }
    for c in lits.chunks(8192) {
        jobs.push(Job::StrDec(8, c.to_vec()));
    }
    // all 3-byte payloads (and in the thorough tier all 4-byte payloads) as dense blocks
    for a in 0..=255u8 {
        if thorough {
            for b in 0..=255u8 {
                jobs.push(Job::StrDecBlock(vec![a, b], 2));
            }
        }
        jobs.push(Job::StrDecBlock(vec![a], 2));
    }
    // (2) every symbol followed by every padding of both byte-aligned lengths <= 15 and every pattern
    for sym in 0..256usize {
        let cb = code_bits(sym);
        let p0 = (8 - cb.len() % 8) % 8;
        let mut v = Vec::new();
        for p in [p0, p0 + 8] {
            if p > 15 {
                continue;
            }
            for pat in 0u32..(1u32 << p) {
                let mut bits = cb.clone();
                bits.extend((0..p).rev().map(|i| ((pat >> i) & 1) as u8));
                v.push(huff_literal(8, &pack(&bits)));
            }
        }
        // EOS right after the symbol, padded with ones; and the symbol after a byte of padding-like ones
        let mut bits = cb.clone();
        bits.extend(std::iter::repeat(1).take(30));
        while bits.len() % 8 != 0 {
            bits.push(1);
        }
        v.push(huff_literal(8, &pack(&bits)));
        jobs.push(Job::StrDec(8, v));
    }
    // (2b) what follows an EOS: after nothing and after one symbol of every code length, the 30 EOS bits (plus
    // alignment ones) followed by every byte value, by ff + every byte value, by a further EOS, and all-ones
    // strings of 4..10 bytes
    {
        let mut by_len: std::collections::BTreeMap<u32, usize> = Default::default();
        for s in 0..256usize {
            by_len.entry(rh::code(s).0).or_insert(s);
        }
        let mut prefixes: Vec<Vec<u8>> = vec![vec![]];
        prefixes.extend(by_len.values().map(|s| code_bits(*s)));
        let mut v = Vec::new();
        for pre in &prefixes {
            let mut bits = pre.clone();
            bits.extend(std::iter::repeat(1).take(30));
            while bits.len() % 8 != 0 {
                bits.push(1);
            }
            let base = pack(&bits);
            for b in 0..=255u8 {
                let mut x = base.clone();
                x.push(b);
                v.push(huff_literal(8, &x));
                let mut y = base.clone();
                y.push(0xff);
                y.push(b);
                v.push(huff_literal(8, &y));
            }
            let mut z = base.clone();
            z.extend_from_slice(&[0xff, 0xff, 0xff, 0xff]);
            v.push(huff_literal(8, &z));
        }
        for n in 4..=10usize {
            v.push(huff_literal(8, &vec![0xff; n]));
        }
        jobs.push(Job::StrDec(8, v));
    }
    // (3) two-symbol strings over a subset covering every code length, canonical and over-long padding
    let mut by_len: std::collections::BTreeMap<u32, usize> = Default::default();
    for s in 0..256usize {
        by_len.entry(rh::code(s).0).or_insert(s);
    }
    let subset: Vec<usize> = by_len.values().copied().collect();
    let mut v = Vec::new();
    for &a in &subset {
        for &b in &subset {
            let mut bits = code_bits(a);
            bits.extend(code_bits(b));
            let p0 = (8 - bits.len() % 8) % 8;
            for (p, ones) in [(p0, true), (p0 + 8, true), (p0, false)] {
                let mut bb = bits.clone();
                bb.extend(std::iter::repeat(if ones { 1 } else { 0 }).take(p));
                v.push(huff_literal(8, &pack(&bb)));
            }
        }
    }
    jobs.push(Job::StrDec(8, v));
    // (4) non-Huffman literals and truncations, all prefix sizes
    for size in 2..=8u8 {
        let mut v = Vec::new();
        let m = (1usize << (size - 1)) - 1;
        for len in [0usize, 1, 2, m.saturating_sub(1), m, m + 1, m + 2, 300] {
            let s: Vec<u8> = (0..len).map(|i| (i * 5 + 1) as u8).collect();
            for huff in [false, true] {
                let e = qstr::encode(size, 0, &s, huff);
                for cut in 0..e.len() {
                    if cut < 4 || cut + 3 > e.len() {
                        v.push(e[..cut].to_vec());
                    }
                }
                v.push(e);
            }
        }
        jobs.push(Job::StrDec(size, v));
    }

    let accs = explore::par::run(&jobs, Acc::new, |_, job, acc| match job {
        Job::IntRt(n) => {
            let nflags = 1u16 << (8 - n);
            for flags in 0..nflags {
                for v in int_values(*n) {
                    check_int_roundtrip(*n, flags as u8, v, acc);
                }
            }
        }
        Job::IntDec(n, inputs) => {
            for i in inputs {
                check_int_decode(*n, i, acc);
            }
        }
        Job::StrRt(size, ss) => {
            for s in ss {
                check_str_roundtrip(*size, s, acc);
            }
        }
        Job::StrDec(size, ls) => {
            for l in ls {
                check_str_decode(*size, l, acc);
            }
        }
        Job::StrDecBlock(lead, free) => {
            let mut payload = lead.clone();
            let base = payload.len();
            payload.extend(std::iter::repeat(0).take(*free));
            let mut lit = huff_literal(8, &payload);
            let off = lit.len() - payload.len();
            for x in 0..(1usize << (8 * free)) {
                for k in 0..*free {
                    lit[off + base + k] = (x >> (8 * (free - 1 - k))) as u8;
                }
                check_str_decode_d(8, &lit, true, acc);
            }
        }
    });
    let mut total = Acc::new();
    for a in accs {
        total.merge(a);
    }
    // string literals announcing 2^31 ... 2^64-1 bytes with two bytes present: each in a child process (a decoder
    // that allocates the announced length first makes the allocator abort, which cannot be caught in-process)
    {
        let mut inputs: Vec<(u8, Vec<u8>)> = Vec::new();
        for size in [8u8, 4, 2] {
            for l in [1u64 << 31, 1 << 32, 1 << 36, 1 << 40, 1 << 47, 1 << 61, 1 << 62, 1 << 63, u64::MAX] {
                for huffman in [0u8, 1] {
                    let mut b = qint::encode(size - 1, huffman, l);
                    b.extend_from_slice(b"xy");
                    inputs.push((size, b));
                }
            }
        }
        let iso = explore::par::run(&inputs, Acc::new, |_, (size, b), acc| {
            acc.evaluations += 1;
            let rep = || json!({"kind":"str-decode","size":size,"input":hex(b)});
            match crate::common::run_isolated("C15", &rep()) {
                crate::common::Isolated::NoViolation => {}
                crate::common::Isolated::Violations(v) => {
                    for (sig, msg) in v {
                        acc.violation(sig, msg, (0, b.len()), rep);
                    }
                }
                crate::common::Isolated::Aborted(sigl) => acc.violation(
                    format!("C15:str-decode-process-aborted:size={size}"),
                    format!("decode({}) killed the process ({sigl}): an allocation sized by the announced length?", hex(b)),
                    (0, b.len()),
                    rep,
                ),
                crate::common::Isolated::TimedOut => acc.violation(format!("C15:str-decode-does-not-return:size={size}"), format!("decode({}) did not return within 120 s", hex(b)), (0, b.len()), rep),
                crate::common::Isolated::Machinery(e) => explore::machinery_failure(&format!("isolated run failed: {e}")),
            }
        });
        for a in iso {
            total.merge(a);
        }
        total.count("isolated_huge_announced_length_inputs", inputs.len() as u64);
    }
    total.sample(|| json!({"string_literal":"811f","meaning":"H=1, 1 byte 0x1f = 'a' (00011) + 3 bits of padding 111","reference":"accept, \"a\""}));
    total.sample(|| json!({"string_literal":"821fff","meaning":"'a' + 11 bits of padding","reference":"reject: padding longer than 7 bits"}));
    total.sample(|| json!({"integer":{"prefix":5,"input":"1f9a0a"},"reference":"1337"}));
    rep.finish(total)
}

pub fn replay(r: &Value) -> i32 {
    let mut acc = Acc::new();
    match r["kind"].as_str() {
        Some("int-encode") => check_int_roundtrip(r["prefix"].as_u64().unwrap() as u8, r["flags"].as_u64().unwrap() as u8, r["value"].as_str().unwrap().parse().unwrap(), &mut acc),
        Some("int-decode") => check_int_decode(r["prefix"].as_u64().unwrap() as u8, &explore::unhex(r["input"].as_str().unwrap()), &mut acc),
        Some("str-encode") => check_str_roundtrip(r["size"].as_u64().unwrap() as u8, &explore::unhex(r["string"].as_str().unwrap()), &mut acc),
        Some("str-decode") => check_str_decode(r["size"].as_u64().unwrap() as u8, &explore::unhex(r["input"].as_str().unwrap()), &mut acc),
        _ => return 2,
    }
    for (sig, v) in &acc.violations {
        println!("observed: {sig}: {}", v.what);
    }
    if acc.violations.is_empty() {
        println!("observed: no violation");
        0
    } else {
        1
    }
}
