//! C02 — frame boundaries follow RFC 9114 7.1 exactly, independent of chunking.
//!
//! Seam 1: the real `h3::frame::FrameStream::{poll_next, poll_data}` over a scripted
//! `RecvStream`, compared with `refimpl::frames` for every byte string of a frame grammar,
//! every truncation, both stream endings and every chunking (all 2^(n-1) for short strings).
//! Seam 2 (close code really sent by a connection) lives in `c02_conn`.

use crate::common::{guard, short_loc};
use crate::Args;
use bytes::{Buf, Bytes};
use explore::report::{Acc, Report, Tier};
use explore::{hex, Fnv};
use h3::error::internal_error::InternalConnectionError;
use h3::error::{Code, LocalError};
use h3::frame::{FrameStream, FrameStreamError};
use h3::proto::frame::{Frame, PayloadLen, SettingId};
use h3::proto::varint::VarInt;
use h3::quic::{RecvStream, StreamErrorIncoming, StreamId};
use h3::stream::BufRecvStream;
use refimpl::frames as rf;
use serde_json::{json, Value};
use std::collections::{HashSet, VecDeque};
use std::convert::TryFrom;
use std::task::{Context, Poll};

// ------------------------------------------------------------------------------------------
// scripted transport stream

pub struct ScriptedRecv {
    pub chunks: VecDeque<Bytes>,
    pub fin: bool,
    pub polls_after_end: usize,
}

impl RecvStream for ScriptedRecv {
    type Buf = Bytes;
    fn poll_data(&mut self, _cx: &mut Context<'_>) -> Poll<Result<Option<Bytes>, StreamErrorIncoming>> {
        match self.chunks.pop_front() {
            Some(c) => Poll::Ready(Ok(Some(c))),
            None if self.fin => Poll::Ready(Ok(None)),
            None => {
                self.polls_after_end += 1;
                Poll::Pending
            }
        }
    }
    fn stop_sending(&mut self, _error_code: u64) {}
    fn recv_id(&self) -> StreamId {
        StreamId::try_from(0u64).unwrap()
    }
}

// ------------------------------------------------------------------------------------------
// observations

#[derive(Debug, Clone, PartialEq, Eq, Hash)]
pub enum Ev {
    /// DATA frame header with its declared length
    Data(u64),
    /// concatenation of the payload bytes handed out for the preceding DATA header
    DataBytes(Vec<u8>),
    /// the DATA payload was reported complete
    DataEnd,
    Headers(Vec<u8>),
    CancelPush(u64),
    /// effective values of the identifiers the alphabet uses: (0x1, 0x6, 0x7)
    Settings(Vec<Option<u64>>),
    PushPromise(u64),
    Goaway(u64),
    MaxPushId(u64),
    Other(String),
}

#[derive(Debug, Clone, PartialEq, Eq, Hash)]
pub enum Term {
    End,
    Pending,
    Error(u64),
    Quic,
    Panic(String),
}

pub fn code_of_proto(e: h3::frame::FrameProtocolError) -> u64 {
    let ice: InternalConnectionError = InternalConnectionError::got_frame_error(e);
    match LocalError::from(ice) {
        LocalError::Application { code, .. } => code.value(),
        _ => u64::MAX,
    }
}

fn term_of(e: FrameStreamError) -> Term {
    match e {
        FrameStreamError::Proto(p) => Term::Error(code_of_proto(p)),
        // mapped by handle_frame_stream_error_on_request_stream / poll_control
        FrameStreamError::UnexpectedEnd => Term::Error(Code::H3_FRAME_ERROR.value()),
        FrameStreamError::Quic(_) => Term::Quic,
    }
}

const SETTING_IDS: [u64; 3] = [0x1, 0x6, 0x7];

fn ev_of(f: Frame<PayloadLen>) -> Ev {
    match f {
        Frame::Data(PayloadLen(n)) => Ev::Data(n as u64),
        Frame::Headers(b) => Ev::Headers(b.to_vec()),
        Frame::CancelPush(id) => Ev::CancelPush(VarInt::from(id).into_inner()),
        Frame::Settings(s) => Ev::Settings(SETTING_IDS.iter().map(|&i| s.get(SettingId(i))).collect()),
        Frame::Goaway(v) => Ev::Goaway(v.into_inner()),
        Frame::MaxPushId(id) => Ev::MaxPushId(VarInt::from(id).into_inner()),
        f @ Frame::PushPromise(_) => {
            let d = format!("{f:?}");
            match d.strip_prefix("PushPromise(").and_then(|s| s.strip_suffix(')')).and_then(|s| s.parse().ok()) {
                Some(id) => Ev::PushPromise(id),
                None => Ev::Other(d),
            }
        }
        other => Ev::Other(format!("{other:?}")),
    }
}

/// The documented reader pattern: `poll_next` until None/error; after `Data` call `poll_data`
/// until it returns None.
pub fn h3_read(chunks: &[&[u8]], fin: bool) -> (Vec<Ev>, Term) {
    let mut evs: Vec<Ev> = Vec::new();
    let r = guard(|| h3_read_inner(chunks, fin, &mut evs));
    match r {
        Ok(t) => (evs, t),
        Err(p) => (evs, Term::Panic(p)),
    }
}

fn h3_read_inner(chunks: &[&[u8]], fin: bool, evs: &mut Vec<Ev>) -> Term {
    let recv = ScriptedRecv {
        chunks: chunks.iter().filter(|c| !c.is_empty()).map(|c| Bytes::copy_from_slice(c)).collect(),
        fin,
        polls_after_end: 0,
    };
    let mut fs: FrameStream<ScriptedRecv, Bytes> = FrameStream::new(BufRecvStream::new(recv));
    let waker = futures_util::task::noop_waker();
    let mut cx = Context::from_waker(&waker);
    let mut steps = 0usize;
    loop {
        steps += 1;
        if steps > 10_000 {
            return Term::Panic("reader did not terminate in 10000 steps".into());
        }
        match fs.poll_next(&mut cx) {
            Poll::Pending => return Term::Pending,
            Poll::Ready(Err(e)) => return term_of(e),
            Poll::Ready(Ok(None)) => return Term::End,
            Poll::Ready(Ok(Some(f))) => {
                let ev = ev_of(f);
                let is_data = matches!(ev, Ev::Data(_));
                evs.push(ev);
                if is_data {
                    evs.push(Ev::DataBytes(Vec::new()));
                    let at = evs.len() - 1;
                    loop {
                        steps += 1;
                        if steps > 10_000 {
                            return Term::Panic("reader did not terminate in 10000 steps".into());
                        }
                        match fs.poll_data(&mut cx) {
                            Poll::Pending => return Term::Pending,
                            Poll::Ready(Err(e)) => return term_of(e),
                            Poll::Ready(Ok(None)) => {
                                evs.push(Ev::DataEnd);
                                break;
                            }
                            Poll::Ready(Ok(Some(mut b))) => {
                                while b.has_remaining() {
                                    let c = b.chunk().to_vec();
                                    b.advance(c.len());
                                    if let Ev::DataBytes(v) = &mut evs[at] {
                                        v.extend(c);
                                    }
                                }
                            }
                        }
                    }
                }
            }
        }
    }
}

// ------------------------------------------------------------------------------------------
// reference expectation

#[derive(Debug, Clone, PartialEq, Eq)]
pub struct Expect {
    pub events: Vec<Ev>,
    /// acceptable terminals; the first one is the preferred reading
    pub terms: Vec<Term>,
    /// why the reference decided so (for messages and signatures)
    pub why: &'static str,
    /// type of the frame that decides the terminal (or of the last frame)
    pub ty: Option<u64>,
}

const FRAME_ERROR: u64 = 0x106;
const FRAME_UNEXPECTED: u64 = 0x105;
const SETTINGS_ERROR: u64 = 0x109;

fn settings_ev(payload: &[u8]) -> Ev {
    // effective values of SETTING_IDS (first occurrence; the alphabet has no duplicates of known ids)
    let mut vals: Vec<Option<u64>> = vec![None; SETTING_IDS.len()];
    let mut p = 0;
    while p < payload.len() {
        let refimpl::varint::Decoded::Ok(id, n) = refimpl::varint::decode(&payload[p..]) else { break };
        p += n;
        let refimpl::varint::Decoded::Ok(v, n) = refimpl::varint::decode(&payload[p..]) else { break };
        p += n;
        if let Some(i) = SETTING_IDS.iter().position(|&k| k == id) {
            if vals[i].is_none() {
                vals[i] = Some(v);
            }
        }
    }
    Ev::Settings(vals)
}

pub fn expect(s: &[u8], fin: bool) -> Expect {
    let (frames, tail) = rf::segment(s);
    let mut events = Vec::new();
    let mut last_ty = None;
    for f in &frames {
        last_ty = Some(f.ty);
        if rf::is_h2_reserved(f.ty) {
            return Expect { events, terms: vec![Term::Error(FRAME_UNEXPECTED)], why: "h2-reserved-type", ty: Some(f.ty) };
        }
        if !rf::is_known(f.ty) {
            continue; // skipped in full, no event
        }
        if let Some(fault) = rf::payload_fault(f.ty, &f.payload) {
            let mut terms = vec![Term::Error(FRAME_ERROR)];
            if f.ty == rf::SETTINGS {
                terms.push(Term::Error(SETTINGS_ERROR)); // DESIGN.md section 7
            }
            return Expect {
                events,
                terms,
                why: match fault {
                    rf::PayloadFault::TooLong => "payload-longer-than-fields",
                    rf::PayloadFault::TooShort => "payload-shorter-than-fields",
                },
                ty: Some(f.ty),
            };
        }
        match f.ty {
            rf::DATA => {
                events.push(Ev::Data(f.payload.len() as u64));
                events.push(Ev::DataBytes(f.payload.clone()));
                events.push(Ev::DataEnd);
            }
            rf::HEADERS => events.push(Ev::Headers(f.payload.clone())),
            rf::CANCEL_PUSH => events.push(Ev::CancelPush(rf::single_varint(&f.payload).unwrap())),
            rf::GOAWAY => events.push(Ev::Goaway(rf::single_varint(&f.payload).unwrap())),
            rf::MAX_PUSH_ID => events.push(Ev::MaxPushId(rf::single_varint(&f.payload).unwrap())),
            rf::SETTINGS => events.push(settings_ev(&f.payload)),
            rf::PUSH_PROMISE => {
                let refimpl::varint::Decoded::Ok(id, _) = refimpl::varint::decode(&f.payload) else { unreachable!() };
                events.push(Ev::PushPromise(id));
            }
            _ => unreachable!(),
        }
    }
    match tail {
        rf::Tail::Clean => Expect {
            events,
            terms: vec![if fin { Term::End } else { Term::Pending }],
            why: "clean",
            ty: last_ty,
        },
        rf::Tail::Partial { start, ty, len, have } => {
            let mut terms = Vec::new();
            if ty == Some(rf::DATA) {
                if let Some(l) = len {
                    // DATA payloads are streamed: header and the bytes present are delivered
                    events.push(Ev::Data(l));
                    let ps = s.len() - have;
                    events.push(Ev::DataBytes(s[ps..].to_vec()));
                }
            }
            if fin {
                terms.push(Term::Error(FRAME_ERROR));
                if ty.map(rf::is_h2_reserved).unwrap_or(false) {
                    terms.push(Term::Error(FRAME_UNEXPECTED));
                }
                Expect { events, terms, why: "cut-off-by-end-of-stream", ty }
            } else {
                terms.push(Term::Pending);
                if let (Some(t), Some(l)) = (ty, len) {
                    let ps = s.len() - have;
                    if rf::doomed(t, l, &s[ps..]) {
                        terms.push(Term::Error(FRAME_ERROR));
                    }
                }
                if ty.map(rf::is_h2_reserved).unwrap_or(false) {
                    terms.push(Term::Error(FRAME_UNEXPECTED));
                }
                let _ = start;
                Expect { events, terms, why: "incomplete-open", ty }
            }
        }
    }
}

// ------------------------------------------------------------------------------------------
// comparison

fn term_name(t: &Term) -> String {
    match t {
        Term::End => "End".into(),
        Term::Pending => "Pending".into(),
        Term::Error(c) => format!("Error({:#x})", c),
        Term::Quic => "QuicError".into(),
        Term::Panic(p) => format!("panic@{}", short_loc(p)),
    }
}

/// Expected and observed frame events agree. When the run ended in an error or a panic the
/// observation may stop early (the property does not demand that everything before an error is
/// surfaced first): it must then be a prefix, where the last DATA payload may be a byte prefix.
fn events_match(exp: &[Ev], got: &[Ev], term: &Term) -> bool {
    if exp == got {
        return true;
    }
    if !matches!(term, Term::Error(_) | Term::Panic(_)) {
        return false;
    }
    if got.len() > exp.len() {
        return false;
    }
    for (i, g) in got.iter().enumerate() {
        let e = &exp[i];
        if e == g {
            continue;
        }
        match (e, g) {
            (Ev::DataBytes(eb), Ev::DataBytes(gb)) if i == got.len() - 1 && eb.starts_with(gb) => continue,
            _ => return false,
        }
    }
    true
}

/// None if the observation satisfies the expectation, else (signature, message).
pub fn judge(s: &[u8], fin: bool, exp: &Expect, got: &(Vec<Ev>, Term)) -> Option<(String, String)> {
    let ty = exp.ty.map(|t| format!("{t:#x}")).unwrap_or_else(|| "none".into());
    let end = if fin { "fin" } else { "open" };
    let term_ok = exp.terms.contains(&got.1);
    let events_ok = events_match(&exp.events, &got.0, &got.1);
    if term_ok && events_ok {
        return None;
    }
    let sig = if !term_ok {
        format!("C02:s1:{}:{}:exp={}:got={}:ty={}", exp.why, end, term_name(&exp.terms[0]), term_name(&got.1), ty)
    } else {
        // same terminal, different frames: find the first differing event
        let i = exp.events.iter().zip(got.0.iter()).position(|(a, b)| a != b).unwrap_or(exp.events.len().min(got.0.len()));
        let kind = |e: Option<&Ev>| match e {
            None => "nothing".to_string(),
            Some(Ev::Data(_)) => "DATA".into(),
            Some(Ev::DataBytes(_)) => "data-bytes".into(),
            Some(Ev::DataEnd) => "data-end".into(),
            Some(Ev::Headers(_)) => "HEADERS".into(),
            Some(Ev::CancelPush(_)) => "CANCEL_PUSH".into(),
            Some(Ev::Settings(_)) => "SETTINGS".into(),
            Some(Ev::PushPromise(_)) => "PUSH_PROMISE".into(),
            Some(Ev::Goaway(_)) => "GOAWAY".into(),
            Some(Ev::MaxPushId(_)) => "MAX_PUSH_ID".into(),
            Some(Ev::Other(_)) => "other".into(),
        };
        format!("C02:s1:frames-differ:{}:exp={}:got={}", end, kind(exp.events.get(i)), kind(got.0.get(i)))
    };
    let msg = format!(
        "bytes {} ({end}): reference says {:?} then {} [{}]; h3 produced {:?} then {}",
        hex(s),
        exp.events,
        exp.terms.iter().map(term_name).collect::<Vec<_>>().join(" or "),
        exp.why,
        got.0,
        match &got.1 {
            Term::Panic(p) => format!("PANIC {p}"),
            t => term_name(t),
        }
    );
    Some((sig, msg))
}

// ------------------------------------------------------------------------------------------
// grammar

#[derive(Clone)]
struct FrameSpec {
    bytes: Vec<u8>,
}

fn payload_variants(ty: u64) -> Vec<(u64, Vec<u8>)> {
    // (declared length, payload bytes actually present)
    let mut v: Vec<Vec<u8>> = Vec::new();
    match ty {
        rf::CANCEL_PUSH | rf::GOAWAY | rf::MAX_PUSH_ID => {
            v.extend([
                vec![],
                vec![0x04],
                vec![0x40],                   // announces 2 bytes, has 1
                vec![0x40, 0x04],             // 4 in the 2-byte form
                vec![0x04, 0x00],             // one trailing byte
                vec![0x04, 0x00, 0x00],       // two trailing bytes that look like DATA(0)
                vec![0x80, 0x00, 0x00],       // announces 4, has 3
                vec![0x80, 0x00, 0x00, 0x08], // 8 in the 4-byte form
                vec![0xc0, 0, 0, 0, 0, 0, 0, 0x0c],
                vec![0x08, 0x07, 0x01, 0x00], // trailing bytes that look like GOAWAY(0)
            ]);
        }
        rf::SETTINGS => {
            v.extend([
                vec![],
                vec![0x06, 0x10],
                vec![0x06],
                vec![0x06, 0x40],
                vec![0x06, 0x40, 0x10],
                vec![0x06, 0x10, 0x07],
                vec![0x06, 0x10, 0x07, 0x00],
                vec![0x42, 0x42, 0x01],
                vec![0x42, 0x42],
            ]);
        }
        rf::PUSH_PROMISE => {
            v.extend([vec![], vec![0x01], vec![0x40], vec![0x40, 0x01], vec![0x01, 0xaa, 0xbb]]);
        }
        _ => {
            // opaque payloads whose bytes look like frame headers (a mis-synchronised parser would act on them)
            v.extend([vec![], vec![0x07], vec![0x07, 0x01], vec![0x07, 0x01, 0x04], vec![0x00, 0x00, 0x01, 0x00]]);
        }
    }
    v.into_iter().map(|p| (p.len() as u64, p)).collect()
}

const TYPES_ALL: [u64; 14] = [0x0, 0x1, 0x3, 0x4, 0x5, 0x7, 0xd, 0x2, 0x6, 0x8, 0x9, 0x21, 0x2f, 0x3fff_ffff_ffff_ff00];

fn singles(thorough: bool) -> Vec<FrameSpec> {
    let mut out = Vec::new();
    for &ty in &TYPES_ALL {
        for (len, payload) in payload_variants(ty) {
            // shortest forms
            out.push(FrameSpec { bytes: rf::encode(ty, None, len, None, &payload) });
            // padded forms of type and length
            let forms: &[usize] = if thorough { &[1, 2, 4, 8] } else { &[2, 8] };
            for &tf in forms {
                if let Some(_) = refimpl::varint::encode_len(ty, tf) {
                    out.push(FrameSpec { bytes: rf::encode(ty, Some(tf), len, None, &payload) });
                }
            }
            for &lf in forms {
                if let Some(_) = refimpl::varint::encode_len(len, lf) {
                    out.push(FrameSpec { bytes: rf::encode(ty, None, len, Some(lf), &payload) });
                }
            }
            // declared length differs from the bytes that follow (+1: next bytes are swallowed; handled by sequences)
        }
    }
    out
}

fn reduced(thorough: bool) -> Vec<FrameSpec> {
    // a smaller alphabet for sequences
    let mut out = Vec::new();
    let specs: Vec<(u64, Vec<u8>)> = vec![
        (0x0, vec![]),
        (0x0, vec![0x07, 0x01]),
        (0x1, vec![0x00, 0x00]),
        (0x3, vec![0x04]),
        (0x3, vec![0x04, 0x00]),
        (0x4, vec![0x06, 0x10]),
        (0x7, vec![0x04]),
        (0x7, vec![0x40]),
        (0x7, vec![0x04, 0x00, 0x00]),
        (0xd, vec![0x40, 0x04]),
        (0x5, vec![0x01, 0xaa]),
        (0x21, vec![]),
        (0x21, vec![0x00, 0x01]),
        (0x2f, vec![0x07, 0x01, 0x04]),
        (0x6, vec![]),
    ];
    for (ty, p) in specs {
        out.push(FrameSpec { bytes: rf::frame(ty, &p) });
    }
    if thorough {
        out.push(FrameSpec { bytes: rf::encode(0x0, Some(2), 2, Some(4), &[0xaa, 0xbb]) });
        out.push(FrameSpec { bytes: rf::encode(0x3fff_ffff_ffff_ff00, None, 1, None, &[0x00]) });
        out.push(FrameSpec { bytes: rf::frame(0xd, &[0x04]) });
        out.push(FrameSpec { bytes: rf::frame(0x1, &[]) });
    }
    out
}

fn strings(tier: Tier) -> Vec<Vec<u8>> {
    let thorough = tier == Tier::Thorough;
    let mut set: HashSet<Vec<u8>> = HashSet::new();
    let mut add = |s: Vec<u8>| {
        for cut in 0..=s.len() {
            set.insert(s[..cut].to_vec());
        }
    };
    // all byte strings of length <= 2 (quick) / 3 (thorough)
    let maxlen = if thorough { 3 } else { 2 };
    let mut cur: Vec<Vec<u8>> = vec![vec![]];
    for _ in 0..maxlen {
        let mut next = Vec::new();
        for s in &cur {
            for b in 0..=255u8 {
                let mut t = s.clone();
                t.push(b);
                next.push(t);
            }
        }
        for s in &next {
            add(s.clone());
        }
        cur = next;
    }
    let one = singles(thorough);
    for a in &one {
        add(a.bytes.clone());
    }
    let red = reduced(thorough);
    // every single followed/preceded by a reduced frame
    for a in &one {
        for b in &red {
            if !thorough && a.bytes.len() + b.bytes.len() > 14 {
                continue;
            }
            let mut s = a.bytes.clone();
            s.extend(&b.bytes);
            add(s);
        }
    }
    for a in &red {
        for b in &red {
            let mut s = a.bytes.clone();
            s.extend(&b.bytes);
            add(s.clone());
            let tri: &[FrameSpec] = if thorough { &red } else { &red[..8] };
            for c in tri {
                let mut t = s.clone();
                t.extend(&c.bytes);
                if !thorough && t.len() > 12 {
                    continue;
                }
                add(t);
            }
        }
    }
    let mut v: Vec<Vec<u8>> = set.into_iter().filter(|s| !has_webtransport_signal(s)).collect();
    v.sort();
    v
}

/// A frame header of type 0x41 with a complete second varint is not a frame at all for h3: it is the WebTransport
/// bidirectional-stream signal (the second varint is a session id and the caller takes the stream over). That is
/// outside this property's alphabet (C19 covers it); the dense enumeration of short strings must not contain it.
fn has_webtransport_signal(s: &[u8]) -> bool {
    let mut at = 0usize;
    loop {
        let refimpl::varint::Decoded::Ok(ty, n) = refimpl::varint::decode(&s[at..]) else { return false };
        let refimpl::varint::Decoded::Ok(len, m) = refimpl::varint::decode(&s[at + n..]) else { return false };
        if ty == 0x41 {
            return true;
        }
        at = at + n + m + len.min(s.len() as u64) as usize;
        if at >= s.len() {
            return false;
        }
    }
}

/// All chunkings for n <= dense_max bytes; otherwise every set of at most `max_cuts` cut positions.
fn chunkings(n: usize, dense_max: usize, max_cuts: usize, mut f: impl FnMut(&[usize])) {
    if n <= 1 {
        f(&[]);
        return;
    }
    if n <= dense_max {
        for mask in 0u32..(1u32 << (n - 1)) {
            let cuts: Vec<usize> = (1..n).filter(|i| mask & (1 << (i - 1)) != 0).collect();
            f(&cuts);
        }
        return;
    }
    f(&[]);
    let pos: Vec<usize> = (1..n).collect();
    fn rec(pos: &[usize], start: usize, left: usize, cur: &mut Vec<usize>, f: &mut dyn FnMut(&[usize])) {
        if left == 0 {
            return;
        }
        for i in start..pos.len() {
            cur.push(pos[i]);
            f(cur);
            rec(pos, i + 1, left - 1, cur, f);
            cur.pop();
        }
    }
    rec(&pos, 0, max_cuts, &mut Vec::new(), &mut f);
    // plus one byte per chunk
    f(&pos);
}

fn split<'a>(s: &'a [u8], cuts: &[usize]) -> Vec<&'a [u8]> {
    let mut out = Vec::with_capacity(cuts.len() + 1);
    let mut last = 0;
    for &c in cuts {
        out.push(&s[last..c]);
        last = c;
    }
    out.push(&s[last..]);
    out
}

fn check_string(s: &[u8], dense_max: usize, max_cuts: usize, acc: &mut Acc) {
    for fin in [true, false] {
        let exp = expect(s, fin);
        let mut first: Option<(Vec<Ev>, Term)> = None;
        let mut cut_inside_frame = false;
        chunkings(s.len(), dense_max, max_cuts, |cuts| {
            acc.evaluations += 1;
            acc.transitions += cuts.len() as u64 + 1;
            let chunks = split(s, cuts);
            let got = h3_read(&chunks, fin);
            if !cuts.is_empty() {
                cut_inside_frame = true;
            }
            if let Some((sig, msg)) = judge(s, fin, &exp, &got) {
                acc.violation(sig, msg, (cuts.len(), s.len()), || {
                    json!({"seam":1,"bytes":hex(s),"fin":fin,"cuts":cuts})
                });
            } else if let Some(f) = &first {
                if *f != got {
                    // both acceptable but different: the outcome depends on the chunking
                    acc.count("chunking_dependent_but_acceptable", 1);
                }
            } else {
                first = Some(got.clone());
            }
            let mut h = Fnv::new();
            h.str(&format!("{:?}|{}", got.0.len(), term_name(&got.1)));
            acc.outcomes.insert(h.finish());
        });
        let mut h = Fnv::new();
        h.bytes(s);
        h.u64(fin as u64);
        acc.states.insert(h.finish());
        if cut_inside_frame && s.len() >= 2 {
            acc.nontrivial.insert(h.finish());
        }
    }
}

pub fn run(args: &Args) -> i32 {
    let thorough = args.tier == Tier::Thorough;
    let mut rep = Report::new("C02", args.tier, args.seed, "model_checking");
    rep.exhaustive = true;
    let (dense_max, max_cuts) = if thorough { (12, 3) } else { (9, 2) };
    rep.rule = format!(
        "byte strings = every truncation of: all strings of <= {} bytes; every frame of the grammar (14 types incl. all known, the 4 HTTP/2-reserved, grease, unknown 1- and 8-byte types; payloads shorter/equal/longer than the fixed fields; padded varint forms) alone, followed by a frame of a reduced alphabet, and sequences of 2-3 reduced frames. Each string x ending (FIN, open) x chunking: all 2^(n-1) chunkings for n <= {dense_max} bytes, else every set of <= {max_cuts} cuts plus one-byte-per-chunk. Reader = documented poll_next/poll_data pattern on the real FrameStream; oracle = refimpl::frames. states = distinct (string, ending); transitions = chunks delivered; non-trivial = strings of >= 2 bytes delivered with at least one cut.",
        if thorough { 3 } else { 2 }
    );
    rep.assumptions = vec![
        "refimpl::frames transcribes RFC 9114 7.1/7.2 (unit-tested)".into(),
        "frame type 0x41 (WebTransport bidi signal) is outside this alphabet; it is covered by C19".into(),
        "error classes at this seam are mapped through h3's own got_frame_error table; the code on the wire is checked at seam 2".into(),
        "SETTINGS payload truncated inside an entry: H3_FRAME_ERROR or H3_SETTINGS_ERROR accepted (DESIGN.md 7)".into(),
    ];
    rep.rule.push_str(" Seam 2 (c02_conn): every faulty string of its list written by a scripted peer to a real server / client connection over simnet - on the control stream, on a request stream as the first frame, behind a valid head, and behind a complete message (head, DATA, trailers) - delivered whole, one byte per read, under explored read cuts and delays (deviation bound 2/3), and with the last k bytes and the end of the stream arriving only after the endpoint has consumed everything before them, for every k; oracle = the code of the connection close and of the error the driver reports.");
    rep.bound_note = format!("exhaustive over the stated grammar; dense chunking up to {dense_max} bytes, <= {max_cuts} cuts above");
    let ss = strings(args.tier);
    let chunks: Vec<&[Vec<u8>]> = ss.chunks(64).collect();
    let accs = explore::par::run(&chunks, Acc::new, |_, c, acc| {
        for s in *c {
            check_string(s, dense_max, max_cuts, acc);
        }
    });
    let mut total = Acc::new();
    for a in accs {
        total.merge(a);
    }
    total.count("strings", ss.len() as u64);
    total.sample(|| json!({"bytes":"0703040000","ending":"fin","chunking":[2,4],"reference":"GOAWAY payload longer than its varint -> H3_FRAME_ERROR"}));
    total.sample(|| json!({"bytes":"00046162","ending":"fin","chunking":[2],"reference":"DATA(4) with 2 payload bytes cut off by FIN -> H3_FRAME_ERROR"}));
    total.sample(|| json!({"bytes":hex(&ss[ss.len() / 2]),"ending":"open","chunking":"all"}));
    // seam 2
    crate::c02_conn::run_into(args, &mut total);
    rep.finish(total)
}

pub fn replay(r: &Value) -> i32 {
    if r["seam"].as_u64() == Some(2) {
        return crate::c02_conn::replay(r);
    }
    let s = explore::unhex(r["bytes"].as_str().unwrap());
    let fin = r["fin"].as_bool().unwrap();
    let cuts: Vec<usize> = r["cuts"].as_array().unwrap().iter().map(|v| v.as_u64().unwrap() as usize).collect();
    let exp = expect(&s, fin);
    let chunks = split(&s, &cuts);
    println!("chunks: {:?}  end: {}", chunks.iter().map(|c| hex(c)).collect::<Vec<_>>(), if fin { "FIN" } else { "open" });
    let got = h3_read(&chunks, fin);
    println!("reference: {:?} then {:?} [{}]", exp.events, exp.terms, exp.why);
    println!("h3       : {:?} then {:?}", got.0, got.1);
    let again = h3_read(&chunks, fin);
    if again != got {
        println!("REPLAY DIVERGED: second run produced {:?} then {:?}", again.0, again.1);
        return 2;
    }
    match judge(&s, fin, &exp, &got) {
        Some((sig, msg)) => {
            println!("observed: {sig}: {msg}");
            1
        }
        None => {
            println!("observed: no violation");
            0
        }
    }
}
