//! C04 — control and unidirectional stream rules are enforced with the right error, and every
//! control frame is acted upon exactly once whatever the endpoint's own outgoing streams suffer.
//!
//! Family A: one peer control stream carrying every frame sequence up to length M over the
//!   control alphabet, every ending, every delivery mode, under four own-side environments
//!   (grease off / on, stream credit for the optional grease stream withheld, writes accepted one
//!   byte at a time). Oracle: refimpl::h3auto::control_stream + exactly-once effects.
//! Family B: up to N unidirectional streams of every kind (control, push, encoder, decoder,
//!   WebTransport, grease, unknown, closed or reset before the type is complete), every type
//!   varint form, every arrival order. Oracle: duplicates of critical streams =>
//!   H3_STREAM_CREATION_ERROR, everything else => no connection error.

use crate::scen::*;
use crate::Args;
use explore::dfs::{self, Caps};
use explore::report::{Acc, Report, Tier};
use explore::Fnv;
use h3::ConnectionState;
use refimpl::frames as rf;
use refimpl::h3auto::{self as auto, CtrlEnding, CtrlEvent, Endpoint};
use refimpl::varint;
use serde_json::{json, Value};
use simnet::exec::yield_now;
use simnet::{Exec, Net, NetCfg, Policy, SimConn, CLIENT, SERVER};
use std::sync::Arc;

#[derive(Clone, Copy, Debug, PartialEq, Eq)]
pub enum Mode {
    Whole,
    PerFrame,
    PerByte,
    Explore,
}

#[derive(Clone, Copy, Debug, PartialEq, Eq)]
pub struct Env {
    pub grease: bool,
    /// unidirectional streams the endpoint may open (None = unlimited; 3 = the grease stream never opens)
    pub uni_credit: Option<usize>,
    pub write_per_byte: bool,
}

#[derive(Clone, Copy, Debug, PartialEq, Eq)]
pub enum Kind {
    Control,
    Push,
    Encoder,
    Decoder,
    WtUni,
    Grease,
    Unknown,
    /// FIN before any byte
    NoneFin,
    /// RESET before any byte
    NoneReset,
    /// first byte of a 2-byte type varint, then FIN
    PartialFin,
    /// first byte of a 2-byte type varint, then RESET
    PartialReset,
    /// first byte of a 2-byte type varint, then nothing: the stream stays open and untyped (the streams
    /// that arrive after it must still be classified)
    PartialOpen,
}

#[derive(Clone, Debug)]
pub struct Case {
    pub me: Endpoint,
    /// family A: control frame sequence (indices into the alphabet); family B: empty
    pub seq: Vec<usize>,
    pub end: CtrlEnding,
    /// stream kinds in arrival order, each with its type varint form
    pub streams: Vec<(Kind, usize)>,
    /// varint form of the second varint (push id / session id) of typed streams
    pub id_form: usize,
    pub mode: Mode,
    pub env: Env,
}

pub struct Item {
    pub name: &'static str,
    pub bytes: Vec<u8>,
}

pub fn alphabet() -> Vec<Item> {
    let mut pp = vec![0x01];
    pp.extend_from_slice(REQ_SECTION);
    vec![
        Item { name: "SETTINGS(datagram=1)", bytes: rf::frame(rf::SETTINGS, &[0x33, 0x01]) },
        Item { name: "SETTINGS()", bytes: rf::frame(rf::SETTINGS, &[]) },
        Item { name: "GOAWAY(0)", bytes: rf::frame(rf::GOAWAY, &[0x00]) },
        Item { name: "GOAWAY(4)", bytes: rf::frame(rf::GOAWAY, &[0x04]) },
        Item { name: "CANCEL_PUSH(0)", bytes: rf::frame(rf::CANCEL_PUSH, &[0x00]) },
        Item { name: "MAX_PUSH_ID(4)", bytes: rf::frame(rf::MAX_PUSH_ID, &[0x04]) },
        Item { name: "DATA(1)", bytes: rf::frame(rf::DATA, &[0xaa]) },
        Item { name: "HEADERS", bytes: rf::frame(rf::HEADERS, REQ_SECTION) },
        Item { name: "PUSH_PROMISE", bytes: rf::frame(rf::PUSH_PROMISE, &pp) },
        Item { name: "h2-0x2", bytes: rf::frame(0x2, &[]) },
        Item { name: "h2-0x6", bytes: rf::frame(0x6, &[0x00]) },
        Item { name: "h2-0x8", bytes: rf::frame(0x8, &[]) },
        Item { name: "h2-0x9", bytes: rf::frame(0x9, &[]) },
        Item { name: "grease(0)", bytes: rf::frame(0x21, &[]) },
        Item { name: "grease(2)", bytes: rf::frame(0x40, &[0x04, 0x00]) },
        Item { name: "CANCEL_PUSH(malformed)", bytes: rf::frame(rf::CANCEL_PUSH, &[0x04, 0x00]) },
    ]
}

fn seq_bytes(alpha: &[Item], seq: &[usize]) -> (Vec<u8>, Vec<usize>) {
    let mut b = Vec::new();
    let mut bounds = Vec::new();
    for &i in seq {
        b.extend(&alpha[i].bytes);
        bounds.push(b.len());
    }
    (b, bounds)
}

/// What the endpoint has to do with the control stream content, incl. the GOAWAY id rules of
/// RFC 9114 5.2 (needed so that C04 does not misjudge sequences with two GOAWAYs).
pub struct Want {
    /// acceptable close codes; empty = no connection error
    pub codes: Vec<u64>,
    pub settings_applied: Option<bool>,
    pub goaway_acted: Option<bool>,
    pub unspecified: bool,
}

pub fn want(case: &Case) -> Want {
    let alpha = alphabet();
    let (bytes, _) = seq_bytes(&alpha, &case.seq);
    let v = auto::control_stream(&bytes, case.end, case.me);
    let mut codes: Vec<u64> = v.error.into_iter().chain(v.also_ok.iter().copied()).collect();
    // GOAWAY identifier rules (C08's property, but they decide the code here too)
    let mut last: Option<u64> = None;
    let mut goaway_ok = 0usize;
    let mut id_error = false;
    for e in &v.acted {
        if let CtrlEvent::Goaway(id) = e {
            let bad_kind = case.me == Endpoint::Client && id % 4 != 0;
            let growing = last.map(|l| *id > l).unwrap_or(false);
            if bad_kind || growing {
                id_error = true;
                break;
            }
            last = Some(*id);
            goaway_ok += 1;
        }
    }
    if id_error {
        // the ID error comes before whatever follows it on the stream
        codes = vec![auto::H3_ID_ERROR];
    }
    let settings = v.acted.iter().find_map(|e| match e {
        CtrlEvent::Settings(p) => Some(p == &[0x33, 0x01]),
        _ => None,
    });
    Want {
        codes,
        settings_applied: settings,
        goaway_acted: Some(goaway_ok > 0),
        unspecified: v.unspecified,
    }
}

fn sequences(m: usize) -> Vec<Vec<usize>> {
    let alpha = alphabet();
    let mut out: Vec<Vec<usize>> = vec![vec![]];
    let mut frontier: Vec<Vec<usize>> = vec![vec![]];
    for _ in 0..m {
        let mut next = Vec::new();
        for s in &frontier {
            for i in 0..alpha.len() {
                let mut t = s.clone();
                t.push(i);
                let (b, _) = seq_bytes(&alpha, &t);
                // both roles must still be error-free for the sequence to be extended
                let c = auto::control_stream(&b, CtrlEnding::Open, Endpoint::Client);
                let s2 = auto::control_stream(&b, CtrlEnding::Open, Endpoint::Server);
                out.push(t.clone());
                if c.error.is_none() || s2.error.is_none() {
                    next.push(t);
                }
            }
        }
        frontier = next;
    }
    out
}

#[derive(Debug, Clone, Default, PartialEq, Eq)]
pub struct Outcome {
    pub driver: Vec<String>,
    pub build: String,
    pub close_calls: Vec<u64>,
    pub datagram_enabled: Option<bool>,
    pub closing: Option<bool>,
    pub late_request: String,
    pub stops: Vec<(u64, Vec<u64>)>,
    /// bytes of each scripted stream that were delivered to h3
    pub delivered: Vec<usize>,
    pub panics: Vec<(String, String)>,
    pub pending: Vec<String>,
    pub horizon: bool,
    pub fps: Vec<u64>,
}

const HORIZON: usize = 6000;

fn stream_type_bytes(kind: Kind, form: usize) -> Vec<u8> {
    stream_header_bytes(kind, form, form.max(1))
}

fn stream_header_bytes(kind: Kind, form: usize, id_form: usize) -> Vec<u8> {
    let ty = match kind {
        Kind::Control => auto::STREAM_CONTROL,
        Kind::Push => auto::STREAM_PUSH,
        Kind::Encoder => auto::STREAM_QPACK_ENCODER,
        Kind::Decoder => auto::STREAM_QPACK_DECODER,
        Kind::WtUni => auto::STREAM_WEBTRANSPORT_UNI,
        Kind::Grease => 0x21 + 0x1f * 3,
        Kind::Unknown => 0x2f,
        _ => return Vec::new(),
    };
    let mut v = varint::encode_len(ty, form).or_else(|| varint::encode(ty)).unwrap();
    match kind {
        Kind::Push => v.extend(varint::encode_len(7, id_form).unwrap()), // push id
        Kind::WtUni => v.extend(varint::encode_len(0, id_form).unwrap()), // session id
        _ => {}
    }
    v
}

pub fn execute(case: &Case, seed: u64) -> Outcome {
    fastrand::seed(seed);
    let alpha = alphabet();
    let (bytes, bounds) = seq_bytes(&alpha, &case.seq);
    let (me, peer) = match case.me {
        Endpoint::Server => (SERVER, CLIENT),
        Endpoint::Client => (CLIENT, SERVER),
    };
    let mut cfg = NetCfg::default();
    match case.mode {
        Mode::PerByte => cfg.read = Policy::PerByte,
        Mode::Explore => {
            cfg.read = Policy::Choose;
            cfg.allow_delay = true;
        }
        _ => {}
    }
    if case.env.write_per_byte {
        cfg.write = Policy::PerByte;
    }
    cfg.uni_credit[me] = case.env.uni_credit;
    let net = Net::new(cfg);
    let mut ex = Exec::new();
    let drv = shared(DriverObs::default());
    let state: Shared<Option<Arc<h3::SharedState>>> = shared(None);
    let late = shared(String::new());
    let done = shared(false);
    match case.me {
        Endpoint::Server => {
            let mut b = h3::server::builder();
            b.send_grease(case.env.grease);
            ex.spawn(
                "main",
                server_main_with_state(net.clone(), b, ex.spawner(), drv.clone(), shared(Vec::new()), false, 1, state.clone()),
            );
        }
        Endpoint::Client => {
            let (net2, drv2, sp, state2, late2, done2, grease) = (net.clone(), drv.clone(), ex.spawner(), state.clone(), late.clone(), done.clone(), case.env.grease);
            ex.spawn("main", async move {
                let mut b = h3::client::builder();
                b.send_grease(grease);
                let (mut conn, mut sr): (CliConn, CliSend) = match b.build(SimConn::new(&net2, CLIENT)).await {
                    Ok(x) => x,
                    Err(e) => {
                        drv2.borrow_mut().build = conn_class(&e);
                        return;
                    }
                };
                drv2.borrow_mut().build = "ok".into();
                *state2.borrow_mut() = Some(conn.inner.shared.clone());
                let drv3 = drv2.clone();
                sp.spawn("driver", async move {
                    for _ in 0..2 {
                        let e = std::future::poll_fn(|cx| conn.poll_close(cx)).await;
                        drv3.borrow_mut().results.push(conn_class(&e));
                    }
                    std::future::pending::<()>().await;
                    drop(conn);
                });
                // once the peer script is through, try to start a request
                let mut spins = 0;
                while !*done2.borrow() && spins < 400 {
                    spins += 1;
                    yield_now().await;
                }
                for _ in 0..3 {
                    yield_now().await;
                }
                let r = sr.send_request(http::Request::get("https://a/").body(()).unwrap()).await;
                *late2.borrow_mut() = match r {
                    Ok(_) => "ok".into(),
                    Err(e) => stream_class(&e),
                };
                std::future::pending::<()>().await;
                drop(sr);
            });
        }
    }
    {
        let (net, case, done) = (net.clone(), case.clone(), done.clone());
        ex.spawn("script", async move {
            let ids: Vec<u64> = (0..case.streams.len() as u64).map(|i| (i << 2) | 2 | peer as u64).collect();
            let mut control_written = false;
            for (i, (kind, form)) in case.streams.iter().enumerate() {
                let id = ids[i];
                net.raw_open(id);
                match kind {
                    Kind::NoneFin => net.raw_fin(peer, id),
                    Kind::NoneReset => net.raw_reset(peer, id, 0x10c),
                    Kind::PartialFin => {
                        net.raw_write(peer, id, &[0x40]);
                        yield_now().await;
                        net.raw_fin(peer, id);
                    }
                    Kind::PartialReset => {
                        net.raw_write(peer, id, &[0x40]);
                        yield_now().await;
                        net.raw_reset(peer, id, 0x10c);
                    }
                    Kind::PartialOpen => {
                        net.raw_write(peer, id, &[0x40]);
                        yield_now().await;
                    }
                    Kind::Control if !control_written => {
                        control_written = true;
                        let ty = stream_type_bytes(*kind, *form);
                        match case.mode {
                            Mode::PerFrame => {
                                net.raw_write(peer, id, &ty);
                                yield_now().await;
                                let mut last = 0;
                                for &b in &bounds {
                                    net.raw_write(peer, id, &bytes[last..b]);
                                    last = b;
                                    yield_now().await;
                                }
                            }
                            _ => {
                                let mut all = ty.clone();
                                all.extend(&bytes);
                                net.raw_write(peer, id, &all);
                                net.raw_mark(peer, id, bytes.len());
                                for &b in &bounds {
                                    net.raw_mark(peer, id, bytes.len() - b);
                                }
                            }
                        }
                        yield_now().await;
                        match case.end {
                            CtrlEnding::Fin => net.raw_fin(peer, id),
                            CtrlEnding::Reset => net.raw_reset(peer, id, 0x10c),
                            CtrlEnding::Open => {}
                        }
                    }
                    _ => {
                        let mut b = stream_header_bytes(*kind, *form, case.id_form);
                        if *kind == Kind::Control {
                            b.extend(rf::frame(rf::SETTINGS, &[]));
                        } else {
                            b.extend([0xde, 0xad]); // some content
                        }
                        net.raw_write(peer, id, &b);
                    }
                }
                yield_now().await;
            }
            *done.borrow_mut() = true;
        });
    }
    let mut fps = Vec::new();
    let q = {
        let net = net.clone();
        let drv = drv.clone();
        ex.run(HORIZON, |_| {
            let mut h = Fnv::new();
            h.u64(net.fingerprint());
            h.str(&format!("{:?}", drv.borrow().results));
            fps.push(h.finish());
        })
    };
    let d = drv.borrow().clone();
    let st = state.borrow().clone();
    let ids: Vec<u64> = (0..case.streams.len() as u64).map(|i| (i << 2) | 2 | peer as u64).collect();
    let late_request = late.borrow().clone();
    let delivered: Vec<usize> = {
        let g = net.lock();
        ids.iter().map(|id| g.streams.get(id).map(|s| s.fwd.delivered).unwrap_or(0)).collect()
    };
    Outcome {
        delivered,
        driver: d.results,
        build: d.build,
        close_calls: net.close_calls(me).iter().map(|c| c.0).collect(),
        datagram_enabled: st.as_ref().map(|s| s.settings().enable_datagram()),
        closing: st.as_ref().map(|s| s.is_closing()),
        late_request,
        stops: ids.iter().map(|id| (*id, net.stop_calls(me, *id))).collect(),
        panics: q.panics,
        pending: q.pending,
        horizon: q.horizon_hit,
        fps,
    }
}

fn ctx(case: &Case) -> String {
    let alpha = alphabet();
    let role = if case.me == Endpoint::Server { "server" } else { "client" };
    let names: Vec<&str> = case.seq.iter().map(|&i| alpha[i].name).collect();
    format!(
        "{role} (grease={}, uni credit {:?}, writes {}) receives streams {:?}, control frames [{}] then {:?}",
        case.env.grease,
        case.env.uni_credit,
        if case.env.write_per_byte { "1 byte at a time" } else { "whole" },
        case.streams.iter().map(|(k, f)| format!("{k:?}/{f}/{}", case.id_form)).collect::<Vec<_>>(),
        names.join(" "),
        case.end
    )
}

pub fn judge(case: &Case, o: &Outcome) -> Vec<(String, String)> {
    let role = if case.me == Endpoint::Server { "server" } else { "client" };
    let c = ctx(case);
    let mut out = Vec::new();
    for (t, p) in &o.panics {
        out.push((format!("C04:{role}:panic@{}", explore::panics::short_loc(p)), format!("{c}: task {t} panicked: {p}")));
    }
    if o.horizon {
        out.push((format!("C04:{role}:livelock"), format!("{c}: still runnable after {HORIZON} polls")));
    }
    if o.build != "ok" {
        // setup may legitimately not finish when own writes are starved; it must not fail
        if !o.build.is_empty() {
            out.push((format!("C04:{role}:setup-failed:{}", o.build), format!("{c}: connection setup returned {}", o.build)));
        }
        return out;
    }
    let errs: Vec<&String> = o.driver.iter().filter(|d| *d != "req" && *d != "none").collect();
    let has_control = case.streams.iter().filter(|(k, _)| *k == Kind::Control).count();
    // ---- expected codes
    let mut codes: Vec<u64> = Vec::new();
    let mut unspecified = false;
    let mut w: Option<Want> = None;
    if has_control >= 1 {
        let ww = want(case);
        codes.extend(&ww.codes);
        unspecified |= ww.unspecified;
        w = Some(ww);
    }
    for k in [Kind::Control, Kind::Encoder, Kind::Decoder] {
        if case.streams.iter().filter(|(x, _)| *x == k).count() >= 2 {
            codes.push(auto::H3_STREAM_CREATION_ERROR);
        }
    }
    if case.streams.iter().any(|(k, _)| *k == Kind::Push) {
        unspecified = true; // DESIGN.md 7: push streams - only "no panic, no hang"
    }
    if unspecified {
        return out;
    }
    let mut check_effects = true;
    if case.end == CtrlEnding::Reset && has_control >= 1 {
        // a RESET discards what was not yet read: it may overtake the frames (then the stream
        // just closes) or even the stream type (then h3 cannot know it was the control stream)
        check_effects = false;
        let ci = case.streams.iter().position(|(k, _)| *k == Kind::Control).unwrap();
        let type_len = stream_type_bytes(Kind::Control, case.streams[ci].1).len();
        if o.delivered.get(ci).copied().unwrap_or(0) < type_len {
            if o.close_calls.is_empty() {
                return out;
            }
        }
        codes.push(auto::H3_CLOSED_CRITICAL_STREAM);
    }
    // an idle server that has acted on a peer GOAWAY reports "no more requests" and the
    // application stops driving the connection: what follows the GOAWAY is then unobservable
    let server_done_after_goaway = case.me == Endpoint::Server
        && w.as_ref().and_then(|w| w.goaway_acted) == Some(true)
        && o.driver.iter().any(|d| d == "none")
        && o.close_calls.is_empty();
    if server_done_after_goaway {
        codes.clear();
    }
    codes.sort_unstable();
    codes.dedup();
    let codes_s = codes.iter().map(|c| code_name(*c)).collect::<Vec<_>>().join(" or ");
    if codes.is_empty() {
        if !o.close_calls.is_empty() || !errs.is_empty() {
            out.push((
                format!("C04:{role}:unexpected-connection-error:{}", o.close_calls.first().map(|c| format!("{c:#x}")).unwrap_or_else(|| errs[0].clone())),
                format!("{c}: no connection error is due; driver {:?}, close calls {:?}", o.driver, o.close_calls),
            ));
        }
    } else {
        if o.close_calls.len() != 1 || !codes.contains(&o.close_calls[0]) {
            out.push((
                format!("C04:{role}:wrong-close:exp={}:got={:?}", codes.iter().map(|c| format!("{c:#x}")).collect::<Vec<_>>().join("|"), o.close_calls.iter().map(|c| format!("{c:#x}")).collect::<Vec<_>>()),
                format!("{c}: expected exactly one close with {codes_s}; close calls {:?}, driver {:?}", o.close_calls, o.driver),
            ));
        } else {
            let wantd = format!("Local({:#x})", o.close_calls[0]);
            if errs.is_empty() || errs.iter().any(|e| **e != wantd) {
                out.push((format!("C04:{role}:driver-disagrees-with-close"), format!("{c}: closed with {:#x} but driver returned {:?}", o.close_calls[0], o.driver)));
            }
        }
    }
    // ---- exactly-once effects (only when the stream content is error-free up to the effect)
    if let Some(w) = &w {
        if has_control == 1 && check_effects {
            if let (Some(applied), true) = (w.settings_applied, codes.is_empty()) {
                if o.datagram_enabled != Some(applied) {
                    out.push((
                        format!("C04:{role}:settings-not-applied"),
                        format!("{c}: SETTINGS {{H3_DATAGRAM: {}}} received; the endpoint's view is {:?}", applied as u8, o.datagram_enabled),
                    ));
                }
            }
            if codes.is_empty() {
                if let Some(acted) = w.goaway_acted {
                    if o.closing != Some(acted) {
                        out.push((
                            format!("C04:{role}:goaway-{}", if acted { "lost" } else { "invented" }),
                            format!("{c}: peer GOAWAY {}; connection closing flag is {:?}, driver {:?}, late request {:?}", if acted { "was sent" } else { "was not sent" }, o.closing, o.driver, o.late_request),
                        ));
                    } else if acted {
                        match case.me {
                            Endpoint::Client => {
                                if o.late_request != "RemoteClosing" {
                                    out.push((format!("C04:{role}:request-after-goaway:{}", o.late_request), format!("{c}: send_request after GOAWAY returned {:?}", o.late_request)));
                                }
                            }
                            Endpoint::Server => {
                                if !o.driver.iter().any(|d| d == "none") {
                                    out.push((format!("C04:{role}:accept-after-goaway-does-not-end"), format!("{c}: idle server, peer GOAWAY processed, accept() results {:?}", o.driver)));
                                }
                            }
                        }
                    }
                }
            }
        }
    }
    out
}

fn case_json(c: &Case, choices: &[u32], seed: u64) -> Value {
    json!({
        "me": if c.me == Endpoint::Server { "server" } else { "client" },
        "seq": c.seq,
        "end": format!("{:?}", c.end),
        "streams": c.streams.iter().map(|(k, f)| json!([format!("{k:?}"), f])).collect::<Vec<_>>(),
        "mode": format!("{:?}", c.mode),
        "id_form": c.id_form,
        "env": {"grease": c.env.grease, "uni_credit": c.env.uni_credit, "write_per_byte": c.env.write_per_byte},
        "choices": choices,
        "seed": seed,
    })
}

fn kind_from(s: &str) -> Kind {
    match s {
        "Control" => Kind::Control,
        "Push" => Kind::Push,
        "Encoder" => Kind::Encoder,
        "Decoder" => Kind::Decoder,
        "WtUni" => Kind::WtUni,
        "Grease" => Kind::Grease,
        "Unknown" => Kind::Unknown,
        "NoneFin" => Kind::NoneFin,
        "NoneReset" => Kind::NoneReset,
        "PartialFin" => Kind::PartialFin,
        "PartialOpen" => Kind::PartialOpen,
        _ => Kind::PartialReset,
    }
}

fn case_from_json(v: &Value) -> Case {
    Case {
        me: if v["me"] == "server" { Endpoint::Server } else { Endpoint::Client },
        seq: v["seq"].as_array().unwrap().iter().map(|x| x.as_u64().unwrap() as usize).collect(),
        end: match v["end"].as_str().unwrap() {
            "Fin" => CtrlEnding::Fin,
            "Reset" => CtrlEnding::Reset,
            _ => CtrlEnding::Open,
        },
        streams: v["streams"].as_array().unwrap().iter().map(|p| (kind_from(p[0].as_str().unwrap()), p[1].as_u64().unwrap() as usize)).collect(),
        id_form: v["id_form"].as_u64().unwrap_or(1) as usize,
        mode: match v["mode"].as_str().unwrap() {
            "Whole" => Mode::Whole,
            "PerFrame" => Mode::PerFrame,
            "PerByte" => Mode::PerByte,
            _ => Mode::Explore,
        },
        env: Env {
            grease: v["env"]["grease"].as_bool().unwrap(),
            uni_credit: v["env"]["uni_credit"].as_u64().map(|x| x as usize),
            write_per_byte: v["env"]["write_per_byte"].as_bool().unwrap(),
        },
    }
}

pub fn run(args: &Args) -> i32 {
    let thorough = args.tier == Tier::Thorough;
    let m = if thorough { 5 } else { 4 };
    let bound = if thorough { 3 } else { 2 };
    let mut rep = Report::new("C04", args.tier, args.seed, "model_checking");
    rep.exhaustive = true;
    rep.rule = format!(
        "family A: every control-stream frame sequence of length <= {m} over a 16-item alphabet (two SETTINGS variants, GOAWAY(0/4), CANCEL_PUSH, MAX_PUSH_ID, DATA, HEADERS, PUSH_PROMISE, the four HTTP/2 types, two grease frames, a malformed CANCEL_PUSH), extended while the reference automaton is error-free, x ending (open, FIN, RESET) x role x delivery (whole, per frame, per byte, explored with deviation bound {bound}) x own-side environment (grease off; grease on; grease on with the 4th outgoing stream never granted; the same with own writes accepted one byte at a time). family B: every sequence of <= {} unidirectional streams over 12 kinds (incl. a stream whose type varint stays incomplete while later streams arrive) x type varint forms 1/2/8, all arrival orders. Oracle: refimpl::h3auto (control automaton, duplicate critical streams) + exactly-once effects of SETTINGS and GOAWAY. Non-trivial = cases with >= 2 control frames or >= 2 streams.",
        if thorough { 4 } else { 4 }
    );
    rep.assumptions = vec![
        "refimpl::h3auto transcribes RFC 9114 6.2/7.2.4 (unit-tested); grease-before-SETTINGS, CANCEL_PUSH and push streams are not asserted (DESIGN.md 7)".into(),
        "SETTINGS effect observed through the shared settings (enable_datagram); GOAWAY effect through the closing flag, a late send_request (client) and accept() -> None (server)".into(),
    ];
    rep.bound_note = format!("control sequence length <= {m}; deviation bound {bound}; exhaustive below both");
    let envs = [
        Env { grease: false, uni_credit: None, write_per_byte: false },
        Env { grease: true, uni_credit: None, write_per_byte: false },
        Env { grease: true, uni_credit: Some(3), write_per_byte: false },
        Env { grease: true, uni_credit: Some(3), write_per_byte: true },
    ];
    let mut cases: Vec<Case> = Vec::new();
    // family A
    for me in [Endpoint::Server, Endpoint::Client] {
        for seq in sequences(m) {
            for end in [CtrlEnding::Open, CtrlEnding::Fin, CtrlEnding::Reset] {
                for mode in [Mode::Whole, Mode::PerFrame, Mode::PerByte, Mode::Explore] {
                    for env in envs {
                        if mode == Mode::Explore && (seq.len() > 3 + thorough as usize || env.write_per_byte) {
                            continue;
                        }
                        let form = if mode == Mode::PerByte { 2 } else { 1 };
                        cases.push(Case { me, seq: seq.clone(), end, streams: vec![(Kind::Control, form)], id_form: 1, mode, env });
                    }
                }
            }
        }
    }
    // family B
    let kinds = [Kind::Control, Kind::Push, Kind::Encoder, Kind::Decoder, Kind::WtUni, Kind::Grease, Kind::Unknown, Kind::NoneFin, Kind::NoneReset, Kind::PartialFin, Kind::PartialReset, Kind::PartialOpen];
    let nmax = if thorough { 4 } else { 4 };
    let mut sets: Vec<Vec<Kind>> = vec![vec![]];
    let mut frontier: Vec<Vec<Kind>> = vec![vec![]];
    for _ in 0..nmax {
        let mut next = Vec::new();
        for s in &frontier {
            for k in kinds {
                let mut t = s.clone();
                t.push(k);
                next.push(t);
            }
        }
        sets.extend(next.iter().cloned());
        frontier = next;
    }
    for me in [Endpoint::Server, Endpoint::Client] {
        for s in &sets {
            if s.is_empty() {
                continue;
            }
            for form in [1usize, 2, 8] {
                for mode in [Mode::Whole, Mode::PerByte, Mode::Explore] {
                    if mode == Mode::Explore && (s.len() > 2 || form != 2) {
                        continue;
                    }
                    if form == 8 && s.len() > 2 {
                        continue;
                    }
                    let typed = s.iter().any(|k| matches!(k, Kind::Push | Kind::WtUni));
                    let id_forms: &[usize] = if typed { &[1, 2, 4, 8] } else { &[1] };
                    for &id_form in id_forms {
                        cases.push(Case {
                            me,
                            seq: vec![0],
                            end: CtrlEnding::Open,
                            streams: s.iter().map(|k| (*k, form)).collect(),
                            id_form,
                            mode,
                            env: envs[1],
                        });
                    }
                }
            }
        }
    }
    let seed = args.seed;
    let deadline = std::time::Instant::now() + std::time::Duration::from_secs(if thorough { 1500 } else { 40 });
    let accs = explore::par::run(&cases, Acc::new, |_, case, acc| {
        let b = if case.mode == Mode::Explore { bound } else { 0 };
        let caps = Caps { deadline: Some(deadline), max_executions: 100_000, ..Caps::default() };
        let mut viol = explore::report::ViolSet::new();
        let mut states: Vec<u64> = Vec::new();
        let mut outcomes: Vec<u64> = Vec::new();
        let st = dfs::explore(
            b,
            &caps,
            || execute(case, seed),
            |e, o| {
                states.extend(o.fps.iter().copied());
                let mut h = Fnv::new();
                h.str(&format!("{:?}|{:?}|{:?}|{:?}", o.driver, o.close_calls, o.closing, o.datagram_enabled));
                outcomes.push(h.finish());
                for (sig, msg) in judge(case, &o) {
                    viol.add(sig, msg, (e.cost, case.seq.len() * 10 + case.streams.len() * 10 + e.choices.len()), &e.choices);
                }
            },
        );
        if st.capped {
            acc.capped_cases += 1;
        }
        acc.dfs.merge(&st);
        acc.evaluations += st.executions;
        acc.states.extend(states);
        acc.outcomes.extend(outcomes);
        viol.drain_into(acc, |choices| case_json(case, choices, seed));
        if case.seq.len() >= 2 || case.streams.len() >= 2 {
            let mut h = Fnv::new();
            h.str(&format!("{case:?}"));
            acc.nontrivial.insert(h.finish());
        }
    });
    let mut total = Acc::new();
    for a in accs {
        total.merge(a);
    }
    total.count("cases", cases.len() as u64);
    for i in [cases.len() / 5, cases.len() / 2, cases.len() - 1] {
        total.samples.push(json!(ctx(&cases[i])));
    }
    rep.finish(total)
}

pub fn replay(r: &Value) -> i32 {
    let case = case_from_json(r);
    let seed = r["seed"].as_u64().unwrap_or(0);
    let choices: Vec<u32> = r["choices"].as_array().unwrap().iter().map(|v| v.as_u64().unwrap() as u32).collect();
    println!("case: {}  delivery {:?}, choices {:?}", ctx(&case), case.mode, choices);
    let (o1, _, d1) = dfs::replay(&choices, || execute(&case, seed));
    let (o2, _, d2) = dfs::replay(&choices, || execute(&case, seed));
    if let Some(d) = d1.or(d2) {
        println!("REPLAY DIVERGED: {d}");
        return 2;
    }
    if o1 != o2 {
        println!("REPLAY NOT DETERMINISTIC");
        return 2;
    }
    println!("outcome: {:?}", Outcome { fps: vec![], ..o1.clone() });
    let v = judge(&case, &o1);
    for (sig, msg) in &v {
        println!("observed: {sig}: {msg}");
    }
    if v.is_empty() {
        println!("observed: no violation");
        0
    } else {
        1
    }
}
