//! C06 — no peer behaviour makes h3 panic or leaves a call pending forever.
//!
//! Real h3 server / client under the documented call patterns (incl. the sending half) over
//! simnet against a scripted adversarial peer:
//!  (a) every byte string of length <= L on every stream kind (request, control after
//!      SETTINGS, control as first bytes, QPACK encoder, QPACK decoder, push, WebTransport uni,
//!      unknown), delivered whole and one byte per read, with and without FIN;
//!  (b) grammar strings (server role: every request-stream string once more with the request handled inside the accept loop; request-stream and control-stream frame sequences) with one fault —
//!      FIN, RESET, STOP_SENDING, connection close, transport timeout — injected at EVERY byte
//!      offset of the script, delivered whole and per byte (so "truncated exactly at a chunk
//!      boundary" is always included).
//! Oracle: no poll panics (overflow checks and debug assertions are on); at quiescence of the
//! closed world, no call is still pending on a stream the peer has finished/aborted or on a
//! connection that is closed.

use crate::scen::*;
use crate::Args;
use bytes::Bytes;
use explore::report::{Acc, Report, Tier};
use explore::{hex, Fnv};
use refimpl::frames as rf;
use refimpl::h3auto::{Endpoint, Role};
use serde_json::{json, Value};
use simnet::exec::yield_now;
use simnet::{ConnErr, Exec, Net, NetCfg, Policy, SimConn, CLIENT, SERVER};

#[derive(Clone, Copy, Debug, PartialEq, Eq)]
pub enum StreamKind {
    Request,
    ControlAfterSettings,
    ControlFirst,
    Encoder,
    Decoder,
    Push,
    WtUni,
    Unknown,
    /// a unidirectional stream of the peer with NOTHING written for it: the case's bytes are all there is (a stream
    /// that ends before its type, inside its type, or right behind it where a push / session id should start)
    UniRaw,
    /// server role: a request stream whose handler runs INSIDE the accept loop (accept() is not polled, nothing drives
    /// the connection, until the handler has returned)
    RequestInline,
}

#[derive(Clone, Copy, Debug, PartialEq, Eq)]
pub enum Fault {
    Fin,
    Reset(u64),
    StopSending(u64),
    Close(u64),
    Timeout,
    /// no fault: the bytes up to the offset are delivered and READ before the rest is written (a transport
    /// chunk boundary at exactly this offset)
    Cut,
}

#[derive(Clone, Debug)]
pub struct Case {
    pub me: Endpoint,
    pub kind: StreamKind,
    pub bytes: Vec<u8>,
    pub per_byte: bool,
    /// fault injected after this many bytes of `bytes` have been written
    pub fault: Option<(Fault, usize)>,
    /// FIN after the last byte (when no stream-ending fault was injected)
    pub fin: bool,
}

#[derive(Debug, Clone, Default, PartialEq, Eq)]
pub struct Outcome {
    pub msg: Option<MsgObs>,
    pub client_send: String,
    pub driver: DriverObs,
    pub panics: Vec<(String, String)>,
    pub pending: Vec<String>,
    pub horizon: bool,
    /// (fin, reset, stop) of the peer->me pipe of the target stream, and me->peer
    pub in_pipe: (bool, bool, bool),
    pub out_pipe_stopped: bool,
    pub conn_dead: bool,
    pub fp: u64,
}

const HORIZON: usize = 20_000;

fn prefix_for(kind: StreamKind) -> Vec<u8> {
    match kind {
        StreamKind::Request | StreamKind::RequestInline => vec![],
        StreamKind::ControlAfterSettings => control_preamble(&[]),
        StreamKind::ControlFirst => vec![0x00],
        StreamKind::Encoder => vec![0x02],
        StreamKind::Decoder => vec![0x03],
        StreamKind::Push => vec![0x01, 0x05],
        StreamKind::WtUni => vec![0x40, 0x54, 0x00],
        StreamKind::Unknown => vec![0x2f],
        StreamKind::UniRaw => vec![],
    }
}

pub fn execute(case: &Case, seed: u64) -> Outcome {
    fastrand::seed(seed);
    set_inline_handlers(case.kind == StreamKind::RequestInline);
    let (me, peer) = match case.me {
        Endpoint::Server => (SERVER, CLIENT),
        Endpoint::Client => (CLIENT, SERVER),
    };
    let mut cfg = NetCfg::default();
    if case.per_byte {
        cfg.read = Policy::PerByte;
    }
    let net = Net::new(cfg);
    let mut ex = Exec::new();
    let drv = shared(DriverObs::default());
    let handlers: Shared<Vec<Shared<MsgObs>>> = shared(Vec::new());
    let client_msg = shared(MsgObs::default());
    let client_send = shared(String::new());
    match case.me {
        Endpoint::Server => {
            let mut b = h3::server::builder();
            b.send_grease(true).enable_webtransport(true).enable_datagram(true).enable_extended_connect(true);
            ex.spawn("main", server_main(net.clone(), b, ex.spawner(), drv.clone(), handlers.clone(), true, 1));
        }
        Endpoint::Client => {
            let (net2, drv2, msg2, sp, cs) = (net.clone(), drv.clone(), client_msg.clone(), ex.spawner(), client_send.clone());
            ex.spawn("main", async move {
                let mut b = h3::client::builder();
                b.send_grease(true).enable_datagram(true).enable_extended_connect(true);
                let (mut conn, mut sr): (CliConn, CliSend) = match b.build(SimConn::new(&net2, CLIENT)).await {
                    Ok(x) => x,
                    Err(e) => {
                        drv2.borrow_mut().build = conn_class(&e);
                        return;
                    }
                };
                drv2.borrow_mut().build = "ok".into();
                let drv3 = drv2.clone();
                sp.spawn("driver", async move {
                    for _ in 0..2 {
                        drv3.borrow_mut().in_call = true;
                        let e = std::future::poll_fn(|cx| conn.poll_close(cx)).await;
                        let mut d = drv3.borrow_mut();
                        d.in_call = false;
                        d.results.push(conn_class(&e));
                    }
                    std::future::pending::<()>().await;
                    drop(conn);
                });
                msg2.borrow_mut().stage = "send_request".into();
                let req = http::Request::post("https://a/").body(()).unwrap();
                match sr.send_request(req).await {
                    Ok(mut s) => {
                        let r = async {
                            msg2.borrow_mut().stage = "send_data".into();
                            s.send_data(Bytes::from_static(b"ping")).await?;
                            msg2.borrow_mut().stage = "finish".into();
                            s.finish().await
                        }
                        .await;
                        *cs.borrow_mut() = match r {
                            Ok(()) => "ok".into(),
                            Err(e) => stream_class(&e),
                        };
                        client_reader(s, msg2.clone()).await;
                    }
                    Err(e) => {
                        let mut m = msg2.borrow_mut();
                        m.head = format!("send_request:{}", stream_class(&e));
                        m.stage = "done".into();
                    }
                }
                std::future::pending::<()>().await;
                drop(sr);
            });
        }
    }
    // target stream id: request = 0; the scripted peer's first uni stream otherwise (its control
    // stream is the first one unless the target IS the control stream)
    let ctrl = if peer == CLIENT { CLIENT_CTRL } else { SERVER_CTRL };
    let target: u64 = match case.kind {
        StreamKind::Request | StreamKind::RequestInline => 0,
        StreamKind::ControlAfterSettings | StreamKind::ControlFirst => ctrl,
        _ => ctrl + 4,
    };
    {
        let (net, case) = (net.clone(), case.clone());
        ex.spawn("script", async move {
            let target_is_ctrl = matches!(case.kind, StreamKind::ControlAfterSettings | StreamKind::ControlFirst);
            if !target_is_ctrl {
                net.raw_open(ctrl);
                net.raw_write(peer, ctrl, &control_preamble(&[0x33, 0x01, 0x2b, 0x60, 0x37, 0x42, 0x01][..0]));
                yield_now().await;
            }
            if case.kind == StreamKind::Request && peer == SERVER {
                let mut spins = 0;
                while !net.lock().streams.contains_key(&0) {
                    spins += 1;
                    if spins > 300 {
                        return;
                    }
                    yield_now().await;
                }
            } else {
                net.raw_open(target);
            }
            let pre = prefix_for(case.kind);
            if !pre.is_empty() {
                net.raw_write(peer, target, &pre);
            }
            let (fault, at) = match case.fault {
                Some((f, k)) => (Some(f), k.min(case.bytes.len())),
                None => (None, case.bytes.len()),
            };
            if at > 0 {
                net.raw_write(peer, target, &case.bytes[..at]);
            }
            yield_now().await;
            let mut stream_over = false;
            match fault {
                Some(Fault::Fin) => {
                    net.raw_fin(peer, target);
                    stream_over = true;
                }
                Some(Fault::Reset(c)) => {
                    net.raw_reset(peer, target, c);
                    stream_over = true;
                }
                Some(Fault::StopSending(c)) => {
                    if target & 2 == 0 {
                        net.raw_stop_sending(peer, target, c);
                    }
                }
                Some(Fault::Close(c)) => net.raw_close(peer, c),
                Some(Fault::Timeout) => net.inject_conn_err(me, ConnErr::Timeout),
                Some(Fault::Cut) => {
                    // wait until the reader has taken everything written so far
                    let mut spins = 0;
                    loop {
                        let drained = {
                            let mut g = net.lock();
                            g.streams.get_mut(&target).and_then(|s| s.pipe_w(peer).map(|p| p.delivered == p.written.len())).unwrap_or(true)
                        };
                        if drained || spins > 200 {
                            break;
                        }
                        spins += 1;
                        yield_now().await;
                    }
                }
                None => {}
            }
            yield_now().await;
            if !stream_over {
                if at < case.bytes.len() {
                    net.raw_write(peer, target, &case.bytes[at..]);
                    yield_now().await;
                }
                if case.fin {
                    net.raw_fin(peer, target);
                }
            }
        });
    }
    let q = ex.run(HORIZON, |_| {});
    let msg = match case.me {
        Endpoint::Server => handlers.borrow().first().map(|m| m.borrow().clone()),
        Endpoint::Client => Some(client_msg.borrow().clone()),
    };
    let (in_pipe, out_stopped, conn_dead) = {
        let mut g = net.lock();
        let dead = g.sides[me].conn_err.is_some();
        match g.streams.get_mut(&target) {
            Some(s) => {
                let i = s.pipe_r(me).map(|p| (p.fin, p.reset.is_some(), p.stop.is_some())).unwrap_or((false, false, false));
                let o = s.pipe_w(me).map(|p| p.stop.is_some()).unwrap_or(false);
                (i, o, dead)
            }
            None => ((false, false, false), false, dead),
        }
    };
    let mut h = Fnv::new();
    h.u64(net.fingerprint());
    h.str(&format!("{msg:?}{:?}", drv.borrow()));
    let client_send = client_send.borrow().clone();
    let driver = drv.borrow().clone();
    Outcome {
        msg,
        client_send,
        driver,
        panics: q.panics,
        pending: q.pending,
        horizon: q.horizon_hit,
        in_pipe,
        out_pipe_stopped: out_stopped,
        conn_dead,
        fp: h.finish(),
    }
}

fn ctx(case: &Case) -> String {
    format!(
        "{} vs peer writing {} on a {:?} stream ({}{}), fault {:?}",
        if case.me == Endpoint::Server { "server" } else { "client" },
        if case.bytes.len() > 64 { format!("{}... ({} bytes)", hex(&case.bytes[..48]), case.bytes.len()) } else { hex(&case.bytes) },
        case.kind,
        if case.per_byte { "one byte per read" } else { "whole" },
        if case.fin { ", then FIN" } else { ", left open" },
        case.fault
    )
}

pub fn judge(case: &Case, o: &Outcome) -> Vec<(String, String)> {
    let role = if case.me == Endpoint::Server { "server" } else { "client" };
    let c = ctx(case);
    let mut out = Vec::new();
    for (t, p) in &o.panics {
        out.push((
            format!("C06:{role}:panic@{}:{:?}", explore::panics::short_loc(p), case.kind),
            format!("{c}: task {t} panicked: {p}"),
        ));
    }
    if !o.panics.is_empty() {
        return out; // a task that panicked stays at its stage: not a second finding
    }
    if o.horizon {
        out.push((format!("C06:{role}:livelock:{:?}", case.kind), format!("{c}: still runnable after {HORIZON} polls")));
    }
    if o.driver.build != "ok" && !o.driver.build.is_empty() && !o.conn_dead {
        out.push((format!("C06:{role}:setup-failed"), format!("{c}: setup returned {}", o.driver.build)));
    }
    // ---- stuck calls
    if o.driver.in_call && o.conn_dead {
        out.push((
            format!("C06:{role}:driver-stuck-on-dead-connection"),
            format!("{c}: the connection is closed/timed out but accept()/poll_close() is still pending; results so far {:?}", o.driver.results),
        ));
    }
    if matches!(case.kind, StreamKind::Request | StreamKind::RequestInline) {
        if let Some(m) = &o.msg {
            let (fin, reset, _) = o.in_pipe;
            let recv_stage = matches!(m.stage.as_str(), "resolve" | "recv_response" | "recv_data" | "recv_trailers");
            let send_stage = matches!(m.stage.as_str(), "send_response" | "send_data" | "finish" | "send_request");
            if recv_stage && (fin || reset || o.conn_dead) {
                out.push((
                    format!("C06:{role}:stuck:{}:{}", m.stage, if o.conn_dead { "connection-closed" } else if reset { "stream-reset" } else { "stream-finished" }),
                    format!("{c}: {} is still pending although the peer has {} ({m:?})", m.stage, if o.conn_dead { "closed the connection" } else if reset { "reset the stream" } else { "finished the stream" }),
                ));
            }
            if send_stage && (o.out_pipe_stopped || o.conn_dead) {
                out.push((
                    format!("C06:{role}:stuck:{}:{}", m.stage, if o.conn_dead { "connection-closed" } else { "stop-sending" }),
                    format!("{c}: {} is still pending although the peer has {}", m.stage, if o.conn_dead { "closed the connection" } else { "sent STOP_SENDING" }),
                ));
            }
        }
    }
    out
}

fn case_json(c: &Case, seed: u64) -> Value {
    json!({
        "me": if c.me == Endpoint::Server { "server" } else { "client" },
        "kind": format!("{:?}", c.kind),
        "bytes": hex(&c.bytes),
        "per_byte": c.per_byte,
        "fin": c.fin,
        "fault": match c.fault {
            None => Value::Null,
            Some((Fault::Fin, k)) => json!(["fin", 0, k]),
            Some((Fault::Reset(x), k)) => json!(["reset", x, k]),
            Some((Fault::StopSending(x), k)) => json!(["stop", x, k]),
            Some((Fault::Close(x), k)) => json!(["close", x, k]),
            Some((Fault::Timeout, k)) => json!(["timeout", 0, k]),
            Some((Fault::Cut, k)) => json!(["cut", 0, k]),
        },
        "seed": seed,
    })
}

fn case_from_json(v: &Value) -> Case {
    Case {
        me: if v["me"] == "server" { Endpoint::Server } else { Endpoint::Client },
        kind: match v["kind"].as_str().unwrap() {
            "Request" => StreamKind::Request,
            "RequestInline" => StreamKind::RequestInline,
            "ControlAfterSettings" => StreamKind::ControlAfterSettings,
            "ControlFirst" => StreamKind::ControlFirst,
            "Encoder" => StreamKind::Encoder,
            "Decoder" => StreamKind::Decoder,
            "Push" => StreamKind::Push,
            "WtUni" => StreamKind::WtUni,
            "UniRaw" => StreamKind::UniRaw,
            _ => StreamKind::Unknown,
        },
        bytes: explore::unhex(v["bytes"].as_str().unwrap()),
        per_byte: v["per_byte"].as_bool().unwrap(),
        fin: v["fin"].as_bool().unwrap(),
        fault: match &v["fault"] {
            Value::Null => None,
            f => {
                let code = f[1].as_u64().unwrap();
                let k = f[2].as_u64().unwrap() as usize;
                Some((
                    match f[0].as_str().unwrap() {
                        "fin" => Fault::Fin,
                        "reset" => Fault::Reset(code),
                        "stop" => Fault::StopSending(code),
                        "close" => Fault::Close(code),
                        "cut" => Fault::Cut,
                        _ => Fault::Timeout,
                    },
                    k,
                ))
            }
        },
    }
}

fn grammar_strings(thorough: bool) -> Vec<(StreamKind, Endpoint, Vec<u8>)> {
    let mut out = Vec::new();
    let n = if thorough { 4 } else { 3 };
    for (role, me) in [(Role::ServerRecv, Endpoint::Server), (Role::ClientRecv, Endpoint::Client)] {
        let alpha = crate::c03::alphabet(role);
        let mut frontier: Vec<Vec<usize>> = vec![vec![]];
        for _ in 0..n {
            let mut next = Vec::new();
            for s in &frontier {
                for i in 0..alpha.len() {
                    let mut t = s.clone();
                    t.push(i);
                    let mut b = Vec::new();
                    for &k in &t {
                        b.extend(rf::frame(alpha[k].ty, &alpha[k].payload));
                    }
                    out.push((StreamKind::Request, me, b));
                    next.push(t);
                }
            }
            // keep the frontier small: sequences starting with a valid head
            frontier = next.into_iter().filter(|s| s[0] == 0).collect();
        }
        // a malformed field section and an invalid QPACK section as HEADERS
        out.push((StreamKind::Request, me, rf::frame(rf::HEADERS, &[0x00, 0x00, 0x21, b'T', 0x01, b'v'])));
        out.push((StreamKind::Request, me, rf::frame(rf::HEADERS, &[0x01, 0x00, 0xd1])));
        out.push((StreamKind::Request, me, rf::frame(rf::HEADERS, &[0x00, 0x00, 0xff, 0xff])));
        out.push((StreamKind::Request, me, rf::frame(rf::HEADERS, &[])));
        // section prefixes with extreme integers: Required Insert Count and (signed) Delta Base at 0, 2^62 and the
        // largest value ten continuation bytes can carry
        {
            let huge: [&[u8]; 3] = [&[0xff, 0x81, 0xff, 0xff, 0xff, 0xff, 0xff, 0xff, 0xff, 0x7f], &[0xff, 0x80, 0x80, 0x80, 0x80, 0x80, 0x80, 0x80, 0x80, 0x40], &[0xff, 0xff, 0xff, 0xff, 0xff, 0xff, 0xff, 0xff, 0xff, 0x01]];
            for ric in [&[0x00u8][..], huge[0], huge[1], huge[2]] {
                for db in [&[0x00u8][..], &[0x80u8][..], huge[0], huge[1], huge[2], &[0x7f, 0x81, 0xff, 0xff, 0xff, 0xff, 0xff, 0xff, 0xff, 0x7f][..]] {
                    let mut sec = ric.to_vec();
                    sec.extend_from_slice(db);
                    sec.push(0xd1);
                    out.push((StreamKind::Request, me, rf::frame(rf::HEADERS, &sec)));
                }
            }
        }
        // a field section without any field line (what send_trailers(HeaderMap::new()) emits), alone and as trailers
        out.push((StreamKind::Request, me, rf::frame(rf::HEADERS, &[0x00, 0x00])));
        {
            let mut b = rf::frame(rf::HEADERS, if me == Endpoint::Server { REQ_SECTION } else { RESP_SECTION });
            b.extend(rf::frame(rf::DATA, b"abc"));
            b.extend(rf::frame(rf::HEADERS, &[0x00, 0x00]));
            out.push((StreamKind::Request, me, b));
        }
        // Huffman-coded values made of one-bits only (padding of every length, EOS, bits after EOS), after a
        // valid head prefix and alone
        for n in 1..=9usize {
            let mut sec = vec![0x00, 0x00, 0x51, 0x80 | n as u8];
            sec.extend(std::iter::repeat(0xff).take(n));
            out.push((StreamKind::Request, me, rf::frame(rf::HEADERS, &sec)));
            let mut sec2 = vec![0x00, 0x00, 0x28 | 0x01, 0xff, 0x80 | n as u8]; // Huffman literal NAME too
            sec2.extend(std::iter::repeat(0xff).take(n));
            out.push((StreamKind::Request, me, rf::frame(rf::HEADERS, &sec2)));
        }
        // frames that take many transport reads when they arrive in small pieces that are all queued already: a
        // head of > 100 bytes (one byte per read = > 100 reads for one frame), and 40 complete unknown frames in front
        // of a head (one read per frame and more)
        {
            let f = |n: &str, v: &[u8]| (n.as_bytes().to_vec(), v.to_vec());
            let mut fields = if me == Endpoint::Server { vec![f(":method", b"GET"), f(":scheme", b"https"), f(":authority", b"a"), f(":path", b"/")] } else { vec![f(":status", b"200")] };
            fields.push(f("x-long", &[b'v'; 90]));
            let head = rf::frame(rf::HEADERS, &refimpl::qpack::encode_literal_section(&fields, false));
            let mut b = head.clone();
            b.extend(rf::frame(rf::DATA, &[b'd'; 70]));
            out.push((StreamKind::Request, me, b));
            let mut c = Vec::new();
            for _ in 0..40 {
                c.extend(rf::frame(0x21, &[]));
            }
            c.extend(rf::frame(rf::HEADERS, if me == Endpoint::Server { REQ_SECTION } else { RESP_SECTION }));
            out.push((StreamKind::Request, me, c));
        }
        // WebTransport bidi signal on a request stream
        out.push((StreamKind::Request, me, vec![0x40, 0x41, 0x00, 0xde, 0xad]));
        out.push((StreamKind::Request, me, vec![0x40, 0x41, 0x40]));
    }
    let calpha = crate::c04::alphabet();
    for me in [Endpoint::Server, Endpoint::Client] {
        for i in 0..calpha.len() {
            out.push((StreamKind::ControlFirst, me, calpha[i].bytes.clone()));
            for j in 0..calpha.len() {
                let mut b = calpha[i].bytes.clone();
                b.extend(&calpha[j].bytes);
                out.push((StreamKind::ControlAfterSettings, me, b.clone()));
                if i < 2 {
                    out.push((StreamKind::ControlFirst, me, b));
                }
            }
        }
        // unidirectional streams that stop before, inside or right behind their type
        for b in [vec![], vec![0x01], vec![0x40], vec![0x40, 0x54], vec![0x01, 0x40], vec![0x40, 0x54, 0x40], vec![0xc0, 0, 0, 0]] {
            out.push((StreamKind::UniRaw, me, b));
        }
        // QPACK streams carrying instructions, push / webtransport streams with frames
        for kind in [StreamKind::Encoder, StreamKind::Decoder, StreamKind::Push, StreamKind::WtUni, StreamKind::Unknown] {
            out.push((kind, me, vec![0x3f, 0xbd, 0x01, 0xc0, 0x0f, b'w', b'w', b'w']));
            out.push((kind, me, rf::frame(rf::HEADERS, REQ_SECTION)));
        }
    }
    out
}

/// (c) inputs at the size limits of the data structures behind the API: field sections with N field lines for N
/// around the capacity limits of http::HeaderMap (24576 = 3/4 of 32768 slots, 32768 entries), as duplicates of one
/// indexed line and as distinct literal names, as message head and as trailers; frames of every kind with declared
/// lengths 2^32-1, 2^32 and 2^62-1 followed by three bytes.
fn size_extremes(thorough: bool) -> Vec<(StreamKind, Endpoint, Vec<u8>)> {
    let mut out = Vec::new();
    let v = |x: u64| refimpl::varint::encode(x).unwrap();
    let frame = |ty: u64, payload: &[u8]| {
        let mut b = v(ty);
        b.extend(v(payload.len() as u64));
        b.extend_from_slice(payload);
        b
    };
    let counts: Vec<usize> = if thorough { vec![24_575, 24_576, 24_577, 32_767, 32_768, 32_769, 70_000] } else { vec![24_576, 24_577, 32_768, 32_769] };
    for (me, head) in [(Endpoint::Server, REQ_SECTION), (Endpoint::Client, RESP_SECTION)] {
        for &n in &counts {
            // n duplicates of one indexed static line (accept-encoding: gzip, deflate, br)
            let mut dup = head.to_vec();
            dup.extend(std::iter::repeat(0xdf).take(n));
            // n distinct literal names: 0x24 <4 bytes> 0x00 (empty value)
            let mut distinct = head.to_vec();
            for i in 0..n {
                distinct.push(0x24);
                let mut k = i;
                for _ in 0..4 {
                    distinct.push(b'a' + (k % 26) as u8);
                    k /= 26;
                }
                distinct.push(0x00);
            }
            for section in [dup, distinct] {
                out.push((StreamKind::Request, me, frame(rf::HEADERS, &section)));
                // the same as trailers of an otherwise fine message
                let mut t = frame(rf::HEADERS, head);
                t.extend(frame(rf::DATA, b"xy"));
                let mut tsec = vec![0x00, 0x00];
                tsec.extend_from_slice(&section[head.len()..]);
                t.extend(frame(rf::HEADERS, &tsec));
                out.push((StreamKind::Request, me, t));
            }
        }
        for len in [(1u64 << 32) - 1, 1 << 32, (1 << 62) - 1] {
            for ty in [rf::DATA, rf::HEADERS, 0x21, rf::PUSH_PROMISE, rf::GOAWAY] {
                for after_head in [false, true] {
                    let mut b = if after_head { frame(rf::HEADERS, head) } else { Vec::new() };
                    b.extend(v(ty));
                    b.extend(v(len));
                    b.extend_from_slice(&[0x00, 0x01, 0x02]);
                    out.push((StreamKind::Request, me, b));
                }
            }
            for ty in [rf::SETTINGS, rf::GOAWAY, rf::MAX_PUSH_ID, rf::CANCEL_PUSH, 0x21, rf::DATA] {
                for kind in [StreamKind::ControlAfterSettings, StreamKind::ControlFirst] {
                    let mut b = v(ty);
                    b.extend(v(len));
                    b.extend_from_slice(&[0x00, 0x01, 0x02]);
                    out.push((kind, me, b));
                }
            }
        }
    }
    out
}

pub fn run(args: &Args) -> i32 {
    let thorough = args.tier == Tier::Thorough;
    let mut rep = Report::new("C06", args.tier, args.seed, "model_checking");
    rep.exhaustive = true;
    let l = if thorough { 3 } else { 2 };
    rep.rule = format!(
        "(a) every byte string of length <= {l} on each of 9 stream kinds (request, control after SETTINGS, control as first bytes, QPACK encoder, QPACK decoder, push, WebTransport uni, unknown, and a unidirectional stream with nothing but the string: ended before, inside or right behind its type) x role x delivery (whole, one byte per read) x (FIN, left open){}; (b) grammar strings (request-stream sequences of <= {} frames over the C03 alphabet, control-stream sequences over the C04 alphabet, malformed/invalid field sections, a field section without field lines as head and as trailers, section prefixes with extreme Required Insert Count / Delta Base integers, WebTransport signal, a head of more than 100 bytes and 40 unknown frames in front of a head (many transport reads per call under one-byte reads), unidirectional streams that stop before / inside / right behind their type) x one fault of {{FIN, RESET, STOP_SENDING, connection close, transport timeout, or no fault but a transport chunk boundary (bytes read before the rest is written)}} injected at EVERY byte offset x delivery (whole, per byte). (c) size extremes: field sections with N field lines for N around http::HeaderMap's capacity limits (24576/24577, 32768/32769; duplicates of one line and distinct names; as head and as trailers) and frames of every kind with declared lengths 2^32-1, 2^32, 2^62-1. (d) string literals announcing 2^31 ... 2^64-1 bytes with two bytes present (name and value position, plain and Huffman), each executed in a child process so that an aborting allocation is an observation; (e) a body with 200 000 consecutive empty DATA frames, all buffered when the application reads (a stack overflow kills the process), in a child process as well. Real server / client run the documented call pattern including the sending half. Oracle: no panic in any poll (overflow checks + debug assertions on); at quiescence no call is pending on a finished/reset stream or a dead connection. states = distinct final (transport, observation) fingerprints; non-trivial = cases with a fault or >= 2 bytes.",
        if thorough { " (length 3: request and control kinds)" } else { "" },
        if thorough { 4 } else { 3 }
    );
    rep.assumptions = vec![
        "zero-length chunks from the transport are outside the RecvStream contract and not produced".into(),
        "a pending call is a hang iff the closed world is quiescent and the thing it waits on is over (peer finished/reset the stream, or the connection is closed / timed out)".into(),
    ];
    rep.bound_note = format!("exhaustive over the stated sets; one fault per execution; strings up to {l} bytes dense");
    let mut cases: Vec<Case> = Vec::new();
    // (a)
    let kinds = [StreamKind::Request, StreamKind::ControlAfterSettings, StreamKind::ControlFirst, StreamKind::Encoder, StreamKind::Decoder, StreamKind::Push, StreamKind::WtUni, StreamKind::Unknown, StreamKind::UniRaw];
    let mut strings: Vec<Vec<u8>> = vec![vec![]];
    for a in 0..=255u8 {
        strings.push(vec![a]);
    }
    for a in 0..=255u8 {
        for b in 0..=255u8 {
            strings.push(vec![a, b]);
        }
    }
    for me in [Endpoint::Server, Endpoint::Client] {
        for kind in kinds {
            for s in &strings {
                for per_byte in [false, true] {
                    if per_byte && s.len() < 2 {
                        continue;
                    }
                    for fin in [true, false] {
                        if !fin && per_byte {
                            continue;
                        }
                        cases.push(Case { me, kind, bytes: s.clone(), per_byte, fault: None, fin });
                    }
                }
            }
        }
    }
    if thorough {
        for me in [Endpoint::Server, Endpoint::Client] {
            for kind in [StreamKind::Request, StreamKind::ControlAfterSettings] {
                for a in 0..=255u8 {
                    for b in 0..=255u8 {
                        for c in (0..=255u8).step_by(1) {
                            cases.push(Case { me, kind, bytes: vec![a, b, c], per_byte: false, fault: None, fin: true });
                        }
                    }
                }
            }
        }
    }
    // (b)
    let faults = [Fault::Fin, Fault::Reset(0x10c), Fault::StopSending(0x10c), Fault::Close(0x101), Fault::Close(0x100), Fault::Timeout, Fault::Cut];
    let mut gs = grammar_strings(thorough);
    let inline: Vec<(StreamKind, Endpoint, Vec<u8>)> = gs.iter().filter(|(k, me, _)| *k == StreamKind::Request && *me == Endpoint::Server).map(|(_, me, b)| (StreamKind::RequestInline, *me, b.clone())).collect();
    gs.extend(inline);
    for (kind, me, bytes) in gs {
        for per_byte in [false, true] {
            cases.push(Case { me, kind, bytes: bytes.clone(), per_byte, fault: None, fin: true });
            cases.push(Case { me, kind, bytes: bytes.clone(), per_byte, fault: None, fin: false });
            for f in faults {
                for at in 0..=bytes.len() {
                    cases.push(Case { me, kind, bytes: bytes.clone(), per_byte, fault: Some((f, at)), fin: true });
                }
            }
        }
    }
    // (c) size extremes: field sections with very many field lines, frames with huge declared lengths
    let extremes = size_extremes(thorough);
    let n_extremes = extremes.len();
    for (kind, me, bytes) in extremes {
        for fin in [true, false] {
            cases.push(Case { me, kind, bytes: bytes.clone(), per_byte: false, fault: None, fin });
        }
    }
    // (d) string literals whose ANNOUNCED length is huge while only a few bytes are present. A decoder that sizes
    // a buffer from the announced length panics ("capacity overflow") or makes the allocator abort the process;
    // an abort cannot be caught in-process, so each of these cases runs in a child process.
    let mut isolated: Vec<Case> = Vec::new();
    for (me, head) in [(Endpoint::Server, REQ_SECTION), (Endpoint::Client, RESP_SECTION)] {
        for l in [1u64 << 31, 1 << 32, 1 << 36, 1 << 40, 1 << 47, 1 << 61, 1 << 62, 1 << 63, u64::MAX] {
            for huffman in [false, true] {
                // value of a literal with static name reference; name of a literal with literal name
                let mut a = head.to_vec();
                a.push(0x51);
                a.extend(refimpl::qint::encode(7, huffman as u8, l));
                a.extend_from_slice(b"xy");
                let mut b = head.to_vec();
                b.extend(refimpl::qint::encode(3, 0x4 | huffman as u8, l));
                b.extend_from_slice(b"xy");
                for sec in [a, b] {
                    let mut bytes = refimpl::varint::encode(rf::HEADERS).unwrap();
                    bytes.extend(refimpl::varint::encode(sec.len() as u64).unwrap());
                    bytes.extend(sec);
                    isolated.push(Case { me, kind: StreamKind::Request, bytes, per_byte: false, fault: None, fin: true });
                }
            }
        }
    }
    // (e) a body with a very long run of empty DATA frames (legal padding), all buffered when the application reads:
    // a subject that recurses once per frame overflows its stack, which kills the process - hence also in a child
    for (me, head) in [(Endpoint::Server, REQ_SECTION), (Endpoint::Client, RESP_SECTION)] {
        let mut bytes = rf::frame(rf::HEADERS, head);
        for _ in 0..200_000 {
            bytes.extend_from_slice(&[0x00, 0x00]);
        }
        bytes.extend(rf::frame(rf::DATA, b"fada"));
        isolated.push(Case { me, kind: StreamKind::Request, bytes, per_byte: false, fault: None, fin: true });
    }
    let seed = args.seed;
    let iso_accs = explore::par::run(&isolated, Acc::new, |_, case, acc| {
        acc.evaluations += 1;
        let role = if case.me == Endpoint::Server { "server" } else { "client" };
        match crate::common::run_isolated("C06", &case_json(case, seed)) {
            crate::common::Isolated::NoViolation => {}
            crate::common::Isolated::Violations(v) => {
                for (sig, msg) in v {
                    acc.violation(sig, msg, (0, case.bytes.len()), || case_json(case, seed));
                }
            }
            crate::common::Isolated::Aborted(sigl) => acc.violation(
                format!("C06:{role}:process-aborted:{:?}", case.kind),
                format!("{}: the process was killed ({sigl}) - e.g. an allocation sized by a length the peer announced", ctx(case)),
                (0, case.bytes.len()),
                || case_json(case, seed),
            ),
            crate::common::Isolated::TimedOut => acc.violation(
                format!("C06:{role}:stuck:isolated-case-does-not-return"),
                format!("{}: the child process did not finish within 120 s", ctx(case)),
                (0, case.bytes.len()),
                || case_json(case, seed),
            ),
            crate::common::Isolated::Machinery(e) => explore::machinery_failure(&format!("isolated run failed: {e}")),
        }
    });
    let chunks: Vec<&[Case]> = cases.chunks(512).collect();
    let accs = explore::par::run(&chunks, Acc::new, |_, chunk, acc| {
        for case in *chunk {
            let o = execute(case, seed);
            acc.evaluations += 1;
            acc.dfs.executions += 1;
            acc.transitions += (case.bytes.len() + 4) as u64;
            acc.states.insert(o.fp);
            let mut h = Fnv::new();
            h.str(&format!("{:?}|{:?}|{}", o.msg.as_ref().map(|m| (&m.head, &m.body_end, &m.trailers, &m.stage)), o.driver.results, o.client_send));
            acc.outcomes.insert(h.finish());
            for (sig, msg) in judge(case, &o) {
                acc.violation(sig, msg, (case.fault.is_some() as usize, case.bytes.len()), || case_json(case, seed));
            }
            if case.fault.is_some() || case.bytes.len() >= 2 {
                let mut h = Fnv::new();
                h.str(&format!("{case:?}"));
                acc.nontrivial.insert(h.finish());
            }
        }
    });
    let mut total = Acc::new();
    for a in accs {
        total.merge(a);
    }
    for a in iso_accs {
        total.merge(a);
    }
    total.count("isolated_huge_announced_length_cases", isolated.len() as u64);
    total.count("cases", cases.len() as u64);
    total.count("size_extreme_inputs", n_extremes as u64);
    for i in [cases.len() / 7, cases.len() - 300, cases.len() - 1] {
        total.samples.push(json!(ctx(&cases[i])));
    }
    rep.finish(total)
}

pub fn replay(r: &Value) -> i32 {
    let case = case_from_json(r);
    let seed = r["seed"].as_u64().unwrap_or(0);
    println!("case: {}", ctx(&case));
    let o1 = execute(&case, seed);
    let o2 = execute(&case, seed);
    if o1 != o2 {
        println!("REPLAY NOT DETERMINISTIC");
        return 2;
    }
    println!("outcome: {o1:?}");
    let v = judge(&case, &o1);
    for (sig, msg) in &v {
        println!("observed: {sig}: {msg}");
    }
    if v.is_empty() {
        println!("observed: no violation");
        0
    } else {
        1
    }
}
