//! C16 — QUIC variable-length integers and stream-ID arithmetic match RFC 9000.
//!
//! Complete enumeration of a bounded input space against `refimpl::varint`:
//!  * encode side: every value 0..=65536, +-2 around every form boundary, 2^k-1/2^k/2^k+1 for all k,
//!    the lattice m<<s (m in 1..=255, s in 0..=61), u64::MAX — through from_u64 / TryFrom / encode / size;
//!  * decode side: all 256 one-byte and all 65536 two-byte strings, every length form (minimal or
//!    not) of every boundary value, each followed by 0..2 trailing bytes, fed whole and as a Buf of
//!    two chunks split at every position; every truncation of every encoding;
//!  * stream IDs: 4 kinds x boundary indices x boundary increments.

use crate::common::guard;
use crate::Args;
use bytes::Buf;
use explore::report::{Acc, Report};
use explore::{hex, Fnv};
use h3::proto::varint::VarInt;
use h3::quic::StreamId;
use refimpl::varint as rv;
use serde_json::{json, Value};
use std::convert::TryFrom;

fn values(thorough: bool) -> Vec<u64> {
    let mut v: Vec<u64> = (0..=65536u64).collect();
    for b in [6u32, 14, 30, 62] {
        let c = 1u64 << b;
        for d in -2i64..=2 {
            v.push((c as i64 + d) as u64);
        }
    }
    for k in 0..64u32 {
        let c = 1u64 << k;
        v.push(c.wrapping_sub(1));
        v.push(c);
        v.push(c.wrapping_add(1));
    }
    let mmax = if thorough { 4095 } else { 255 };
    for m in 1..=mmax as u64 {
        for s in 0..=61u32 {
            v.push(m.wrapping_shl(s));
        }
    }
    v.push(u64::MAX);
    v.push(u64::MAX - 1);
    v.sort_unstable();
    v.dedup();
    v
}

fn check_encode(v: u64, acc: &mut Acc) {
    acc.evaluations += 1;
    let expect = rv::encode(v);
    let mut h = Fnv::new();
    h.str("enc");
    let got = guard(|| {
        let a = VarInt::from_u64(v);
        let b = VarInt::try_from(v);
        let c = VarInt::try_from(v as usize);
        (a.ok(), b.ok(), c.ok())
    });
    let (a, b, c) = match got {
        Ok(x) => x,
        Err(p) => {
            acc.violation(
                "C16:constructor-panic",
                format!("checked constructor panicked for {v}: {p}"),
                (0, 0),
                || json!({"kind":"encode","value":v.to_string()}),
            );
            return;
        }
    };
    let ctor_ok = a.is_some();
    if b.is_some() != ctor_ok || c.is_some() != ctor_ok {
        acc.violation(
            "C16:constructors-disagree",
            format!("from_u64/TryFrom<u64>/TryFrom<usize> disagree for {v}"),
            (0, 0),
            || json!({"kind":"encode","value":v.to_string()}),
        );
    }
    match (expect, a) {
        (None, None) => {
            h.str("refused");
            acc.nontrivial.insert(v ^ 0x1111);
        }
        (None, Some(_)) => acc.violation(
            "C16:accepts-value-ge-2^62",
            format!("checked constructor accepted {v} >= 2^62"),
            (0, 0),
            || json!({"kind":"encode","value":v.to_string()}),
        ),
        (Some(_), None) => acc.violation(
            "C16:refuses-valid-value",
            format!("checked constructor refused {v} < 2^62"),
            (0, 0),
            || json!({"kind":"encode","value":v.to_string()}),
        ),
        (Some(want), Some(x)) => {
            let r = guard(|| {
                let mut out = Vec::new();
                x.encode(&mut out);
                let size = x.size();
                let inner = x.into_inner();
                let mut rd = &out[..];
                let back = VarInt::decode(&mut rd).map(|d| d.into_inner());
                let left = rd.remaining();
                (out, size, inner, back.ok(), left)
            });
            match r {
                Err(p) => acc.violation(
                    "C16:encode-panic",
                    format!("encode/size/decode panicked for {v}: {p}"),
                    (0, 0),
                    || json!({"kind":"encode","value":v.to_string()}),
                ),
                Ok((out, size, inner, back, left)) => {
                    h.u64(out.len() as u64);
                    if want.len() > 1 {
                        acc.nontrivial.insert(v ^ 0x2222);
                    }
                    if out != want {
                        acc.violation(
                            format!("C16:encode-not-shortest-rfc-form:len={}", want.len()),
                            format!("encode({v}) = {} but RFC 9000 shortest form is {}", hex(&out), hex(&want)),
                            (0, 0),
                            || json!({"kind":"encode","value":v.to_string()}),
                        );
                    }
                    if size != want.len() {
                        acc.violation(
                            format!("C16:size-wrong:len={}", want.len()),
                            format!("size({v}) = {size}, expected {}", want.len()),
                            (0, 0),
                            || json!({"kind":"encode","value":v.to_string()}),
                        );
                    }
                    if inner != v || back != Some(v) || left != 0 {
                        acc.violation(
                            format!("C16:roundtrip:len={}", want.len()),
                            format!("{v} does not round-trip: inner={inner} decoded={back:?} left={left}"),
                            (0, 0),
                            || json!({"kind":"encode","value":v.to_string()}),
                        );
                    }
                }
            }
        }
    }
    acc.outcomes.insert(h.finish());
}

/// Decode `input` presented as a Buf of one or two chunks (split at `split`, if any).
fn h3_decode(input: &[u8], split: Option<usize>) -> Result<(Option<u64>, usize), String> {
    guard(|| match split {
        None => {
            let mut b = input;
            let r = VarInt::decode(&mut b).ok().map(|v| v.into_inner());
            (r, input.len() - b.remaining())
        }
        Some(k) => {
            let mut b = (&input[..k]).chain(&input[k..]);
            let r = VarInt::decode(&mut b).ok().map(|v| v.into_inner());
            (r, input.len() - b.remaining())
        }
    })
}

fn check_decode(input: &[u8], acc: &mut Acc) {
    check_decode_d(input, false, acc)
}

/// `dense`: part of a dense block enumeration (distinct by construction): counted, not fingerprinted
fn check_decode_d(input: &[u8], dense: bool, acc: &mut Acc) {
    let want = rv::decode(input);
    let mut h = Fnv::new();
    h.str("dec");
    let splits: Vec<Option<usize>> = std::iter::once(None)
        .chain((1..input.len()).map(Some))
        .collect();
    for split in splits {
        acc.evaluations += 1;
        let rep = || json!({"kind":"decode","input":hex(input),"split":split});
        match (h3_decode(input, split), want) {
            (Err(p), _) => acc.violation(
                "C16:decode-panic",
                format!("VarInt::decode panicked on {}: {p}", hex(input)),
                (0, input.len()),
                rep,
            ),
            (Ok((Some(v), used)), rv::Decoded::Ok(wv, wn)) => {
                h.u64(wn as u64);
                if v != wv {
                    acc.violation(
                        format!("C16:decode-value:form={wn}"),
                        format!("{} decodes to {v}, RFC value {wv}", hex(input)),
                        (0, input.len()),
                        rep,
                    );
                }
                if used != wn {
                    acc.violation(
                        format!("C16:decode-consumed:form={wn}"),
                        format!("{} consumed {used} bytes, its length is {wn}", hex(input)),
                        (0, input.len()),
                        rep,
                    );
                }
            }
            (Ok((None, _)), rv::Decoded::Truncated) => {
                h.str("trunc");
            }
            (Ok((Some(v), _)), rv::Decoded::Truncated) => acc.violation(
                "C16:truncated-accepted",
                format!("truncated encoding {} decoded to {v}", hex(input)),
                (0, input.len()),
                rep,
            ),
            (Ok((None, _)), rv::Decoded::Ok(wv, wn)) => acc.violation(
                format!("C16:valid-rejected:form={wn}"),
                format!("{} (= {wv}) reported as truncated", hex(input)),
                (0, input.len()),
                rep,
            ),
        }
    }
    if input.len() != 1 || input[0] >= 0x40 {
        if dense {
            acc.nontrivial_counted += 1;
        } else {
            let mut f = Fnv::new();
            f.bytes(input);
            acc.nontrivial.insert(f.finish());
        }
    }
    acc.outcomes.insert(h.finish());
}

fn kind_name(id: u64) -> (&'static str, &'static str) {
    // RFC 9000 section 2.1, Table 1
    (
        if id & 1 == 0 { "client" } else { "server" },
        if id & 2 == 0 { "bi" } else { "uni" },
    )
}

fn check_stream_id(id: u64, incs: &[usize], acc: &mut Acc) {
    acc.evaluations += 1;
    let rep = |inc: Option<usize>| json!({"kind":"stream_id","id":id.to_string(),"inc":inc.map(|i| i.to_string())});
    let s = match guard(|| StreamId::try_from(id)) {
        Err(p) => {
            acc.violation("C16:streamid-ctor-panic", format!("StreamId::try_from({id}) panicked: {p}"), (0, 0), || rep(None));
            return;
        }
        Ok(s) => s,
    };
    let mut h = Fnv::new();
    h.str("sid");
    match (s, id <= rv::MAX) {
        (Err(_), false) => {
            h.str("refused");
            acc.nontrivial.insert(id ^ 0x3333);
        }
        (Ok(_), false) => acc.violation("C16:streamid-accepts-ge-2^62", format!("StreamId accepted {id}"), (0, 0), || rep(None)),
        (Err(_), true) => acc.violation("C16:streamid-refuses-valid", format!("StreamId refused {id}"), (0, 0), || rep(None)),
        (Ok(s), true) => {
            let (ini, dir) = kind_name(id);
            let r = guard(|| (s.is_request(), s.is_push(), s.index(), s.into_inner(), format!("{s}")));
            match r {
                Err(p) => acc.violation("C16:streamid-accessor-panic", format!("accessor panicked for {id}: {p}"), (0, 0), || rep(None)),
                Ok((is_req, is_push, index, inner, text)) => {
                    h.u64(id & 3);
                    let want_req = ini == "client" && dir == "bi";
                    let want_push = ini == "server" && dir == "uni";
                    if is_req != want_req || is_push != want_push {
                        acc.violation(
                            format!("C16:streamid-classification:kind={}", id & 3),
                            format!("id {id}: is_request={is_req} is_push={is_push}, RFC 9000: {ini}-initiated {dir}directional"),
                            (0, 0),
                            || rep(None),
                        );
                    }
                    if index != id >> 2 || inner != id {
                        acc.violation(
                            format!("C16:streamid-index:kind={}", id & 3),
                            format!("id {id}: index()={index} into_inner()={inner}, expected {} / {id}", id >> 2),
                            (0, 0),
                            || rep(None),
                        );
                    }
                    let want_text = format!("{ini} {dir}directional stream {}", id >> 2);
                    if text != want_text {
                        acc.violation(
                            format!("C16:streamid-display:kind={}", id & 3),
                            format!("id {id} displays as {text:?}, RFC 9000 classification is {want_text:?}"),
                            (0, 0),
                            || rep(None),
                        );
                    }
                }
            }
            for &inc in incs {
                acc.evaluations += 1;
                let want_index = ((id >> 2) as u128 + inc as u128).min((1u128 << 60) - 1) as u64;
                let want = (want_index << 2) | (id & 3);
                match guard(|| (s + inc).into_inner()) {
                    Err(p) => acc.violation(
                        format!("C16:streamid-add-panic:kind={}", id & 3),
                        format!("StreamId({id}) + {inc} panicked: {p}"),
                        (0, 0),
                        || rep(Some(inc)),
                    ),
                    Ok(got) => {
                        if got != want {
                            acc.violation(
                                format!("C16:streamid-add:kind={}:{}", id & 3, if want_index == (1 << 60) - 1 { "saturating" } else { "plain" }),
                                format!("StreamId({id}) + {inc} = {got}, expected {want} (same kind, index min(i+n, 2^60-1))"),
                                (0, 0),
                                || rep(Some(inc)),
                            );
                        }
                        if want_index == (1 << 60) - 1 {
                            h.str("sat");
                            acc.nontrivial.insert(id ^ (inc as u64).rotate_left(17) ^ 0x4444);
                        }
                    }
                }
            }
        }
    }
    acc.outcomes.insert(h.finish());
}

fn decode_inputs(thorough: bool) -> Vec<Vec<u8>> {
    let mut v: Vec<Vec<u8>> = Vec::new();
    v.push(vec![]);
    for a in 0..=255u8 {
        v.push(vec![a]);
    }
    for a in 0..=255u8 {
        for b in 0..=255u8 {
            v.push(vec![a, b]);
        }
    }
    // every form (minimal or padded) of every boundary value, with trailing bytes and every truncation
    let mut bvals: Vec<u64> = vec![0, 1, 37, 62, 63, 64, 65, 255, 256, 16382, 16383, 16384, 16385, 65535, 65536];
    for b in [30u32, 62] {
        let c = 1u64 << b;
        for d in 1..=2 {
            bvals.push(c - d);
        }
        if b < 62 {
            bvals.extend([c, c + 1, c + 2]);
        }
    }
    bvals.extend([151_288_809_941_952_652, 494_878_333, 15_293]);
    if thorough {
        for k in 0..62u32 {
            bvals.extend([(1u64 << k) - 1, 1u64 << k, (1u64 << k) + 1]);
        }
    }
    bvals.sort_unstable();
    bvals.dedup();
    for val in bvals {
        for enc in rv::all_forms(val) {
            for cut in 0..enc.len() {
                v.push(enc[..cut].to_vec());
            }
            for trail in [&[][..], &[0x00][..], &[0xff, 0xc0][..]] {
                let mut e = enc.clone();
                e.extend_from_slice(trail);
                v.push(e);
            }
        }
    }
    // 4- and 8-byte forms with all-ones / alternating payloads
    for first in [0x80u8, 0xbf, 0xc0, 0xff] {
        let n = rv::announced_len(first);
        for fill in [0x00u8, 0xff, 0xa5] {
            let mut e = vec![fill; n];
            e[0] = first;
            for cut in 0..=n {
                v.push(e[..cut].to_vec());
            }
        }
    }
    v.sort();
    v.dedup();
    v
}

pub fn run(args: &Args) -> i32 {
    let thorough = args.tier == explore::report::Tier::Thorough;
    let mut rep = Report::new("C16", args.tier, args.seed, "exploration");
    rep.exhaustive = true;
    rep.rule = "complete enumeration of (a) values 0..=65536, +-2 around 2^6/2^14/2^30/2^62, 2^k-1/2^k/2^k+1 for all k<64, the lattice m<<s, u64::MAX through every checked constructor + encode/size/decode; (b) ALL byte strings of 1, 2 and 3 bytes (thorough: and of 4 bytes) and every length form of every boundary value, with trailing bytes, every truncation, whole and as a two-chunk Buf split at every offset; (c) stream IDs: 4 kinds x boundary indices x boundary increments. Oracle: refimpl::varint (RFC 9000 s16, s2.1). Non-trivial = multi-byte form, truncation, refusal or saturation.".into();
    rep.assumptions = vec![
        "refimpl::varint is a correct transcription of RFC 9000 section 16 (self-tested against Appendix A.1)".into(),
        "values outside the enumerated sets are covered only by the structure of the codec (four straight-line branches)".into(),
    ];
    rep.bound_note = "exhaustive over the stated finite sets".into();

    // --- encode side
    let vals = values(thorough);
    let chunks: Vec<&[u64]> = vals.chunks(4096).collect();
    let mut accs = explore::par::run(&chunks, Acc::new, |_, c, acc| {
        for &v in *c {
            check_encode(v, acc);
        }
    });
    // --- encoded_size for every first byte
    {
        let acc = &mut accs[0];
        for first in 0..=255u8 {
            acc.evaluations += 1;
            match guard(|| VarInt::encoded_size(first)) {
                Ok(n) if n == rv::announced_len(first) => {}
                Ok(n) => acc.violation(
                    format!("C16:encoded-size:tag={}", first >> 6),
                    format!("encoded_size({first:#x}) = {n}, RFC length {}", rv::announced_len(first)),
                    (0, 0),
                    || json!({"kind":"encoded_size","first":first}),
                ),
                Err(p) => acc.violation("C16:encoded-size-panic", p, (0, 0), || json!({"kind":"encoded_size","first":first})),
            }
        }
    }
    // --- decode side
    let inputs = decode_inputs(thorough);
    let chunks: Vec<&[Vec<u8>]> = inputs.chunks(2048).collect();
    accs.extend(explore::par::run(&chunks, Acc::new, |_, c, acc| {
        for i in *c {
            check_decode(i, acc);
        }
    }));
    // --- decode side, dense: ALL byte strings of 3 bytes (thorough: of 4 bytes), each whole and cut at every offset
    {
        let mut blocks: Vec<Vec<u8>> = Vec::new();
        for a in 0..=255u8 {
            if thorough {
                for b in 0..=255u8 {
                    blocks.push(vec![a, b]);
                }
            }
            blocks.push(vec![a]);
        }
        accs.extend(explore::par::run(&blocks, Acc::new, |_, lead, acc| {
            let mut s = lead.clone();
            let base = s.len();
            s.extend([0u8, 0]);
            for x in 0..65536usize {
                s[base] = (x >> 8) as u8;
                s[base + 1] = x as u8;
                check_decode_d(&s, true, acc);
            }
        }));
    }
    // --- stream ids
    let top = (1u64 << 60) - 1;
    let mut indices: Vec<u64> = vec![0, 1, 2, 3, 15, 16, 63, 64, 16383, 16384, top - 2, top - 1, top, top + 1, 1 << 61, (1 << 62) - 1];
    if thorough {
        for k in 0..60u32 {
            indices.extend([(1u64 << k) - 1, 1u64 << k]);
        }
    }
    indices.sort_unstable();
    indices.dedup();
    let incs: Vec<usize> = vec![0, 1, 2, 3, 100, (top - 1) as usize, top as usize, (top + 1) as usize, 1 << 62, usize::MAX - 1, usize::MAX];
    {
        let acc = &mut accs[0];
        for &i in &indices {
            for kind in 0..4u64 {
                let id = i.wrapping_shl(2) | kind;
                if i > (u64::MAX >> 2) {
                    continue;
                }
                check_stream_id(id, &incs, acc);
            }
        }
        check_stream_id(u64::MAX, &incs, acc);
        check_stream_id(1 << 62, &incs, acc);
        acc.sample(|| json!({"encode_value": "16384", "reference_bytes": hex(&rv::encode(16384).unwrap())}));
        acc.sample(|| json!({"decode_input": "4025", "split_at": 1, "reference": "value 37, 2 bytes (non-minimal form)"}));
        acc.sample(|| json!({"stream_id": ((top - 1) << 2 | 3).to_string(), "plus": usize::MAX.to_string(), "reference": ((top << 2) | 3).to_string()}));
    }
    let mut total = Acc::new();
    for a in accs {
        total.merge(a);
    }
    total.count("encode_values", vals.len() as u64);
    total.count("decode_inputs", inputs.len() as u64);
    rep.finish(total)
}

pub fn replay(r: &Value) -> i32 {
    let mut acc = Acc::new();
    match r["kind"].as_str() {
        Some("encode") => check_encode(r["value"].as_str().unwrap().parse().unwrap(), &mut acc),
        Some("decode") => check_decode(&explore::unhex(r["input"].as_str().unwrap()), &mut acc),
        Some("stream_id") => {
            let id: u64 = r["id"].as_str().unwrap().parse().unwrap();
            let incs: Vec<usize> = r["inc"].as_str().map(|s| vec![s.parse().unwrap()]).unwrap_or_default();
            check_stream_id(id, &incs, &mut acc)
        }
        Some("encoded_size") => {
            let f = r["first"].as_u64().unwrap() as u8;
            println!("encoded_size({f:#x}) = {:?}, RFC: {}", guard(|| VarInt::encoded_size(f)), rv::announced_len(f));
        }
        _ => return 2,
    }
    for (sig, v) in &acc.violations {
        println!("observed: {sig}: {}", v.what);
    }
    if acc.violations.is_empty() {
        println!("observed: no violation (property holds on this input)");
        0
    } else {
        1
    }
}
