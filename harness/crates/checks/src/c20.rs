//! C20 — the stateful QPACK encoder and decoder stay in agreement.
//!
//! Explicit-state breadth-first search in the "history is the state" style over the real
//! `Encoder` / `Decoder` / `DynamicTable` (reached through the verif-hooks re-exports): a state is
//! the event list that reaches it, `build(history)` creates fresh real objects and replays it,
//! `canon(state)` is the complete digest of both tables plus everything in flight, invariants are
//! evaluated in every state. Plus a long workload (40 sections) explored by DFS with at most k
//! delivery deviations. Reference: refimpl::qpack's dynamic-table decoder.

use crate::common::guard;
use crate::Args;
use explore::dfs::{self, Caps};
use explore::report::{Acc, Report, Tier, ViolSet};
use explore::{choose, hex, Fnv};
use h3::qpack::verif::{ack_header, stream_canceled, Decoder, DynamicTable, Encoder};
use h3::qpack::HeaderField;
use refimpl::qpack::{self as rq, RefDecoder};
use serde_json::{json, Value};
use std::collections::{HashSet, VecDeque};

pub type Fields = Vec<(&'static str, &'static str)>;

pub fn sections() -> Vec<Fields> {
    vec![
        vec![("x", "1")],
        vec![("x", "2")],
        vec![("y", "1"), ("x", "1")],
        vec![("accept", "1")],
        vec![("x", "1"), ("x", "1")],
        vec![("y", "2"), ("accept", "2"), ("x", "2")],
    ]
}

#[derive(Clone, Copy, Debug, PartialEq, Eq, Hash)]
pub enum Ev {
    /// encode section (index) on a fresh stream
    Enc(usize),
    /// deliver the next complete encoder-stream instruction to the decoder
    DeliverEncOne,
    /// deliver everything written so far
    DeliverEncAll,
    /// deliver all but the last byte of the next instruction (a cut inside an instruction)
    DeliverEncPartial,
    /// try to decode pending block number i (in encoding order)
    Decode(usize),
    /// hand the encoder everything the decoder has written
    DeliverDec,
    /// the decoder cancels pending block number i
    Cancel(usize),
}

#[derive(Clone, Copy, Debug, PartialEq, Eq)]
pub struct Config {
    pub capacity: usize,
    pub blocked: usize,
}

struct Block {
    stream: u64,
    section: usize,
    bytes: Vec<u8>,
    /// the ack / cancellation for this block has been handed to the encoder
    settled_at_encoder: bool,
    /// decoded (ack written) or cancelled by the decoder
    finished_at_decoder: bool,
}

pub struct World {
    cfg: Config,
    enc: Encoder,
    dec: Decoder,
    /// what the decoder's table would be with every instruction delivered at once
    shadow: RefDecoder,
    /// the reference decoder fed with exactly what the real decoder has been given
    reference: RefDecoder,
    enc_stream: Vec<u8>,
    /// bytes of enc_stream handed to the decoder (it may have left a partial instruction unconsumed)
    enc_offered: usize,
    enc_consumed: usize,
    /// reference: offset up to which complete instructions were applied
    ref_applied: usize,
    shadow_applied: usize,
    dec_stream: Vec<u8>,
    dec_delivered: usize,
    blocks: Vec<Block>,
    next_stream: u64,
    pub violations: Vec<(String, String)>,
}

fn table(cfg: Config) -> DynamicTable {
    let mut t = DynamicTable::new();
    t.set_max_size(cfg.capacity).expect("capacity in range");
    t.set_max_blocked(cfg.blocked).expect("blocked limit in range");
    t
}

fn fields_of(section: usize) -> Vec<HeaderField> {
    sections()[section].iter().map(|(n, v)| HeaderField::new(*n, *v)).collect()
}

fn ref_fields(section: usize) -> Vec<rq::Field> {
    sections()[section].iter().map(|(n, v)| (n.as_bytes().to_vec(), v.as_bytes().to_vec())).collect()
}

fn digest_num(d: &str, key: &str) -> Option<usize> {
    let i = d.find(key)? + key.len();
    let rest = &d[i..];
    let end = rest.find(|c: char| !c.is_ascii_digit()).unwrap_or(rest.len());
    rest[..end].parse().ok()
}

impl World {
    pub fn new(cfg: Config) -> World {
        World {
            cfg,
            enc: Encoder::verif_with_table(table(cfg)),
            dec: Decoder::verif_with_table(table(cfg)),
            shadow: RefDecoder::new_with_capacity(cfg.capacity as u64, cfg.capacity as u64),
            reference: RefDecoder::new_with_capacity(cfg.capacity as u64, cfg.capacity as u64),
            enc_stream: Vec::new(),
            enc_offered: 0,
            enc_consumed: 0,
            ref_applied: 0,
            shadow_applied: 0,
            dec_stream: Vec::new(),
            dec_delivered: 0,
            blocks: Vec::new(),
            next_stream: 0,
            violations: Vec::new(),
        }
    }

    fn viol(&mut self, sig: &str, msg: String) {
        self.violations.push((format!("C20:{sig}"), msg));
    }

    fn pending(&self) -> Vec<usize> {
        (0..self.blocks.len()).filter(|i| !self.blocks[*i].finished_at_decoder).collect()
    }

    /// Complete instruction boundaries of the encoder stream after `from` (absolute offsets).
    fn instr_ends(&mut self, from: usize) -> Vec<usize> {
        match rq::parse_encoder_stream(&self.enc_stream[from..]) {
            Ok(v) => v.into_iter().map(|(_, e)| from + e).collect(),
            Err(e) => {
                self.viol("encoder-stream-not-rfc", format!("the reference cannot parse the encoder stream {} after offset {from}: {e:?}", hex(&self.enc_stream)));
                Vec::new()
            }
        }
    }

    fn apply_to(&mut self, shadow: bool, upto: usize) {
        let from = if shadow { self.shadow_applied } else { self.ref_applied };
        let parsed = rq::parse_encoder_stream(&self.enc_stream[from..upto.max(from)]);
        if let Ok(v) = parsed {
            let mut last = from;
            for (ins, end) in v {
                let r = if shadow { self.shadow.apply(&ins) } else { self.reference.apply(&ins) };
                if let Err(e) = r {
                    self.viol(
                        "encoder-instruction-invalid-for-reference",
                        format!("instruction {ins:?} emitted by the encoder is refused by the reference decoder ({e:?}); capacity {}", self.cfg.capacity),
                    );
                }
                last = from + end;
            }
            if shadow {
                self.shadow_applied = last;
            } else {
                self.ref_applied = last;
            }
        }
    }

    pub fn enabled(&mut self) -> Vec<Ev> {
        let mut v: Vec<Ev> = (0..sections().len()).map(Ev::Enc).collect();
        let ends = self.instr_ends(self.enc_offered.max(self.enc_consumed));
        if self.enc_offered < self.enc_stream.len() {
            v.push(Ev::DeliverEncAll);
            if let Some(first) = ends.first() {
                if *first < self.enc_stream.len() {
                    v.push(Ev::DeliverEncOne);
                }
                if *first - self.enc_offered.max(self.enc_consumed) >= 2 {
                    v.push(Ev::DeliverEncPartial);
                }
            }
        }
        for (k, _) in self.pending().iter().enumerate() {
            v.push(Ev::Decode(k));
            v.push(Ev::Cancel(k));
        }
        if self.dec_delivered < self.dec_stream.len() {
            v.push(Ev::DeliverDec);
        }
        v
    }

    fn offer_encoder_bytes(&mut self, upto: usize) {
        self.enc_offered = upto;
        let before = self.dec.verif_digest();
        let slice = self.enc_stream[self.enc_consumed..upto].to_vec();
        let mut rd: &[u8] = &slice;
        let r = guard(|| self.dec.on_encoder_recv(&mut rd, &mut self.dec_stream).map_err(|e| format!("{e:?}")));
        match r {
            Err(p) => self.viol(&format!("decoder-panic@{}", explore::panics::short_loc(&p)), format!("on_encoder_recv({}) panicked: {p}", hex(&slice))),
            Ok(Err(e)) => self.viol(
                "decoder-refuses-encoder-stream",
                format!("the decoder returned {e} on encoder-stream bytes {} produced by the encoder (capacity {}, table before: {before})", hex(&slice), self.cfg.capacity),
            ),
            Ok(Ok(_)) => {}
        }
        self.enc_consumed += slice.len() - rd.len();
        // the reference gets the complete instructions among the offered bytes
        self.apply_to(false, upto);
        if self.enc_consumed != self.ref_applied && self.violations.is_empty() {
            self.viol(
                "decoder-consumed-differently",
                format!("of the encoder stream {} the decoder consumed {} bytes, complete instructions end at {}", hex(&self.enc_stream[..upto]), self.enc_consumed, self.ref_applied),
            );
        }
    }

    pub fn step(&mut self, ev: Ev) {
        match ev {
            Ev::Enc(s) => {
                let stream = self.next_stream;
                self.next_stream += 4;
                let mut block: Vec<u8> = Vec::new();
                let mut encbuf: Vec<u8> = Vec::new();
                let fields = fields_of(s);
                let r = guard(|| self.enc.encode(stream, &mut block, &mut encbuf, fields.iter()).map_err(|e| format!("{e:?}")));
                match r {
                    Err(p) => {
                        self.viol(&format!("encoder-panic@{}", explore::panics::short_loc(&p)), format!("encode(section {s}) panicked: {p}"));
                        return;
                    }
                    Ok(Err(e)) => {
                        self.viol("encoder-error", format!("encode(section {s}) failed: {e}"));
                        return;
                    }
                    Ok(Ok(_)) => {}
                }
                self.enc_stream.extend(encbuf);
                self.apply_to(true, self.enc_stream.len());
                // with every instruction known, the block must decode to the original list
                match self.shadow.decode_section(&block) {
                    Ok(d) if d.fields == ref_fields(s) => {}
                    other => self.viol(
                        "section-not-rfc-decodable",
                        format!("section {s} ({:?}) encoded as {} with encoder stream {}; an independent decoder that has every instruction reads {:?}", sections()[s], hex(&block), hex(&self.enc_stream), other.map(|d| d.fields)),
                    ),
                }
                self.blocks.push(Block { stream, section: s, bytes: block, settled_at_encoder: false, finished_at_decoder: false });
            }
            Ev::DeliverEncAll => self.offer_encoder_bytes(self.enc_stream.len()),
            Ev::DeliverEncOne => {
                let ends = self.instr_ends(self.enc_offered.max(self.enc_consumed));
                if let Some(e) = ends.first() {
                    self.offer_encoder_bytes(*e);
                }
            }
            Ev::DeliverEncPartial => {
                let ends = self.instr_ends(self.enc_offered.max(self.enc_consumed));
                if let Some(e) = ends.first() {
                    self.offer_encoder_bytes(*e - 1);
                }
            }
            Ev::Decode(k) => {
                let Some(&i) = self.pending().get(k) else { return };
                let bytes = self.blocks[i].bytes.clone();
                let want = ref_fields(self.blocks[i].section);
                let reference = self.reference.decode_section(&bytes);
                let got = guard(|| {
                    let mut rd: &[u8] = &bytes;
                    self.dec.decode_header(&mut rd).map(|d| d.fields.iter().map(|f| (f.name.to_vec(), f.value.to_vec())).collect::<Vec<_>>()).map_err(|e| format!("{e:?}"))
                });
                let sec = format!("section {} ({:?}) = {}", self.blocks[i].section, sections()[self.blocks[i].section], hex(&bytes));
                match got {
                    Err(p) => self.viol(&format!("decoder-panic@{}", explore::panics::short_loc(&p)), format!("decode_header({sec}) panicked: {p}")),
                    Ok(Ok(fields)) => {
                        match &reference {
                            Ok(d) => {
                                if fields != want || d.fields != want {
                                    self.viol("mis-decoded", format!("{sec} decoded to {fields:?}; original {want:?}; reference {:?}", d.fields));
                                }
                            }
                            Err(rq::QErr::Blocked(n)) => self.viol(
                                "decoded-before-its-instructions-arrived",
                                format!("{sec} needs insert count {n} but the decoder has received only {} inserts; it returned {fields:?}", self.reference.table.inserted()),
                            ),
                            Err(e) => self.viol("decoded-what-reference-refuses", format!("{sec}: decoder {fields:?}, reference {e:?}")),
                        }
                        self.blocks[i].finished_at_decoder = true;
                        let stream = self.blocks[i].stream;
                        ack_header(stream, &mut self.dec_stream);
                    }
                    Ok(Err(e)) if e.starts_with("MissingRefs") => {
                        if !matches!(reference, Err(rq::QErr::Blocked(_))) {
                            self.viol(
                                "blocked-although-instructions-arrived",
                                format!("{sec}: decoder says {e}, but every instruction it depends on has been delivered (reference: {:?}); decoder table: {}", reference.as_ref().map(|d| &d.fields), self.dec.verif_digest()),
                            );
                        }
                    }
                    Ok(Err(e)) => {
                        // root cause, so that a known finding names exactly what it covers: has the
                        // encoder evicted insertions the decoder never acknowledged (RFC 9204 2.1.1)?
                        let ed = self.enc.verif_digest();
                        let (dropped, known) = (digest_num(&ed, "dropped: ").unwrap_or(0), digest_num(&ed, "known_received=").unwrap_or(0));
                        let cause = if dropped > known && matches!(reference, Err(rq::QErr::InvalidRequiredInsertCount) | Err(rq::QErr::InvalidIndex)) {
                            "encoder-evicted-unacknowledged-insertions"
                        } else {
                            "other"
                        };
                        self.viol(
                            &format!("decoder-refuses-section:{cause}"),
                            format!("{sec}: decoder returned {e} on a section produced by the encoder instead of decoding it or reporting it blocked (reference: {:?}); encoder has dropped {dropped} entries, decoder acknowledged {known} insertions; decoder table: {}", reference.map(|d| d.fields), self.dec.verif_digest()),
                        )
                    }
                }
            }
            Ev::Cancel(k) => {
                let Some(&i) = self.pending().get(k) else { return };
                self.blocks[i].finished_at_decoder = true;
                let stream = self.blocks[i].stream;
                stream_canceled(stream, &mut self.dec_stream);
            }
            Ev::DeliverDec => {
                let slice = self.dec_stream[self.dec_delivered..].to_vec();
                let mut rd: &[u8] = &slice;
                let r = guard(|| self.enc.on_decoder_recv(&mut rd).map_err(|e| format!("{e:?}")));
                match r {
                    Err(p) => self.viol(&format!("encoder-panic@{}", explore::panics::short_loc(&p)), format!("on_decoder_recv({}) panicked: {p}", hex(&slice))),
                    Ok(Err(e)) => self.viol("encoder-refuses-decoder-stream", format!("the encoder returned {e} on decoder-stream bytes {} (encoder table: {})", hex(&slice), self.enc.verif_digest())),
                    Ok(Ok(())) => {}
                }
                self.dec_delivered = self.dec_stream.len() - rd.len();
                for b in self.blocks.iter_mut() {
                    if b.finished_at_decoder {
                        b.settled_at_encoder = true;
                    }
                }
            }
        }
        self.check_invariants();
    }

    fn check_invariants(&mut self) {
        let (ed, dd) = (self.enc.verif_digest(), self.dec.verif_digest());
        for (who, d) in [("encoder", &ed), ("decoder", &dd)] {
            let (size, max) = (digest_num(d, "size=").unwrap_or(0), digest_num(d, "max=").unwrap_or(0));
            if size > max {
                self.viol(&format!("{who}-table-exceeds-capacity"), format!("{who} table size {size} > capacity {max}: {d}"));
            }
        }
        // the real decoder's table = the reference's table
        let (ins, dropped) = (digest_num(&dd, "inserted: ").unwrap_or(0), digest_num(&dd, "dropped: ").unwrap_or(0));
        if ins as u64 != self.reference.table.inserted() || dropped as u64 != self.reference.table.dropped() {
            if self.violations.is_empty() {
                self.viol("decoder-table-differs-from-reference", format!("decoder inserted/dropped {ins}/{dropped}, reference {}/{}: {dd}", self.reference.table.inserted(), self.reference.table.dropped()));
            }
        }
        // (c) an entry referenced by an unacknowledged section is never evicted from the encoder's
        // table: with every instruction applied (the shadow = the encoder's view), each section the
        // encoder has not seen settled must still be decodable
        let unsettled: Vec<usize> = (0..self.blocks.len()).filter(|i| !self.blocks[*i].settled_at_encoder).collect();
        for i in unsettled {
            let b = &self.blocks[i];
            if let Err(e) = self.shadow.decode_section(&b.bytes) {
                if matches!(e, rq::QErr::InvalidIndex) {
                    let msg = format!(
                        "section {} on stream {} ({}) is not yet acknowledged to the encoder, but an entry it references has been evicted (shadow decoder: {e:?}); encoder table: {ed}",
                        b.section,
                        b.stream,
                        hex(&b.bytes)
                    );
                    self.viol("referenced-entry-evicted", msg);
                }
            }
        }
    }

    pub fn canon(&self) -> u64 {
        let mut h = Fnv::new();
        h.str(&self.enc.verif_digest());
        h.str(&self.dec.verif_digest());
        h.bytes(&self.enc_stream[self.enc_consumed..]);
        h.u64(self.enc_offered as u64 - self.enc_consumed as u64);
        h.bytes(&self.dec_stream[self.dec_delivered..]);
        for b in &self.blocks {
            if !b.settled_at_encoder || !b.finished_at_decoder {
                h.u64(b.stream);
                h.bytes(&b.bytes);
                h.u64(b.finished_at_decoder as u64 | (b.settled_at_encoder as u64) << 1);
            }
        }
        h.u64(self.next_stream);
        h.finish()
    }
}

fn build(cfg: Config, warm: &[Ev], hist: &[Ev]) -> World {
    let mut w = World::new(cfg);
    for e in warm.iter().chain(hist.iter()) {
        w.step(*e);
        if !w.violations.is_empty() {
            break;
        }
    }
    w
}

fn ev_json(e: &Ev) -> Value {
    match e {
        Ev::Enc(s) => json!(["enc", s]),
        Ev::DeliverEncOne => json!(["deliver-enc-one"]),
        Ev::DeliverEncAll => json!(["deliver-enc-all"]),
        Ev::DeliverEncPartial => json!(["deliver-enc-partial"]),
        Ev::Decode(k) => json!(["decode", k]),
        Ev::DeliverDec => json!(["deliver-dec"]),
        Ev::Cancel(k) => json!(["cancel", k]),
    }
}

fn ev_from(v: &Value) -> Ev {
    let k = v.get(1).and_then(|x| x.as_u64()).unwrap_or(0) as usize;
    match v[0].as_str().unwrap() {
        "enc" => Ev::Enc(k),
        "deliver-enc-one" => Ev::DeliverEncOne,
        "deliver-enc-all" => Ev::DeliverEncAll,
        "deliver-enc-partial" => Ev::DeliverEncPartial,
        "decode" => Ev::Decode(k),
        "deliver-dec" => Ev::DeliverDec,
        _ => Ev::Cancel(k),
    }
}

/// Start states: empty; three sections fully exchanged; the same without acknowledgements.
pub fn warmups() -> Vec<(&'static str, Vec<Ev>)> {
    vec![
        ("empty", vec![]),
        ("three-exchanged", vec![Ev::Enc(0), Ev::Enc(2), Ev::Enc(3), Ev::DeliverEncAll, Ev::Decode(0), Ev::Decode(0), Ev::Decode(0), Ev::DeliverDec]),
        ("three-unacknowledged", vec![Ev::Enc(1), Ev::Enc(5), Ev::DeliverEncAll, Ev::Decode(0), Ev::Decode(0)]),
    ]
}

fn bfs(cfg: Config, warm_name: &str, warm: &[Ev], depth: usize, cap_states: usize, deadline: std::time::Instant, acc: &mut Acc) {
    let mut seen: HashSet<u64> = HashSet::new();
    let mut frontier: VecDeque<Vec<Ev>> = VecDeque::new();
    let w0 = build(cfg, warm, &[]);
    seen.insert(w0.canon());
    frontier.push_back(vec![]);
    let mut max_depth = 0;
    while let Some(hist) = frontier.pop_front() {
        if std::time::Instant::now() > deadline {
            // wall cap: everything up to the depth of the popped history minus one was covered completely
            acc.capped_cases += 1;
            acc.count(&format!("bfs_jobs_stopped_by_wall_cap_while_expanding_depth_{}", hist.len()), 1);
            return;
        }
        let mut w = build(cfg, warm, &hist);
        if !w.violations.is_empty() {
            continue;
        }
        // (e) the state must not depend on hash-map iteration order: build it a second time
        // (every std HashMap instance gets fresh RandomState keys)
        let again = build(cfg, warm, &hist);
        if again.violations.is_empty() && w.canon() != again.canon() {
            let full: Vec<Ev> = warm.iter().chain(hist.iter()).copied().collect();
            acc.violation(
                "C20:order-dependent".to_string(),
                format!("capacity {} blocked-streams limit {} start {warm_name}: two runs of {hist:?} reach different states:\n{}\n{}", cfg.capacity, cfg.blocked, w.enc.verif_digest(), again.enc.verif_digest()),
                (0, full.len()),
                || json!({"kind":"history","capacity":cfg.capacity,"blocked":cfg.blocked,"events":full.iter().map(ev_json).collect::<Vec<_>>()}),
            );
        }
        max_depth = max_depth.max(hist.len());
        if hist.len() >= depth {
            continue;
        }
        for ev in w.enabled() {
            acc.transitions += 1;
            acc.evaluations += 1;
            let mut next_hist = hist.clone();
            next_hist.push(ev);
            let nxt = build(cfg, warm, &next_hist);
            if !nxt.violations.is_empty() {
                for (sig, msg) in nxt.violations.clone() {
                    let full: Vec<Ev> = warm.iter().chain(next_hist.iter()).copied().collect();
                    acc.violation(
                        sig,
                        format!("capacity {} blocked-streams limit {} start {warm_name}: after {next_hist:?}: {msg}", cfg.capacity, cfg.blocked),
                        (0, full.len()),
                        || json!({"kind":"history","capacity":cfg.capacity,"blocked":cfg.blocked,"events":full.iter().map(ev_json).collect::<Vec<_>>()}),
                    );
                }
                continue;
            }
            let k = nxt.canon();
            let mut hk = Fnv::new();
            hk.u64(k);
            hk.u64(cfg.capacity as u64 * 1000 + cfg.blocked as u64);
            if seen.insert(k) {
                acc.states.insert(hk.finish());
                if nxt.blocks.len() >= 2 {
                    acc.nontrivial.insert(hk.finish());
                }
                let mut oh = Fnv::new();
                oh.u64(digest_num(&nxt.enc.verif_digest(), "dropped: ").unwrap_or(0) as u64);
                oh.u64(nxt.pending().len() as u64);
                oh.u64(nxt.blocks.iter().filter(|b| b.finished_at_decoder).count() as u64);
                acc.outcomes.insert(oh.finish());
                if seen.len() < cap_states {
                    frontier.push_back(next_hist);
                } else {
                    acc.capped_cases += 1;
                    return;
                }
            }
        }
    }
    acc.count(&format!("max_depth_reached"), max_depth as u64);
}

// ------------------------------------------------------------------------------------------------
// long workload under delivery deviations (DFS)

fn long_workload(cfg: Config, n: usize) -> Vec<(String, String)> {
    let mut w = World::new(cfg);
    let ns = sections().len();
    for i in 0..n {
        w.step(Ev::Enc((i * 5 + i / 3) % ns));
        if !w.violations.is_empty() {
            return w.violations;
        }
        // default: everything is delivered at once and in order; each stage may be late
        if choose(2, "encoder-stream-late") == 0 {
            w.step(Ev::DeliverEncAll);
        }
        if choose(2, "decode-late") == 0 {
            while !w.pending().is_empty() && w.violations.is_empty() {
                let before = w.pending().len();
                w.step(Ev::Decode(0));
                if w.pending().len() == before {
                    break; // blocked
                }
            }
        }
        if choose(2, "acknowledgement-late") == 0 && w.dec_delivered < w.dec_stream.len() {
            w.step(Ev::DeliverDec);
        }
        if !w.violations.is_empty() {
            return w.violations;
        }
    }
    // flush: in the end everything must decode
    w.step(Ev::DeliverEncAll);
    let mut guard_steps = 0;
    while !w.pending().is_empty() && w.violations.is_empty() && guard_steps < 4 * n {
        guard_steps += 1;
        let before = w.pending().len();
        w.step(Ev::Decode(0));
        if w.pending().len() == before {
            let i = w.pending()[0];
            let msg = format!("after everything was delivered, section {} on stream {} stays blocked; decoder table {}", w.blocks[i].section, w.blocks[i].stream, w.dec.verif_digest());
            w.viol("section-never-decodable", msg);
        }
    }
    if w.dec_delivered < w.dec_stream.len() {
        w.step(Ev::DeliverDec);
    }
    w.violations
}

pub fn run(args: &Args) -> i32 {
    let thorough = args.tier == Tier::Thorough;
    let depth = if thorough { 7 } else { 5 };
    let mut rep = Report::new("C20", args.tier, args.seed, "model_checking");
    rep.exhaustive = true;
    rep.rule = format!(
        "explicit-state BFS (history replay on fresh real Encoder/Decoder objects, states deduplicated by the complete canonical digest of both dynamic tables + undelivered encoder/decoder stream bytes + unsettled sections) to depth {depth} from 3 start states (empty; three sections exchanged and acknowledged; two sections decoded but unacknowledged) for every configuration capacity in {{0, 31, 40, 100, 4096}} (thorough: + 64, 200) x blocked-streams limit in {{0, 1, 100}} (thorough: + 2); capacities 50, 63, 120, 250 (residues >= 16 modulo 32) with the long workload (thorough: and one BFS from the empty start). Events: encode one of 6 sections over names {{x, y, accept}} x values {{1, 2}} (duplicates, dynamic and static name references; eviction at small capacities) on a fresh stream; deliver the next encoder instruction / all / all but the last byte of the next instruction; decode any pending section; deliver the decoder stream; cancel any pending section. Every state is built twice (two hash-map seeds) and must agree. Plus: a 40-section round-robin workload per configuration under DFS with <= 2 delivery deviations (encoder stream late, decoding late, acknowledgement late) and a final flush. Invariants in every state: decode returns the original list iff the reference says its instructions have arrived, MissingRefs otherwise; table size <= capacity on both sides; decoder table = reference table; no entry referenced by an unsettled section evicted; neither side errors on the other's bytes. non-trivial = states with >= 2 sections."
    );
    rep.assumptions = vec![
        "refimpl::qpack dynamic-table decoder (self-tested on RFC 9204 Appendix B) is the oracle; both tables are created with the configured capacity (no Set Dynamic Table Capacity instruction), as the repository's own tests do".into(),
        "the stateful codec is not wired into connections at the pinned commit; it is driven through the verif-hooks re-exports".into(),
    ];
    rep.bound_note = format!("BFS depth {depth} per (configuration, start state), wall cap {} s for the whole run (capped jobs are counted and the run is then not reported as exhaustive); long workload 40 sections with <= 2 deviations", if thorough { 1200 } else { 120 });
    let mut cfgs = Vec::new();
    let (caps, blks): (&[usize], &[usize]) = if thorough { (&[0, 31, 40, 64, 100, 200, 4096], &[0, 1, 2, 100]) } else { (&[0, 31, 40, 100, 4096], &[0, 1, 100]) };
    for &capacity in caps {
        for &blocked in blks {
            cfgs.push(Config { capacity, blocked });
        }
    }
    #[derive(Clone)]
    enum Job {
        Bfs(Config, usize),
        Long(Config),
    }
    let mut jobs = Vec::new();
    for c in &cfgs {
        for w in 0..warmups().len() {
            jobs.push(Job::Bfs(*c, w));
        }
        jobs.push(Job::Long(*c));
    }
    // capacities that are not a multiple of 32 in every residue class that matters for the Required Insert Count
    // modulus 2 * floor(capacity / 32) (residues >= 16 are where a "simplified" modulus differs), long workload only,
    // and one BFS from the empty start
    for &capacity in &[50usize, 63, 120, 250] {
        for &blocked in &[0usize, 100] {
            jobs.push(Job::Long(Config { capacity, blocked }));
        }
        if thorough {
            jobs.push(Job::Bfs(Config { capacity, blocked: 100 }, 0));
        }
    }
    let cap_states = if thorough { 3_000_000 } else { 150_000 };
    let deadline = std::time::Instant::now() + std::time::Duration::from_secs(if thorough { 1200 } else { 120 });
    let accs = explore::par::run(&jobs, Acc::new, |_, job, acc| match job {
        Job::Bfs(cfg, wi) => {
            let (name, warm) = warmups()[*wi].clone();
            bfs(*cfg, name, &warm, depth, cap_states, deadline, acc);
        }
        Job::Long(cfg) => {
            let caps = Caps { max_executions: 200_000, ..Caps::default() };
            let mut viol = ViolSet::new();
            let st = dfs::explore(
                2,
                &caps,
                || long_workload(*cfg, 40),
                |e, v| {
                    for (sig, msg) in v {
                        viol.add(sig, format!("capacity {} blocked-streams limit {}: 40-section workload: {msg}", cfg.capacity, cfg.blocked), (e.cost, e.choices.len()), &e.choices);
                    }
                },
            );
            acc.dfs.merge(&st);
            acc.evaluations += st.executions;
            viol.drain_into(acc, |choices| json!({"kind":"long","capacity":cfg.capacity,"blocked":cfg.blocked,"choices":choices}));
        }
    });
    let mut total = Acc::new();
    for a in accs {
        total.merge(a);
    }
    total.count("configurations", cfgs.len() as u64);
    total.samples.push(json!({"capacity":40,"blocked_limit":1,"history":["Enc(0)","Enc(1)","DeliverEncOne","Decode(1)"]}));
    total.samples.push(json!({"capacity":100,"blocked_limit":2,"start":"three-unacknowledged","history":["Enc(5)","DeliverEncPartial","Decode(0)","DeliverDec","Enc(4)"]}));
    total.samples.push(json!({"long_workload":{"capacity":64,"blocked_limit":100,"deviations":["acknowledgement-late@7","encoder-stream-late@19"]}}));
    rep.finish(total)
}

pub fn replay(r: &Value) -> i32 {
    let cfg = Config { capacity: r["capacity"].as_u64().unwrap() as usize, blocked: r["blocked"].as_u64().unwrap() as usize };
    let v = match r["kind"].as_str() {
        Some("history") => {
            let evs: Vec<Ev> = r["events"].as_array().unwrap().iter().map(ev_from).collect();
            println!("configuration {cfg:?}; history {evs:?}");
            let mut w = World::new(cfg);
            for e in &evs {
                w.step(*e);
                println!("  after {e:?}: encoder stream {} | decoder stream {} | pending {:?}", hex(&w.enc_stream), hex(&w.dec_stream), w.pending());
                if !w.violations.is_empty() {
                    break;
                }
            }
            println!("encoder table: {}", w.enc.verif_digest());
            println!("decoder table: {}", w.dec.verif_digest());
            w.violations
        }
        Some("long") => {
            let choices: Vec<u32> = r["choices"].as_array().unwrap().iter().map(|v| v.as_u64().unwrap() as u32).collect();
            let (v, _, d) = dfs::replay(&choices, || long_workload(cfg, 40));
            if let Some(d) = d {
                println!("REPLAY DIVERGED: {d}");
                return 2;
            }
            v
        }
        _ => return 2,
    };
    for (sig, msg) in &v {
        println!("observed: {sig}: {msg}");
    }
    if v.is_empty() {
        println!("observed: no violation");
        0
    } else {
        1
    }
}
