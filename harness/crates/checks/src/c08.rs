//! C08 — GOAWAY identifiers never grow and draw the accept/reject line exactly.
//!
//! Server: every history of length <= H over {arrive(id) for id in {0,4,8,12} in any order,
//! accept, shutdown(n) for n in {0,1,2,usize::MAX}, serve} is run against a real server
//! connection over simnet (explicit enumeration of histories, no deduplication), followed by a
//! drain phase. The GOAWAY frames are read off the server's control-stream wire log by refimpl.
//! Client: every sequence of <= 3 received GOAWAY identifiers over 8 values, interleaved with
//! send_request attempts, with the optional grease stream granted or starved.

use crate::scen::*;
use crate::Args;
use bytes::Bytes;
use explore::report::{Acc, Report, Tier};
use explore::Fnv;
use refimpl::frames as rf;
use refimpl::h3auto as auto;
use serde_json::{json, Value};
use simnet::exec::yield_now;
use simnet::{Exec, Net, NetCfg, SimConn, CLIENT, SERVER};
use std::task::Poll;

#[derive(Clone, Copy, Debug, PartialEq, Eq)]
pub enum Ev {
    Arrive(u64),
    Accept,
    Shutdown(usize),
    /// serve the oldest accepted request to completion
    Serve,
}

#[derive(Debug, Clone, PartialEq, Eq)]
pub enum AcceptResult {
    Stream(u64),
    Pending,
    None,
    Err(String),
}

#[derive(Debug, Clone, Default, PartialEq, Eq)]
pub struct Step {
    pub ev: String,
    pub accept: Option<AcceptResult>,
    /// GOAWAY ids that appeared on the wire during this step
    pub goaways: Vec<u64>,
    /// streams that were reset / stop-sent by the server during this step: (id, reset codes, stop codes)
    pub rejected: Vec<(u64, Vec<u64>, Vec<u64>)>,
    pub served: Option<(u64, String)>,
    pub shutdown: Option<String>,
}

#[derive(Debug, Clone, Default, PartialEq, Eq)]
pub struct Outcome {
    pub steps: Vec<Step>,
    pub close_calls: Vec<u64>,
    pub panics: Vec<(String, String)>,
    pub horizon: bool,
    pub control_wire_ok: bool,
}

fn goaways_on_wire(wire: &[u8]) -> Option<Vec<u64>> {
    if wire.is_empty() {
        return Some(vec![]);
    }
    let (frames, _tail) = rf::segment(&wire[1..]);
    let mut out = Vec::new();
    for f in frames {
        if f.ty == rf::GOAWAY {
            out.push(rf::single_varint(&f.payload)?);
        }
    }
    Some(out)
}

pub fn server_run(history: &[Ev], drain: usize) -> Outcome {
    fastrand::seed(1);
    let net = Net::new(NetCfg::default());
    let mut ex = Exec::new();
    let out = shared(Outcome::default());
    {
        let (net, out, history) = (net.clone(), out.clone(), history.to_vec());
        ex.spawn("app", async move {
            net.raw_open(CLIENT_CTRL);
            net.raw_write(CLIENT, CLIENT_CTRL, &control_preamble(&[]));
            let mut b = h3::server::builder();
            b.send_grease(false);
            let mut conn: SrvConn = match b.build(SimConn::new(&net, SERVER)).await {
                Ok(c) => c,
                Err(_) => return,
            };
            let mut held: std::collections::VecDeque<(u64, h3::server::RequestResolver<SimConn, Bytes>)> = Default::default();
            let mut seen_goaways = 0usize;
            let mut seen_rejected: std::collections::BTreeSet<u64> = Default::default();
            let mut events: Vec<Ev> = history.clone();
            events.extend(std::iter::repeat(Ev::Accept).take(drain));
            let hl = history.len();
            for (i, ev) in events.into_iter().enumerate() {
                let mut step = Step { ev: if i < hl { format!("{ev:?}") } else { "drain-accept".into() }, ..Default::default() };
                match ev {
                    Ev::Arrive(id) => {
                        net.raw_open(id);
                        net.raw_write(CLIENT, id, &rf::frame(rf::HEADERS, REQ_SECTION));
                        net.raw_fin(CLIENT, id);
                    }
                    Ev::Accept => {
                        // one poll of the REAL accept() (its None branch sends the final GOAWAY itself)
                        let r = {
                            let mut f = Box::pin(conn.accept());
                            std::future::poll_fn(|cx| Poll::Ready(std::future::Future::poll(f.as_mut(), cx))).await
                        };
                        step.accept = Some(match r {
                            Poll::Pending => AcceptResult::Pending,
                            Poll::Ready(Ok(Some(resolver))) => {
                                let id = resolver.frame_stream.id().into_inner();
                                held.push_back((id, resolver));
                                AcceptResult::Stream(id)
                            }
                            Poll::Ready(Ok(None)) => AcceptResult::None,
                            Poll::Ready(Err(e)) => AcceptResult::Err(conn_class(&e)),
                        });
                    }
                    Ev::Shutdown(n) => {
                        step.shutdown = Some(match conn.shutdown(n).await {
                            Ok(()) => "ok".into(),
                            Err(e) => conn_class(&e),
                        });
                    }
                    Ev::Serve => {
                        if let Some((id, resolver)) = held.pop_front() {
                            let r = async {
                                let (_req, mut s) = resolver.resolve_request().await?;
                                s.send_response(http::Response::builder().status(200).body(()).unwrap()).await?;
                                s.finish().await
                            }
                            .await;
                            step.served = Some((
                                id,
                                match r {
                                    Ok(()) => "ok".into(),
                                    Err(e) => stream_class(&e),
                                },
                            ));
                        }
                    }
                }
                // what changed on the wire during this step
                match goaways_on_wire(&net.wire(SERVER, SERVER_CTRL)) {
                    Some(g) => {
                        step.goaways = g[seen_goaways.min(g.len())..].to_vec();
                        seen_goaways = g.len();
                        out.borrow_mut().control_wire_ok = true;
                    }
                    None => out.borrow_mut().control_wire_ok = false,
                }
                for id in [0u64, 4, 8, 12] {
                    if seen_rejected.contains(&id) {
                        continue;
                    }
                    let (r, s) = (net.reset_calls(SERVER, id), net.stop_calls(SERVER, id));
                    if !r.is_empty() || !s.is_empty() {
                        seen_rejected.insert(id);
                        step.rejected.push((id, r, s));
                    }
                }
                out.borrow_mut().steps.push(step);
            }
            std::future::pending::<()>().await;
            drop((conn, held));
        });
    }
    let q = ex.run(20_000, |_| {});
    let mut o = out.borrow().clone();
    o.close_calls = net.close_calls(SERVER).iter().map(|c| c.0).collect();
    o.panics = q.panics;
    o.horizon = q.horizon_hit;
    o
}

pub fn judge_server(history: &[Ev], o: &Outcome) -> Vec<(String, String)> {
    let ctx = format!("server history {history:?}");
    let mut out = Vec::new();
    for (t, p) in &o.panics {
        out.push((format!("C08:server:panic@{}", explore::panics::short_loc(p)), format!("{ctx}: task {t} panicked: {p}")));
    }
    if o.horizon {
        out.push(("C08:server:livelock".into(), ctx.clone()));
        return out;
    }
    if !o.close_calls.is_empty() {
        out.push((format!("C08:server:connection-closed:{:#x}", o.close_calls[0]), format!("{ctx}: close calls {:x?}", o.close_calls)));
    }
    let trace = || o.steps.iter().map(|s| format!("{}{}{}{}", s.ev, s.accept.as_ref().map(|a| format!("->{a:?}")).unwrap_or_default(), if s.goaways.is_empty() { String::new() } else { format!(" GOAWAY{:?}", s.goaways) }, if s.rejected.is_empty() { String::new() } else { format!(" rejected{:?}", s.rejected.iter().map(|r| r.0).collect::<Vec<_>>()) })).collect::<Vec<_>>().join("; ");
    let all_goaways: Vec<u64> = o.steps.iter().flat_map(|s| s.goaways.iter().copied()).collect();
    // I1 non-increasing
    for w in all_goaways.windows(2) {
        if w[1] > w[0] {
            out.push(("C08:server:goaway-identifier-increased".into(), format!("{ctx}: GOAWAY identifiers on the wire {all_goaways:?} [{}]", trace())));
            break;
        }
    }
    for g in &all_goaways {
        if g % 4 != 0 {
            out.push(("C08:server:goaway-identifier-not-a-request-stream".into(), format!("{ctx}: GOAWAY({g})")));
        }
    }
    let final_g = all_goaways.last().copied();
    let accepted: Vec<u64> = o.steps.iter().filter_map(|s| match &s.accept {
        Some(AcceptResult::Stream(id)) => Some(*id),
        _ => None,
    }).collect();
    // I2 accepted => below every identifier ever sent
    if let Some(g) = final_g {
        for s in &accepted {
            if *s >= g {
                out.push((
                    format!("C08:server:request-served-although-declared-rejected:{}", if *s == g { "id-equals-identifier" } else { "id-above-identifier" }),
                    format!("{ctx}: stream {s} was handed to the application, yet the last GOAWAY identifier is {g} (ids >= it are declared rejected) [{}]", trace()),
                ));
                break;
            }
        }
    }
    // I3 rejected => reset AND stop_sending with H3_REQUEST_REJECTED, never returned, id >= identifier in force
    let mut g_in_force: Option<u64> = None;
    for step in &o.steps {
        if let Some(g) = step.goaways.iter().min() {
            g_in_force = Some(g_in_force.map(|x| x.min(*g)).unwrap_or(*g));
        }
        for (id, resets, stops) in &step.rejected {
            let served_ok = o.steps.iter().any(|s| s.served.as_ref().map(|(i, r)| i == id && r == "ok").unwrap_or(false));
            if served_ok {
                continue; // the reset/stop belongs to a served stream's normal teardown (not expected, but not a rejection)
            }
            if accepted.contains(id) {
                out.push(("C08:server:rejected-stream-also-returned".into(), format!("{ctx}: stream {id} was both returned and rejected [{}]", trace())));
            }
            let rej = auto::H3_REQUEST_REJECTED;
            if resets.first() != Some(&rej) || stops.first() != Some(&rej) {
                out.push((
                    "C08:server:rejection-without-both-reset-and-stop-sending".into(),
                    format!("{ctx}: stream {id}: reset codes {resets:x?}, stop_sending codes {stops:x?}, expected both with H3_REQUEST_REJECTED [{}]", trace()),
                ));
            }
            match g_in_force {
                None => out.push(("C08:server:rejection-before-any-goaway".into(), format!("{ctx}: stream {id} rejected although no GOAWAY had been sent [{}]", trace()))),
                Some(g) if *id < g => out.push((
                    "C08:server:request-below-identifier-rejected".into(),
                    format!("{ctx}: stream {id} rejected while the identifier in force was {g} [{}]", trace()),
                )),
                _ => {}
            }
        }
    }
    // I4 everything that arrived surfaces: after the drain, every arrived stream is either returned or rejected
    let arrived: Vec<u64> = history.iter().filter_map(|e| if let Ev::Arrive(id) = e { Some(*id) } else { None }).collect();
    let rejected: Vec<u64> = o.steps.iter().flat_map(|s| s.rejected.iter().map(|r| r.0)).collect();
    for id in &arrived {
        if !accepted.contains(id) && !rejected.contains(id) {
            let below = final_g.map(|g| *id < g).unwrap_or(true);
            let got_none = o.steps.iter().any(|s| s.accept == Some(AcceptResult::None));
            out.push((
                format!("C08:server:request-neither-served-nor-rejected:{}", if below { "below-identifier" } else { "at-or-above-identifier" }),
                format!("{ctx}: stream {id} arrived but was never returned nor rejected (accept answered None: {got_none}) [{}]", trace()),
            ));
        }
    }
    // a "no more requests" answer while an acceptable request is waiting
    for (i, step) in o.steps.iter().enumerate() {
        if step.accept == Some(AcceptResult::None) {
            // only requests that had ARRIVED when None was answered count: one that arrives later (below the
            // identifier, out of stream-ID order) must still be served, which is what a later Stream(id) is
            let arrived_by_then: Vec<u64> = history.iter().take(i + 1).filter_map(|e| if let Ev::Arrive(id) = e { Some(*id) } else { None }).collect();
            let later: Vec<u64> = o.steps[i + 1..].iter().filter_map(|s| if let Some(AcceptResult::Stream(id)) = s.accept { Some(id) } else { None }).filter(|id| arrived_by_then.contains(id)).collect();
            if !later.is_empty() {
                out.push((
                    "C08:server:no-more-requests-answered-while-acceptable-request-pending".into(),
                    format!("{ctx}: accept answered None, yet streams {later:?} were returned afterwards [{}]", trace()),
                ));
                break;
            }
        }
    }
    // served requests complete
    for step in &o.steps {
        if let Some((id, r)) = &step.served {
            if r != "ok" {
                out.push((format!("C08:server:accepted-request-cannot-be-served:{r}"), format!("{ctx}: stream {id}: {r} [{}]", trace())));
            }
        }
    }
    out
}

fn histories(len: usize) -> Vec<Vec<Ev>> {
    let mut alphabet: Vec<Ev> = vec![Ev::Accept, Ev::Serve];
    for id in [0u64, 4, 8, 12] {
        alphabet.push(Ev::Arrive(id));
    }
    for n in [0usize, 1, 2, usize::MAX] {
        alphabet.push(Ev::Shutdown(n));
    }
    let mut out: Vec<Vec<Ev>> = vec![vec![]];
    let mut frontier: Vec<Vec<Ev>> = vec![vec![]];
    for _ in 0..len {
        let mut next = Vec::new();
        for h in &frontier {
            for &e in &alphabet {
                if let Ev::Arrive(_) = e {
                    if h.contains(&e) {
                        continue;
                    }
                }
                // a Serve with nothing accepted, or an Accept with nothing arrived and no shutdown, adds nothing
                if e == Ev::Serve && h.iter().filter(|x| **x == Ev::Accept).count() <= h.iter().filter(|x| **x == Ev::Serve).count() {
                    continue;
                }
                let mut g = h.clone();
                g.push(e);
                next.push(g);
            }
        }
        out.extend(next.iter().cloned());
        frontier = next;
    }
    out
}

// ------------------------------------------------------------------------------------------------
// client

#[derive(Clone, Copy, Debug, PartialEq, Eq)]
pub enum CEv {
    Recv(u64),
    Send,
    /// the client application starts its own graceful shutdown (client::Connection::shutdown(0))
    Shutdown,
}

#[derive(Debug, Clone, Default, PartialEq, Eq)]
pub struct COutcome {
    /// per event: for Send the result and whether a stream was opened; for Recv nothing
    pub sends: Vec<(usize, String, bool)>,
    pub driver: Vec<String>,
    pub close_calls: Vec<u64>,
    pub panics: Vec<(String, String)>,
}

pub fn client_run(history: &[CEv], starve_grease: bool) -> COutcome {
    fastrand::seed(1);
    let mut cfg = NetCfg::default();
    if starve_grease {
        cfg.uni_credit[CLIENT] = Some(3);
    }
    let net = Net::new(cfg);
    let mut ex = Exec::new();
    let out = shared(COutcome::default());
    {
        let (net, out, history, sp) = (net.clone(), out.clone(), history.to_vec(), ex.spawner());
        ex.spawn("app", async move {
            let mut b = h3::client::builder();
            b.send_grease(true);
            let (mut conn, mut sr): (CliConn, CliSend) = match b.build(SimConn::new(&net, CLIENT)).await {
                Ok(x) => x,
                Err(_) => return,
            };
            let out2 = out.clone();
            // the connection object lives in the driver task: a shutdown request reaches it through a flag
            let want_shutdown = shared(false);
            let driver_waker: Shared<Option<std::task::Waker>> = shared(None);
            let (want2, dw2) = (want_shutdown.clone(), driver_waker.clone());
            sp.spawn("driver", async move {
                let mut reported = 0;
                while reported < 2 {
                    let e = std::future::poll_fn(|cx| {
                        if *want2.borrow() {
                            return Poll::Ready(None);
                        }
                        *dw2.borrow_mut() = Some(cx.waker().clone());
                        conn.poll_close(cx).map(Some)
                    })
                    .await;
                    match e {
                        Some(e) => {
                            out2.borrow_mut().driver.push(conn_class(&e));
                            reported += 1;
                        }
                        None => {
                            *want2.borrow_mut() = false;
                            if let Err(e) = conn.shutdown(0).await {
                                out2.borrow_mut().driver.push(format!("shutdown:{}", conn_class(&e)));
                            }
                        }
                    }
                }
                std::future::pending::<()>().await;
                drop(conn);
            });
            net.raw_open(SERVER_CTRL);
            net.raw_write(SERVER, SERVER_CTRL, &control_preamble(&[]));
            for _ in 0..4 {
                yield_now().await;
            }
            let mut kept = Vec::new();
            for (i, ev) in history.iter().enumerate() {
                match ev {
                    CEv::Recv(id) => {
                        net.raw_write(SERVER, SERVER_CTRL, &rf::encode(rf::GOAWAY, None, refimpl::varint::encode(*id).unwrap().len() as u64, None, &refimpl::varint::encode(*id).unwrap()));
                        // let the driver consume it
                        for _ in 0..4 {
                            yield_now().await;
                        }
                    }
                    CEv::Shutdown => {
                        *want_shutdown.borrow_mut() = true;
                        if let Some(w) = driver_waker.borrow_mut().take() {
                            w.wake();
                        }
                        for _ in 0..4 {
                            yield_now().await;
                        }
                    }
                    CEv::Send => {
                        let before = net.lock().sides[CLIENT].opened_bidi;
                        let r = sr.send_request(http::Request::get("https://a/").body(()).unwrap()).await;
                        let after = net.lock().sides[CLIENT].opened_bidi;
                        out.borrow_mut().sends.push((
                            i,
                            match &r {
                                Ok(_) => "ok".into(),
                                Err(e) => stream_class(e),
                            },
                            after > before,
                        ));
                        if let Ok(s) = r {
                            kept.push(s);
                        }
                    }
                }
            }
            std::future::pending::<()>().await;
            drop((sr, kept));
        });
    }
    let q = ex.run(20_000, |_| {});
    let mut o = out.borrow().clone();
    o.close_calls = net.close_calls(CLIENT).iter().map(|c| c.0).collect();
    o.panics = q.panics;
    o
}

pub fn judge_client(history: &[CEv], starve: bool, o: &COutcome) -> Vec<(String, String)> {
    let ctx = format!("client history {history:?} (grease stream {})", if starve { "never granted" } else { "granted" });
    let mut out = Vec::new();
    for (t, p) in &o.panics {
        out.push((format!("C08:client:panic@{}", explore::panics::short_loc(p)), format!("{ctx}: task {t} panicked: {p}")));
    }
    // reference: walk the history
    let mut last: Option<u64> = None;
    let mut id_error_at: Option<usize> = None;
    let mut goaway_processed_before: Vec<bool> = Vec::new();
    for (i, ev) in history.iter().enumerate() {
        goaway_processed_before.push(last.is_some());
        if let CEv::Recv(id) = ev {
            if id_error_at.is_some() {
                continue;
            }
            if id % 4 != 0 || last.map(|l| *id > l).unwrap_or(false) {
                id_error_at = Some(i);
                continue;
            }
            last = Some(*id);
        }
    }
    match id_error_at {
        Some(_) => {
            if o.close_calls != [auto::H3_ID_ERROR] {
                out.push((
                    format!("C08:client:invalid-goaway-identifier:close={:x?}", o.close_calls),
                    format!("{ctx}: a larger or non-request identifier must be H3_ID_ERROR; close calls {:x?}, driver {:?}", o.close_calls, o.driver),
                ));
            }
        }
        None => {
            if !o.close_calls.is_empty() {
                out.push((format!("C08:client:valid-goaway-sequence-closed-connection:{:#x}", o.close_calls[0]), format!("{ctx}: close calls {:x?}", o.close_calls)));
            }
        }
    }
    let own_shutdown_at = history.iter().position(|e| *e == CEv::Shutdown);
    for (i, r, opened) in &o.sends {
        if own_shutdown_at.map(|p| p < *i).unwrap_or(false) {
            continue; // what a client may start after its own shutdown is not part of the property
        }
        let after_error = id_error_at.map(|e| e < *i).unwrap_or(false);
        if after_error {
            if r == "ok" {
                out.push(("C08:client:request-started-after-id-error".into(), format!("{ctx}: send_request #{i} succeeded after the connection error")));
            }
            continue;
        }
        if goaway_processed_before[*i] {
            if r != "RemoteClosing" || *opened {
                out.push((
                    format!("C08:client:request-started-after-goaway:{r}"),
                    format!("{ctx}: send_request at position {i} returned {r:?} (stream opened: {opened}); a GOAWAY had been processed before"),
                ));
            }
        } else if r != "ok" {
            out.push((format!("C08:client:request-refused-without-goaway:{r}"), format!("{ctx}: send_request at position {i} returned {r:?}")));
        }
    }
    out
}

fn client_histories() -> Vec<Vec<CEv>> {
    let ids: [u64; 8] = [0, 4, 8, 1, 2, 3, (1 << 62) - 4, (1 << 62) - 1];
    let mut seqs: Vec<Vec<u64>> = vec![vec![]];
    let mut frontier: Vec<Vec<u64>> = vec![vec![]];
    for _ in 0..3 {
        let mut next = Vec::new();
        for s in &frontier {
            for id in ids {
                let mut t = s.clone();
                t.push(id);
                next.push(t);
            }
        }
        seqs.extend(next.iter().cloned());
        frontier = next;
    }
    let mut out = Vec::new();
    for s in seqs {
        // Send attempts at every subset of the gaps (before the first, between, after the last)
        let gaps = s.len() + 1;
        for mask in 0u32..(1 << gaps) {
            let mut h = Vec::new();
            for g in 0..gaps {
                if mask & (1 << g) != 0 {
                    h.push(CEv::Send);
                }
                if g < s.len() {
                    h.push(CEv::Recv(s[g]));
                }
            }
            // the same history with the client's own shutdown() before the first and before the last GOAWAY
            // (a received GOAWAY is validated and obeyed all the same)
            if mask == 0 && !s.is_empty() {
                let recv_positions: Vec<usize> = h.iter().enumerate().filter(|(_, e)| matches!(e, CEv::Recv(_))).map(|(i, _)| i).collect();
                let mut ps = vec![recv_positions[0], *recv_positions.last().unwrap()];
                ps.dedup();
                for p in ps {
                    let mut v = h.clone();
                    v.insert(p, CEv::Shutdown);
                    out.push(v);
                }
            }
            out.push(h);
        }
    }
    out
}

pub fn run(args: &Args) -> i32 {
    let thorough = args.tier == Tier::Thorough;
    let hl = if thorough { 8 } else { 7 };
    let mut rep = Report::new("C08", args.tier, args.seed, "model_checking");
    rep.exhaustive = true;
    rep.rule = format!(
        "server: every history of length <= {hl} over {{arrive(0), arrive(4), arrive(8), arrive(12) (each at most once, any order), accept (poll-level, as accept() does incl. the final shutdown(0)), shutdown(0), shutdown(1), shutdown(2), shutdown(usize::MAX), serve-oldest}}, each followed by a drain of 6 accepts, executed on a real server connection over simnet; histories are enumerated explicitly and not deduplicated. The GOAWAY identifiers are read off the server's control stream by refimpl; resets / stop_sendings are read off the transport. Invariants: identifiers non-increasing and request-stream ids; accepted => id < every identifier sent; rejected => reset AND stop_sending with H3_REQUEST_REJECTED, never returned, id >= identifier in force; everything that arrived is returned or rejected; no 'no more requests' while an acceptable request waits; accepted requests can be served. client: every sequence of <= 3 received GOAWAY identifiers over {{0,4,8,1,2,3,2^62-4,2^62-1}} x send_request attempts at every subset of the gaps, and the client's own shutdown(0) before the first / before the last GOAWAY, x grease stream granted / starved. states = distinct histories; non-trivial = histories with a shutdown and an arrival."
    );
    rep.assumptions = vec!["the server application is one task, so the history order is the execution order (no schedule dimension on the server side)".into(), "RFC 9114 5.2: the identifier in a server GOAWAY declares requests with that id or greater rejected".into()];
    rep.bound_note = format!("server histories up to length {hl}; client GOAWAY sequences up to length 3");
    let hs = histories(hl);
    let chunks: Vec<&[Vec<Ev>]> = hs.chunks(256).collect();
    let mut accs = explore::par::run(&chunks, Acc::new, |_, ch, acc| {
        for h in *ch {
            let o = server_run(h, 6);
            acc.evaluations += 1;
            acc.dfs.executions += 1;
            acc.transitions += o.steps.len() as u64;
            let mut f = Fnv::new();
            f.str(&format!("{h:?}"));
            acc.states.insert(f.finish());
            if h.iter().any(|e| matches!(e, Ev::Shutdown(_))) && h.iter().any(|e| matches!(e, Ev::Arrive(_))) {
                acc.nontrivial.insert(f.finish());
            }
            let mut f = Fnv::new();
            f.str(&format!("{:?}", o.steps.iter().map(|s| (&s.accept, &s.goaways, s.rejected.len())).collect::<Vec<_>>()));
            acc.outcomes.insert(f.finish());
            for (sig, msg) in judge_server(h, &o) {
                acc.violation(sig, msg, (0, h.len()), || json!({"kind":"server","history":h.iter().map(|e| match e { Ev::Arrive(i) => json!(["arrive", i]), Ev::Accept => json!(["accept"]), Ev::Serve => json!(["serve"]), Ev::Shutdown(n) => json!(["shutdown", n.to_string()]) }).collect::<Vec<_>>()}));
            }
        }
    });
    let chs = client_histories();
    let chunks: Vec<&[Vec<CEv>]> = chs.chunks(64).collect();
    accs.extend(explore::par::run(&chunks, Acc::new, |_, ch, acc| {
        for h in *ch {
            for starve in [false, true] {
                let o = client_run(h, starve);
                acc.evaluations += 1;
                acc.dfs.executions += 1;
                acc.transitions += h.len() as u64 + 1;
                let mut f = Fnv::new();
                f.str(&format!("{h:?}{starve}"));
                acc.states.insert(f.finish());
                if h.len() >= 2 {
                    acc.nontrivial.insert(f.finish());
                }
                acc.outcomes.insert(explore::fnv_str(&format!("{:?}{:?}", o.sends.iter().map(|s| &s.1).collect::<Vec<_>>(), o.close_calls)) ^ 0x77);
                for (sig, msg) in judge_client(h, starve, &o) {
                    acc.violation(sig, msg, (0, h.len()), || json!({"kind":"client","starve":starve,"history":h.iter().map(|e| match e { CEv::Recv(i) => json!(["recv", i.to_string()]), CEv::Send => json!(["send"]), CEv::Shutdown => json!(["shutdown"]) }).collect::<Vec<_>>()}));
                }
            }
        }
    }));
    let mut total = Acc::new();
    for a in accs {
        total.merge(a);
    }
    total.count("server_histories", hs.len() as u64);
    total.count("client_histories", chs.len() as u64 * 2);
    total.samples.push(json!(format!("{:?}", hs[hs.len() / 2])));
    total.samples.push(json!(format!("{:?}", hs[hs.len() - 1])));
    total.samples.push(json!(format!("{:?}", chs[chs.len() / 2])));
    rep.finish(total)
}

pub fn replay(r: &Value) -> i32 {
    let v = match r["kind"].as_str() {
        Some("server") => {
            let h: Vec<Ev> = r["history"].as_array().unwrap().iter().map(|e| match e[0].as_str().unwrap() {
                "arrive" => Ev::Arrive(e[1].as_u64().unwrap()),
                "accept" => Ev::Accept,
                "serve" => Ev::Serve,
                _ => Ev::Shutdown(e[1].as_str().unwrap().parse().unwrap()),
            }).collect();
            let o = server_run(&h, 6);
            if o != server_run(&h, 6) {
                println!("REPLAY NOT DETERMINISTIC");
                return 2;
            }
            println!("history: {h:?}");
            for s in &o.steps {
                println!("  {s:?}");
            }
            judge_server(&h, &o)
        }
        Some("client") => {
            let h: Vec<CEv> = r["history"].as_array().unwrap().iter().map(|e| match e[0].as_str().unwrap() {
                "recv" => CEv::Recv(e[1].as_str().unwrap().parse().unwrap()),
                "shutdown" => CEv::Shutdown,
                _ => CEv::Send,
            }).collect();
            let starve = r["starve"].as_bool().unwrap();
            let o = client_run(&h, starve);
            println!("history: {h:?} starve={starve}\noutcome: {o:?}");
            judge_client(&h, starve, &o)
        }
        _ => return 2,
    };
    for (sig, msg) in &v {
        println!("observed: {sig}: {msg}");
    }
    if v.is_empty() {
        println!("observed: no violation");
        0
    } else {
        1
    }
}
