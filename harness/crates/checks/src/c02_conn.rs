//! C02 seam 2 — the close code really sent by a connection for malformed / truncated frames.
use crate::Args;
use explore::report::Acc;
use serde_json::Value;

pub fn run_into(_args: &Args, _acc: &mut Acc) {}

pub fn replay(_r: &Value) -> i32 {
    2
}
