//! C02 seam 2 — the close code really sent by a connection for malformed / truncated frames.
//!
//! The frame strings for which the reference demands H3_FRAME_ERROR are put on the request stream
//! and on the control stream of a real server and a real client connection over simnet (after a
//! valid preamble), delivered whole, one byte per read and under every execution with at most
//! `bound` delivery deviations. Observed: the code passed to the transport's `close()`, the error
//! the driver and the request API report, and that no call is left pending at quiescence.

use crate::scen::*;
use crate::Args;
use explore::dfs::{self, Caps};
use explore::report::{Acc, Tier, ViolSet};
use explore::{hex, Fnv};
use refimpl::frames as rf;
use refimpl::varint;
use serde_json::{json, Value};
use simnet::exec::yield_now;
use simnet::{Exec, Net, NetCfg, Policy, SimConn, CLIENT, SERVER};

const FRAME_ERROR: u64 = 0x106;
const FRAME_UNEXPECTED: u64 = 0x105;
const SETTINGS_ERROR: u64 = 0x109;
const CLOSED_CRITICAL: u64 = 0x104;
const MISSING_SETTINGS: u64 = 0x10a;
const HORIZON: usize = 6000;
/// turns the scripted peer lets pass before the late part of its bytes (every other task runs until it waits)
const LATE_YIELDS: usize = 40;

#[derive(Clone, Copy, Debug, PartialEq, Eq)]
pub enum Where {
    Request,
    Control,
}

#[derive(Clone, Copy, Debug, PartialEq, Eq)]
pub enum Mode {
    Whole,
    PerByte,
    Explore,
    /// the first k faulty bytes arrive with what precedes them; the rest (and the end of the stream) only after the
    /// endpoint has consumed all of that and is waiting
    Late(usize),
}

#[derive(Clone, Debug)]
pub struct Case {
    pub server: bool,
    pub place: Where,
    /// the faulty bytes, written after the valid preamble of the stream
    pub bytes: Vec<u8>,
    pub fin: bool,
    /// request stream only: a valid message head precedes the faulty bytes (else they come first)
    pub with_head: bool,
    /// request stream only: a whole message (head, DATA, trailers) precedes the faulty bytes, which the endpoint
    /// meets when it looks behind the trailers
    pub after_trailers: bool,
    pub mode: Mode,
    /// close codes the reference accepts (first = the one the property names)
    pub accept: Vec<u64>,
    pub why: &'static str,
}

#[derive(Debug, Clone, Default, PartialEq, Eq)]
pub struct Outcome {
    pub close_codes: Vec<u64>,
    pub driver: Vec<String>,
    pub build: String,
    pub msg: Option<MsgObs>,
    pub panics: Vec<String>,
    pub pending: Vec<String>,
    pub horizon: bool,
}

pub fn execute(case: &Case, seed: u64) -> Outcome {
    fastrand::seed(seed);
    let mut cfg = NetCfg::default();
    let target: u64 = match (case.place, case.server) {
        (Where::Request, _) => 0,
        (Where::Control, true) => CLIENT_CTRL,
        (Where::Control, false) => SERVER_CTRL,
    };
    match case.mode {
        Mode::PerByte => cfg.read = Policy::PerByte,
        Mode::Explore => {
            cfg.read = Policy::Choose;
            cfg.allow_delay = true;
            cfg.focus = Some(vec![target]);
        }
        Mode::Whole | Mode::Late(_) => {}
    }
    let net = Net::new(cfg);
    let mut ex = Exec::new();
    let drv = shared(DriverObs::default());
    let handlers: Shared<Vec<Shared<MsgObs>>> = shared(Vec::new());
    let client_msg = shared(MsgObs::default());
    let (me, peer) = if case.server { (SERVER, CLIENT) } else { (CLIENT, SERVER) };
    if case.server {
        let mut b = h3::server::builder();
        b.send_grease(false);
        ex.spawn("main", server_main(net.clone(), b, ex.spawner(), drv.clone(), handlers.clone(), false, 1));
    } else {
        let (net2, drv2, msg2, sp) = (net.clone(), drv.clone(), client_msg.clone(), ex.spawner());
        ex.spawn("main", async move {
            let mut b = h3::client::builder();
            b.send_grease(false);
            let (mut conn, mut sr): (CliConn, CliSend) = match b.build(SimConn::new(&net2, CLIENT)).await {
                Ok(x) => x,
                Err(e) => {
                    drv2.borrow_mut().build = conn_class(&e);
                    return;
                }
            };
            drv2.borrow_mut().build = "ok".into();
            let drv3 = drv2.clone();
            sp.spawn("driver", async move {
                for _ in 0..2 {
                    drv3.borrow_mut().in_call = true;
                    let e = std::future::poll_fn(|cx| conn.poll_close(cx)).await;
                    drv3.borrow_mut().in_call = false;
                    drv3.borrow_mut().results.push(conn_class(&e));
                }
                std::future::pending::<()>().await;
                drop(conn);
            });
            let req = http::Request::get("https://a/").body(()).unwrap();
            match sr.send_request(req).await {
                Ok(mut s) => {
                    if let Err(e) = s.finish().await {
                        msg2.borrow_mut().sent = stream_class(&e);
                    }
                    client_reader(s, msg2.clone()).await;
                }
                Err(e) => msg2.borrow_mut().head = format!("send_request:{}", stream_class(&e)),
            }
            std::future::pending::<()>().await;
            drop(sr);
        });
    }
    {
        let net = net.clone();
        let case = case.clone();
        ex.spawn("script", async move {
            let ctrl = if peer == CLIENT { CLIENT_CTRL } else { SERVER_CTRL };
            net.raw_open(ctrl);
            net.raw_write(peer, ctrl, &control_preamble(&[]));
            yield_now().await;
            match case.place {
                Where::Control => {
                    let early = if let Mode::Late(k) = case.mode { k.min(case.bytes.len()) } else { case.bytes.len() };
                    net.raw_write(peer, ctrl, &case.bytes[..early]);
                    if let Mode::Late(_) = case.mode {
                        for _ in 0..LATE_YIELDS {
                            yield_now().await;
                        }
                        net.raw_write(peer, ctrl, &case.bytes[early..]);
                    }
                    if case.fin {
                        net.raw_fin(peer, ctrl);
                    }
                }
                Where::Request => {
                    if peer == CLIENT {
                        net.raw_open(0);
                    } else {
                        let mut spins = 0;
                        while !net.lock().streams.contains_key(&0) {
                            spins += 1;
                            if spins > 200 {
                                return;
                            }
                            yield_now().await;
                        }
                    }
                    // a valid message head first, so that the faulty frame is met in the body phase
                    let head = if case.with_head { headers_frame(if peer == CLIENT { REQ_SECTION } else { RESP_SECTION }) } else { Vec::new() };
                    let mut all = head.clone();
                    if case.after_trailers {
                        all.extend(rf::frame(rf::DATA, b"fada"));
                        all.extend(headers_frame(TRAILER_SECTION));
                    }
                    if let Mode::Late(k) = case.mode {
                        let early = k.min(case.bytes.len());
                        all.extend_from_slice(&case.bytes[..early]);
                        net.raw_write(peer, 0, &all);
                        for _ in 0..LATE_YIELDS {
                            yield_now().await;
                        }
                        net.raw_write(peer, 0, &case.bytes[early..]);
                    } else {
                        all.extend_from_slice(&case.bytes);
                        net.raw_write(peer, 0, &all);
                        net.raw_mark(peer, 0, case.bytes.len());
                    }
                    if case.fin {
                        net.raw_fin(peer, 0);
                    }
                }
            }
        });
    }
    let q = ex.run(HORIZON, |_| {});
    let msg = if case.server { handlers.borrow().first().map(|m| m.borrow().clone()) } else { Some(client_msg.borrow().clone()) };
    let d = drv.borrow().clone();
    let mut pending = q.pending.clone();
    pending.retain(|p| p != "script");
    Outcome { close_codes: net.close_calls(me).iter().map(|c| c.0).collect(), driver: d.results, build: d.build, msg, panics: q.panics.iter().map(|(t, p)| format!("{t}: {p}")).collect(), pending, horizon: q.horizon_hit }
}

pub fn judge(case: &Case, o: &Outcome) -> Vec<(String, String)> {
    judge_p("C02:s2", case, o)
}

/// The same oracle under another signature prefix (C11 uses this seam for undecodable field sections).
pub fn judge_p(pfx: &str, case: &Case, o: &Outcome) -> Vec<(String, String)> {
    let role = if case.server { "server" } else { "client" };
    let place = if case.place == Where::Request { "request" } else { "control" };
    let ctx = format!("{role} {place} stream{}, bytes {} {} [{}], {:?}", if case.place == Where::Request && !case.with_head { " (first frame)" } else if case.after_trailers { " (behind the trailers)" } else { "" }, hex(&case.bytes), if case.fin { "+FIN" } else { "(open)" }, case.why, case.mode);
    let mut out = Vec::new();
    for p in &o.panics {
        out.push((format!("{pfx}:{role}:{place}:panic@{}", explore::panics::short_loc(p)), format!("{ctx}: {p}")));
    }
    if o.horizon {
        out.push((format!("{pfx}:{role}:{place}:livelock"), format!("{ctx}: still runnable after {HORIZON} polls")));
        return out;
    }
    if !o.panics.is_empty() {
        return out;
    }
    let name = |c: u64| code_name(c);
    match o.close_codes.as_slice() {
        [] => out.push((
            format!("{pfx}:{role}:{place}:{}{}:not-reported", case.why, if case.after_trailers { ":behind-trailers" } else if case.with_head { "" } else { ":first-frame" }),
            format!("{ctx}: the connection was never closed (expected {}); driver {:?}, request {:?}", name(case.accept[0]), o.driver, o.msg.as_ref().map(|m| (m.head.clone(), m.body_end.clone(), m.trailers.clone(), m.stage.clone()))),
        )),
        [c] if case.accept.contains(c) => {}
        [c] => out.push((format!("{pfx}:{role}:{place}:{}{}:code={}", case.why, if case.after_trailers { ":behind-trailers" } else if case.with_head { "" } else { ":first-frame" }, name(*c)), format!("{ctx}: closed with {} ({c:#x}), expected {}", name(*c), case.accept.iter().map(|c| name(*c)).collect::<Vec<_>>().join(" or ")))),
        many => {
            if !many.iter().all(|c| *c == many[0]) || !case.accept.contains(&many[0]) {
                out.push((format!("{pfx}:{role}:{place}:{}:close-codes-differ", case.why), format!("{ctx}: close() called with {many:x?}")));
            }
        }
    }
    // the driver reports the same error
    if let (Some(c), Some(d)) = (o.close_codes.first(), o.driver.iter().find(|d| *d != "req")) {
        let want = format!("Local({c:#x})");
        if *d != want {
            out.push((format!("{pfx}:{role}:{place}:driver-reports-other-error"), format!("{ctx}: close({c:#x}) on the wire but the driver reported {d}")));
        }
    }
    out
}

/// The faulty strings: (bytes, fin, accepted codes, why) per place and role.
pub fn cases(tier: Tier) -> Vec<Case> {
    let thorough = tier == Tier::Thorough;
    let v = |x: u64| varint::encode(x).unwrap();
    let padded = |x: u64, len: usize| varint::encode_len(x, len).unwrap();
    let frame = |ty: u64, declared: u64, payload: &[u8]| {
        let mut b = v(ty);
        b.extend(v(declared));
        b.extend_from_slice(payload);
        b
    };
    let mut out = Vec::new();
    let modes: &[Mode] = &[Mode::Whole, Mode::PerByte, Mode::Explore];
    let mut push = |server: bool, place: Where, bytes: Vec<u8>, fin: bool, accept: Vec<u64>, why: &'static str| {
        let mut modes: Vec<Mode> = modes.to_vec();
        modes.extend((0..=bytes.len()).map(Mode::Late));
        for &mode in &modes {
            out.push(Case { server, place, bytes: bytes.clone(), fin, with_head: true, after_trailers: false, mode, accept: accept.clone(), why });
            // ... and behind a complete message with trailers (frames of a known type are then also out of place)
            if place == Where::Request && why.ends_with("cut-by-fin") && !why.starts_with("second") && !why.starts_with("padded") {
                let mut accept = accept.clone();
                if why.starts_with("data") || why.starts_with("headers") {
                    accept.push(FRAME_UNEXPECTED);
                }
                out.push(Case { server, place, bytes: bytes.clone(), fin, with_head: true, after_trailers: true, mode, accept, why });
            }
            // the same faulty bytes as the very first thing on the request stream
            if place == Where::Request && why.ends_with("cut-by-fin") && !why.starts_with("data") && !why.starts_with("second") && !why.starts_with("padded") {
                out.push(Case { server, place, bytes: bytes.clone(), fin, with_head: false, after_trailers: false, mode, accept: accept.clone(), why });
            }
        }
    };
    for server in [true, false] {
        // ---- request stream: frames cut off by the end of the stream
        let fe = vec![FRAME_ERROR];
        push(server, Where::Request, frame(rf::DATA, 4, b"ab"), true, fe.clone(), "data-cut-by-fin");
        push(server, Where::Request, frame(rf::DATA, 1, b""), true, fe.clone(), "data-cut-by-fin");
        push(server, Where::Request, vec![0x00], true, fe.clone(), "header-cut-by-fin");
        push(server, Where::Request, vec![0x40], true, fe.clone(), "type-varint-cut-by-fin");
        push(server, Where::Request, vec![0x00, 0x40], true, fe.clone(), "length-varint-cut-by-fin");
        push(server, Where::Request, frame(rf::HEADERS, 6, &TRAILER_SECTION[..3]), true, fe.clone(), "headers-cut-by-fin");
        push(server, Where::Request, frame(0x21, 3, b"x"), true, fe.clone(), "grease-cut-by-fin");
        push(server, Where::Request, frame(0x3fff_ffff_ffff_ffff, 2, b""), true, fe.clone(), "unknown-cut-by-fin");
        if thorough {
            let mut two = frame(rf::DATA, 2, b"ab");
            two.extend(frame(rf::DATA, 3, b"c"));
            push(server, Where::Request, two, true, fe.clone(), "second-data-cut-by-fin");
            let mut p = padded(rf::DATA, 2);
            p.extend(padded(5, 4));
            p.extend_from_slice(b"abcd");
            push(server, Where::Request, p, true, fe.clone(), "padded-data-cut-by-fin");
        }
        // frames that may not appear on a request stream AND are malformed: either error is right
        let either = vec![FRAME_ERROR, FRAME_UNEXPECTED];
        push(server, Where::Request, frame(rf::GOAWAY, 2, &[0x00, 0x00]), false, either.clone(), "goaway-payload-longer");
        push(server, Where::Request, frame(rf::MAX_PUSH_ID, 1, &[0x40]), false, either.clone(), "max-push-id-payload-shorter");
        push(server, Where::Request, frame(rf::CANCEL_PUSH, 0, &[]), false, either.clone(), "cancel-push-empty");
        // ---- control stream (after SETTINGS)
        push(server, Where::Control, frame(rf::GOAWAY, 2, &[0x00, 0x00]), false, fe.clone(), "goaway-payload-longer");
        push(server, Where::Control, frame(rf::GOAWAY, 1, &[0x40]), false, fe.clone(), "goaway-payload-shorter");
        push(server, Where::Control, frame(rf::GOAWAY, 0, &[]), false, fe.clone(), "goaway-empty");
        push(server, Where::Control, frame(rf::CANCEL_PUSH, 3, &[0x00, 0x00, 0x00]), false, fe.clone(), "cancel-push-payload-longer");
        push(server, Where::Control, frame(rf::CANCEL_PUSH, 1, &[0x80]), false, fe.clone(), "cancel-push-payload-shorter");
        // MAX_PUSH_ID is only legal towards the server: for the client both errors are right
        let mp = if server { fe.clone() } else { either.clone() };
        push(server, Where::Control, frame(rf::MAX_PUSH_ID, 2, &[0x01, 0x02]), false, mp.clone(), "max-push-id-payload-longer");
        push(server, Where::Control, frame(rf::MAX_PUSH_ID, 0, &[]), false, mp, "max-push-id-empty");
        // cut off by the end of the (critical) stream: both the frame error and the closed critical stream are right
        // cut off by the end of the (critical) stream: the property names H3_FRAME_ERROR for a frame that the end of
        // the stream cuts off, and that is what is demanded here too (the closed critical stream is the answer to a
        // control stream that ends ON a frame boundary, which is C04's business)
        let crit = vec![FRAME_ERROR];
        let _ = CLOSED_CRITICAL;
        push(server, Where::Control, frame(rf::GOAWAY, 4, &[0x80]), true, crit.clone(), "goaway-cut-by-fin");
        push(server, Where::Control, vec![0x07], true, crit.clone(), "header-cut-by-fin");
        push(server, Where::Control, frame(0x21, 3, b"x"), true, crit.clone(), "grease-cut-by-fin");
        if thorough {
            push(server, Where::Control, frame(rf::GOAWAY, 9, &[0xc0, 0, 0, 0, 0, 0, 0, 0x04, 0x00][..9]), false, vec![FRAME_ERROR], "goaway-8-byte-varint-plus-one");
            let mut g = padded(rf::GOAWAY, 2);
            g.extend(padded(3, 2));
            g.extend_from_slice(&[0x00, 0x00, 0x00]);
            push(server, Where::Control, g, false, fe.clone(), "padded-goaway-payload-longer");
        }
    }
    let _ = (SETTINGS_ERROR, MISSING_SETTINGS);
    out
}

fn case_json(c: &Case, choices: &[u32], seed: u64) -> Value {
    json!({"seam":2,"server":c.server,"place": if c.place == Where::Request {"request"} else {"control"},"bytes":hex(&c.bytes),"fin":c.fin,"with_head":c.with_head,"after_trailers":c.after_trailers,
        "mode": match c.mode { Mode::Whole => "whole".to_string(), Mode::PerByte => "per-byte".to_string(), Mode::Explore => "explore".to_string(), Mode::Late(k) => format!("late:{k}") },
        "accept": c.accept, "why": c.why, "choices": choices, "seed": seed})
}

fn case_from_json(r: &Value) -> Case {
    let why = r["why"].as_str().unwrap().to_string();
    Case {
        server: r["server"].as_bool().unwrap(),
        place: if r["place"] == "request" { Where::Request } else { Where::Control },
        bytes: explore::unhex(r["bytes"].as_str().unwrap()),
        fin: r["fin"].as_bool().unwrap(),
        with_head: r["with_head"].as_bool().unwrap_or(true),
        after_trailers: r["after_trailers"].as_bool().unwrap_or(false),
        mode: match r["mode"].as_str().unwrap() {
            "whole" => Mode::Whole,
            "per-byte" => Mode::PerByte,
            m if m.starts_with("late:") => Mode::Late(m[5..].parse().unwrap()),
            _ => Mode::Explore,
        },
        accept: r["accept"].as_array().unwrap().iter().map(|x| x.as_u64().unwrap()).collect(),
        why: Box::leak(why.into_boxed_str()),
    }
}

pub fn run_into(args: &Args, total: &mut Acc) {
    let bound = if args.tier == Tier::Thorough { 3 } else { 2 };
    let cs = cases(args.tier);
    let seed = args.seed;
    let accs = explore::par::run(&cs, Acc::new, |_, case, acc| {
        let caps = Caps { max_executions: 60_000, ..Caps::default() };
        let mut viol = ViolSet::new();
        let key = explore::fnv_str(&format!("{case:?}"));
        let mut outcomes = Vec::new();
        let mut nontrivial = Vec::new();
        let b = if case.mode == Mode::Explore { bound } else { 0 };
        let st = dfs::explore(
            b,
            &caps,
            || execute(case, seed),
            |e, o| {
                outcomes.push(explore::fnv_str(&format!("{:?}{:?}", o.close_codes, o.driver)));
                if e.cost > 0 || case.mode == Mode::PerByte || matches!(case.mode, Mode::Late(_)) {
                    let mut f = Fnv::new();
                    f.u64(key);
                    for c in &e.choices {
                        f.u64(*c as u64 + 1);
                    }
                    nontrivial.push(f.finish());
                }
                for (sig, msg) in judge(case, &o) {
                    viol.add(sig, msg, (e.cost, case.bytes.len()), &e.choices);
                }
            },
        );
        if st.capped {
            acc.capped_cases += 1;
        }
        acc.dfs.merge(&st);
        acc.evaluations += st.executions;
        for o in outcomes {
            let mut f = Fnv::new();
            f.u64(key);
            f.u64(o);
            acc.states.insert(f.finish());
            acc.outcomes.insert(o);
        }
        acc.nontrivial.extend(nontrivial);
        viol.drain_into(acc, |choices| case_json(case, choices, seed));
    });
    for a in accs {
        total.merge(a);
    }
    total.count("seam2_cases", cs.len() as u64);
    total.sample(|| json!({"seam":2,"role":"server","stream":"request","bytes_after_headers":"00046162","ending":"fin","reference":"close(H3_FRAME_ERROR)"}));
}

pub fn replay(r: &Value) -> i32 {
    replay_p("C02:s2", r)
}

pub fn replay_p(pfx: &str, r: &Value) -> i32 {
    let case = case_from_json(r);
    let seed = r["seed"].as_u64().unwrap_or(0);
    if let Some(b) = r["explore_bound"].as_u64() {
        // diagnostic: list every execution of this case up to the bound
        let caps = Caps { max_executions: 60_000, ..Caps::default() };
        let st = dfs::explore(b as usize, &caps, || execute(&case, seed), |e, o| {
            let labels: Vec<String> = e.trace.iter().enumerate().filter(|(_, c)| c.pick != 0).map(|(i, c)| format!("{}#{}={}/{}", c.label, i, c.pick, c.n)).collect();
            println!("cost={} {:?} -> close {:x?} trailers {:?} viol {:?}", e.cost, labels, o.close_codes, o.msg.as_ref().map(|m| m.trailers.clone()), judge_p(pfx, &case, &o).iter().map(|v| v.0.clone()).collect::<Vec<_>>());
        });
        println!("executions {}", st.executions);
        return 0;
    }
    let choices: Vec<u32> = r["choices"].as_array().map(|a| a.iter().map(|x| x.as_u64().unwrap() as u32).collect()).unwrap_or_default();
    let (o, _, d) = dfs::replay(&choices, || execute(&case, seed));
    let (o2, _, _) = dfs::replay(&choices, || execute(&case, seed));
    if d.is_some() || o != o2 {
        println!("REPLAY DIVERGED: {d:?}");
        return 2;
    }
    println!("case: {case:?}");
    println!("reference: close({})", case.accept.iter().map(|c| code_name(*c)).collect::<Vec<_>>().join(" or "));
    println!("h3       : close codes {:x?}, driver {:?}, request {:?}, pending {:?}", o.close_codes, o.driver, o.msg, o.pending);
    let v = judge_p(pfx, &case, &o);
    for (sig, msg) in &v {
        println!("observed: {sig}: {msg}");
    }
    if v.is_empty() {
        println!("observed: no violation");
        0
    } else {
        1
    }
}
