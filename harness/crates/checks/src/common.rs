//! Helpers shared by the property checks.
#![allow(dead_code)]
pub use explore::panics::{guard, install_panic_hook, short_loc};

use serde_json::{json, Value};

/// Outcome of one case executed in a child process (`h3verif --replay <file>`): used for inputs on which a broken
/// subject may ABORT the process (an allocation of a peer-announced size fails) instead of panicking - an abort
/// cannot be caught in-process and would take the whole check down with it.
pub enum Isolated {
    NoViolation,
    /// (signature, message) lines the child printed as `observed: <sig>: <msg>`
    Violations(Vec<(String, String)>),
    /// killed by a signal (SIGABRT after a failed allocation, SIGSEGV, ...)
    Aborted(String),
    TimedOut,
    /// could not run the child at all
    Machinery(String),
}

pub fn run_isolated(property: &str, replay: &Value) -> Isolated {
    let dir = explore::report::out_root().join("tmp");
    if std::fs::create_dir_all(&dir).is_err() {
        return Isolated::Machinery("cannot create the scratch directory".into());
    }
    static N: std::sync::atomic::AtomicUsize = std::sync::atomic::AtomicUsize::new(0);
    let path = dir.join(format!("isolated-{}-{}-{}.json", property, std::process::id(), N.fetch_add(1, std::sync::atomic::Ordering::Relaxed)));
    let body = json!({"property": property, "signature": "isolated-run", "what": "one case executed in a child process", "replay": replay});
    if std::fs::write(&path, body.to_string()).is_err() {
        return Isolated::Machinery("cannot write the case file".into());
    }
    let exe = match std::env::current_exe() {
        Ok(e) => e,
        Err(e) => return Isolated::Machinery(e.to_string()),
    };
    let child = std::process::Command::new(exe)
        .arg("--replay")
        .arg(&path)
        .env("RUST_BACKTRACE", "0")
        .stdout(std::process::Stdio::piped())
        .stderr(std::process::Stdio::null())
        .spawn();
    let mut child = match child {
        Ok(c) => c,
        Err(e) => return Isolated::Machinery(e.to_string()),
    };
    let mut stdout = child.stdout.take().unwrap();
    let reader = std::thread::spawn(move || {
        let mut s = String::new();
        let _ = std::io::Read::read_to_string(&mut stdout, &mut s);
        s
    });
    let start = std::time::Instant::now();
    let status = loop {
        match child.try_wait() {
            Ok(Some(st)) => break st,
            Ok(None) => {
                if start.elapsed() > std::time::Duration::from_secs(120) {
                    let _ = child.kill();
                    let _ = std::fs::remove_file(&path);
                    return Isolated::TimedOut;
                }
                std::thread::sleep(std::time::Duration::from_millis(5));
            }
            Err(e) => return Isolated::Machinery(e.to_string()),
        }
    };
    let _ = std::fs::remove_file(&path);
    let out = reader.join().unwrap_or_default();
    match status.code() {
        Some(0) => Isolated::NoViolation,
        Some(1) => Isolated::Violations(
            out.lines()
                .filter_map(|l| l.strip_prefix("observed: "))
                .filter(|l| *l != "no violation")
                .map(|l| match l.split_once(": ") {
                    Some((s, m)) => (s.to_string(), m.to_string()),
                    None => (l.to_string(), String::new()),
                })
                .collect(),
        ),
        Some(c) => Isolated::Machinery(format!("child exited with {c}: {}", out.lines().last().unwrap_or(""))),
        None => {
            #[cfg(unix)]
            {
                use std::os::unix::process::ExitStatusExt;
                Isolated::Aborted(format!("signal {}", status.signal().unwrap_or(0)))
            }
            #[cfg(not(unix))]
            Isolated::Aborted("signal".into())
        }
    }
}
