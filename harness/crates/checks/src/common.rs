//! Helpers shared by the property checks.
#![allow(dead_code)]
pub use explore::panics::{guard, install_panic_hook, short_loc};
