//! `h3verif <property> <quick|thorough>`  — run one property check against the h3 in /repo
//! `h3verif --replay <file>`              — re-execute one recorded counterexample
//!
//! exit 0: property held on everything explored (known findings are printed, not failed)
//! exit 1: `VIOLATION property=<id> replay=<path>` printed for each new violation
//! exit 2: machinery failure (never a verdict)

mod common;

mod c01;
mod c02;
mod c02_conn;
mod c03;
mod c04;
mod c05;
mod c06;
mod c07;
mod c08;
mod c09;
mod scen;
mod c10;
mod c11;
mod c12;
mod c13;
mod c14;
mod c15;
mod c16;
mod c18;
mod c19;
mod c20;

use explore::report::Tier;

pub struct Args {
    pub tier: Tier,
    pub seed: u64,
}

/// A poll of the code under test that does not return within the limit is reported as a violation (the subject
/// loops forever inside one poll; no horizon can see that) and the process ends with exit 1.
fn spawn_stuck_watchdog(property: &str, tier: Tier) {
    let property = property.to_string();
    let limit = std::time::Duration::from_secs(std::env::var("VERIF_STUCK_LIMIT_S").ok().and_then(|s| s.parse().ok()).unwrap_or(90));
    explore::watch::start(limit, move |case, secs| {
        let out = explore::report::out_root();
        let dir = out.join("replays").join(&property);
        let _ = std::fs::create_dir_all(&dir);
        let sig = format!("{property}:stuck:a-single-poll-does-not-return");
        let path = dir.join(format!("{}_stuck_a-single-poll-does-not-return.json", property));
        let what = format!(
            "a worker has been inside ONE poll of the code under test for {secs} s (case index {case:?} of the {} tier's deterministic case list): the code loops without returning; replaying re-runs the tier under the same watchdog",
            tier.name()
        );
        let body = serde_json::json!({"property": property, "signature": sig, "what": what, "replay": {"kind": "stuck", "tier": tier.name(), "case_index": case}});
        let _ = std::fs::write(&path, serde_json::to_string_pretty(&body).unwrap());
        println!("VIOLATION property={property} replay={}   # signature={sig} :: {what}", path.display());
        std::process::exit(1);
    });
}

fn main() {
    let argv: Vec<String> = std::env::args().collect();
    if argv.len() >= 3 && argv[1] == "--replay" {
        std::process::exit(replay(&argv[2]));
    }
    if argv.len() < 2 {
        eprintln!("usage: h3verif <Cxx> [quick|thorough] | --replay <file>");
        std::process::exit(2);
    }
    let tier = match argv
        .get(2)
        .cloned()
        .or_else(|| std::env::var("VERIF_TIER").ok())
        .as_deref()
    {
        Some("thorough") => Tier::Thorough,
        _ => Tier::Quick,
    };
    let seed = std::env::var("VERIF_SEED")
        .ok()
        .and_then(|s| s.parse().ok())
        .unwrap_or(0u64);
    common::install_panic_hook();
    spawn_rss_watchdog();
    spawn_stuck_watchdog(&argv[1], tier);
    let args = Args { tier, seed };
    let code = match argv[1].as_str() {
        "C01" => c01::run(&args),
        "C02" => c02::run(&args),
        "C03" => c03::run(&args),
        "C04" => c04::run(&args),
        "C05" => c05::run(&args),
        "C06" => c06::run(&args),
        "C07" => c07::run(&args),
        "C08" => c08::run(&args),
        "C09" => c09::run(&args),
        "C10" => c10::run(&args),
        "C11" => c11::run(&args),
        "C12" => c12::run(&args),
        "C13" => c13::run(&args),
        "C14" => c14::run(&args),
        "C15" => c15::run(&args),
        "C16" => c16::run(&args),
        "C18" => c18::run(&args),
        "C19" => c19::run(&args),
        "C20" => c20::run(&args),
        other => {
            eprintln!("unknown property {other}");
            2
        }
    };
    std::process::exit(code);
}

/// Engine-level memory cap: a run that outgrows it is a machinery failure (exit 2), never a verdict.
fn spawn_rss_watchdog() {
    let cap_gb: u64 = std::env::var("VERIF_MAX_RSS_GB").ok().and_then(|s| s.parse().ok()).unwrap_or(28);
    std::thread::spawn(move || loop {
        std::thread::sleep(std::time::Duration::from_millis(250));
        if let Ok(s) = std::fs::read_to_string("/proc/self/statm") {
            if let Some(pages) = s.split_whitespace().nth(1).and_then(|p| p.parse::<u64>().ok()) {
                if pages * 4096 > cap_gb << 30 {
                    eprintln!("MACHINERY-FAILURE: resident set above {cap_gb} GiB, aborting (not a verdict)");
                    std::process::exit(2);
                }
            }
        }
    });
}

fn replay(path: &str) -> i32 {
    let text = match std::fs::read_to_string(path) {
        Ok(t) => t,
        Err(e) => {
            eprintln!("cannot read {path}: {e}");
            return 2;
        }
    };
    let v: serde_json::Value = match serde_json::from_str(&text) {
        Ok(v) => v,
        Err(e) => {
            eprintln!("cannot parse {path}: {e}");
            return 2;
        }
    };
    common::install_panic_hook();
    let prop = v["property"].as_str().unwrap_or("");
    println!("replaying {} signature={}", prop, v["signature"].as_str().unwrap_or(""));
    println!("expected failure: {}", v["what"].as_str().unwrap_or(""));
    let r = &v["replay"];
    if r["kind"] == "stuck" {
        // re-run the tier under the same watchdog, with the evidence going elsewhere
        let exe = std::env::current_exe().expect("own path");
        let st = std::process::Command::new(exe)
            .arg(prop)
            .arg(r["tier"].as_str().unwrap_or("quick"))
            .env("VERIF_OUT", std::env::temp_dir().join("h3verif-stuck-replay"))
            .status();
        return match st {
            Ok(s) => s.code().unwrap_or(2),
            Err(_) => 2,
        };
    }
    match prop {
        "C01" => c01::replay(r),
        "C02" => c02::replay(r),
        "C03" => c03::replay(r),
        "C04" => c04::replay(r),
        "C05" => c05::replay(r),
        "C06" => c06::replay(r),
        "C07" => c07::replay(r),
        "C08" => c08::replay(r),
        "C09" => c09::replay(r),
        "C10" => c10::replay(r),
        "C11" => c11::replay(r),
        "C12" => c12::replay(r),
        "C13" => c13::replay(r),
        "C14" => c14::replay(r),
        "C15" => c15::replay(r),
        "C16" => c16::replay(r),
        "C18" => c18::replay(r),
        "C19" => c19::replay(r),
        "C20" => c20::replay(r),
        other => {
            eprintln!("no replay for property {other}");
            2
        }
    }
}
