//! C05 — one connection error, seen everywhere, never lost between tasks.
//!
//! `threads` engine: the connection driver and 1..3 request handles live on real OS threads that
//! pass a baton; every `ConnectionState` accessor of h3 (error cell get / set, waker access,
//! closing flag, settings) is a pre-emption point through the `verif-hooks` callback. All
//! interleavings of those points are enumerated (unbounded for 2 threads, pre-emption bounded
//! for more). Each stream thread performs API calls that raise a connection error of a different
//! origin and code; optionally the driver detects one itself in the same run.

use crate::scen::*;
use crate::Args;
use bytes::Bytes;
use explore::dfs::{self, Caps};
use explore::report::{Acc, Report, Tier, ViolSet};
use explore::threads::{self, Actor, Handle};
use explore::Fnv;
use refimpl::frames as rf;
use refimpl::h3auto::Endpoint;
use serde_json::{json, Value};
use simnet::{Net, NetCfg, SimConn, CLIENT, SERVER};
use std::future::Future;
use std::pin::Pin;
use std::sync::{Arc, Mutex};
use std::task::{Context, Poll, Wake, Waker};

#[derive(Clone, Copy, Debug, PartialEq, Eq)]
pub enum Kind {
    /// SETTINGS frame on the request stream -> H3_FRAME_UNEXPECTED
    FrameUnexpected,
    /// frame cut off by FIN -> H3_FRAME_ERROR
    FrameError,
    /// undecodable trailers -> QPACK_DECOMPRESSION_FAILED
    Qpack,
    /// the peer closes the connection with an application code; the read surfaces it
    RemoteClose,
    /// client only: the last SendRequest is dropped -> H3_NO_ERROR
    DropSender,
    /// the transport reports a connection timeout on a read of THIS stream only: nothing but h3's own wake-up
    /// tells the driver
    StreamTimeout,
    /// the transport adapter reports an internal error on a read of THIS stream only (h3 may close the
    /// connection with H3_INTERNAL_ERROR; everybody must still report the same error)
    StreamInternal,
}

#[derive(Clone, Debug)]
pub struct Case {
    pub me: Endpoint,
    pub kinds: Vec<Kind>,
    /// the peer's control stream is finished: the driver detects H3_CLOSED_CRITICAL_STREAM itself
    pub driver_self: bool,
    /// the driver task polls once, waits for a wake-up, the peer goes away, and the application then calls
    /// shutdown(0) on the connection object (whose GOAWAY write fails with a connection-level error) before
    /// it goes on polling: shutdown must report the connection's single outcome too
    pub shutdown: bool,
}

#[derive(Debug, Clone, Default, PartialEq, Eq)]
pub struct Outcome {
    pub driver: Vec<String>,
    pub streams: Vec<Vec<String>>,
    pub later: Vec<Vec<String>>,
    pub close_calls: Vec<u64>,
    pub deadlocked: Vec<usize>,
    pub panics: Vec<(usize, String)>,
    pub step_cap: bool,
    pub trace_len: usize,
    pub setup: String,
    pub fp: u64,
}

struct ThreadWaker {
    h: Handle,
    target: usize,
    wakes: Mutex<usize>,
}
impl Wake for ThreadWaker {
    fn wake(self: Arc<Self>) {
        self.wake_by_ref()
    }
    fn wake_by_ref(self: &Arc<Self>) {
        *self.wakes.lock().unwrap() += 1;
        self.h.unpark(self.target);
    }
}

/// Drive a future on the calling baton thread: park while it is pending.
fn block_on<F: Future>(h: &Handle, f: F) -> F::Output {
    let mut f = Box::pin(f);
    // one waker per thread for its whole life, as an executor task has
    let waker = thread_waker(h);
    loop {
        let mut cx = Context::from_waker(&waker);
        match f.as_mut().poll(&mut cx) {
            Poll::Ready(v) => return v,
            Poll::Pending => h.park(),
        }
    }
}

thread_local! {
    static WAKER: std::cell::RefCell<Option<Waker>> = const { std::cell::RefCell::new(None) };
}

fn thread_waker(h: &Handle) -> Waker {
    WAKER.with(|w| {
        let mut w = w.borrow_mut();
        if w.is_none() {
            *w = Some(Waker::from(Arc::new(ThreadWaker { h: h.clone(), target: h.id, wakes: Mutex::new(0) })));
        }
        w.as_ref().unwrap().clone()
    })
}

/// Setup runs on the exploring thread, before any actor exists: nothing may pend.
fn now<F: Future>(f: F) -> Result<F::Output, String> {
    let mut f: Pin<Box<F>> = Box::pin(f);
    let waker = futures_util::task::noop_waker();
    let mut cx = Context::from_waker(&waker);
    for _ in 0..64 {
        if let Poll::Ready(v) = f.as_mut().poll(&mut cx) {
            return Ok(v);
        }
    }
    Err("setup future stays pending".into())
}

fn poison(kind: Kind) -> (Vec<u8>, bool) {
    match kind {
        Kind::FrameUnexpected => (rf::frame(rf::SETTINGS, &[]), false),
        Kind::FrameError => (vec![0x01, 0x05, 0x00], true),
        Kind::Qpack => (rf::frame(rf::HEADERS, &[0xff, 0xff]), true),
        Kind::RemoteClose | Kind::DropSender | Kind::StreamTimeout | Kind::StreamInternal => (vec![], false),
    }
}

const REMOTE_CODE: u64 = 0x1234;

pub fn install_hook() {
    static ONCE: std::sync::Once = std::sync::Once::new();
    ONCE.call_once(|| {
        h3::verif::set_point_hook(Some(Box::new(|name| threads::point(name))));
    });
}

type SrvStreamT = h3::server::RequestStream<simnet::SimBidi<Bytes>, Bytes>;
type CliStreamT = h3::client::RequestStream<simnet::SimBidi<Bytes>, Bytes>;

enum AnyStream {
    Srv(SrvStreamT),
    Cli(CliStreamT),
}

async fn stream_action(s: &mut AnyStream, kind: Kind, net: &Net, me: Endpoint) -> Vec<String> {
    let mut out = Vec::new();
    if kind == Kind::RemoteClose {
        let peer = if me == Endpoint::Server { CLIENT } else { SERVER };
        net.raw_close(peer, REMOTE_CODE);
    }
    if kind == Kind::StreamTimeout {
        let side = if me == Endpoint::Server { SERVER } else { CLIENT };
        let id = match s {
            AnyStream::Srv(s) => s.id().into_inner(),
            AnyStream::Cli(s) => s.id().into_inner(),
        };
        net.raw_stream_read_conn_err(side, id, simnet::ConnErr::Timeout);
    }
    if kind == Kind::StreamInternal {
        let side = if me == Endpoint::Server { SERVER } else { CLIENT };
        let id = match s {
            AnyStream::Srv(s) => s.id().into_inner(),
            AnyStream::Cli(s) => s.id().into_inner(),
        };
        net.raw_stream_read_conn_err(side, id, simnet::ConnErr::Internal);
    }
    macro_rules! go {
        ($s:expr) => {{
            match $s.recv_data().await {
                Ok(Some(_)) => out.push("data".into()),
                Ok(None) => {
                    out.push("none".into());
                    match $s.recv_trailers().await {
                        Ok(_) => out.push("trailers".into()),
                        Err(e) => out.push(stream_class(&e)),
                    }
                }
                Err(e) => out.push(stream_class(&e)),
            }
        }};
    }
    match s {
        AnyStream::Srv(s) => go!(s),
        AnyStream::Cli(s) => go!(s),
    }
    out
}

async fn later_calls(s: &mut AnyStream) -> Vec<String> {
    let mut out = Vec::new();
    macro_rules! go {
        ($s:expr) => {{
            match $s.recv_data().await {
                Ok(Some(_)) => out.push("recv:data".into()),
                Ok(None) => out.push("recv:none".into()),
                Err(e) => out.push(format!("recv:{}", stream_class(&e))),
            }
            match $s.send_data(Bytes::from_static(b"x")).await {
                Ok(()) => out.push("send:ok".into()),
                Err(e) => out.push(format!("send:{}", stream_class(&e))),
            }
            match $s.finish().await {
                Ok(()) => out.push("finish:ok".into()),
                Err(e) => out.push(format!("finish:{}", stream_class(&e))),
            }
        }};
    }
    match s {
        AnyStream::Srv(s) => go!(s),
        AnyStream::Cli(s) => go!(s),
    }
    out
}

enum Driver {
    Srv(SrvConn),
    Cli(CliConn),
}

pub fn execute(case: &Case) -> Outcome {
    fastrand::seed(1);
    install_hook();
    let n = case.kinds.len();
    let net = Net::new(NetCfg::default());
    let (me, peer) = match case.me {
        Endpoint::Server => (SERVER, CLIENT),
        Endpoint::Client => (CLIENT, SERVER),
    };
    let mut o = Outcome::default();
    // ---- everything the peer ever sends is written up front
    let ctrl = if peer == CLIENT { CLIENT_CTRL } else { SERVER_CTRL };
    net.raw_open(ctrl);
    net.raw_write(peer, ctrl, &control_preamble(&[]));
    for (i, k) in case.kinds.iter().enumerate() {
        let id = i as u64 * 4;
        let head = match case.me {
            Endpoint::Server => rf::frame(rf::HEADERS, REQ_SECTION),
            Endpoint::Client => rf::frame(rf::HEADERS, RESP_SECTION),
        };
        let (p, fin) = poison(*k);
        if peer == CLIENT {
            net.raw_open(id);
        } else {
            net.lock().ensure_stream(id);
        }
        let mut b = head;
        b.extend(p);
        net.raw_write(peer, id, &b);
        if fin {
            net.raw_fin(peer, id);
        }
    }
    // ---- setup (single-threaded, hooks inactive on this thread)
    let mut streams: Vec<AnyStream> = Vec::new();
    let mut sender: Option<CliSend> = None;
    let driver = match case.me {
        Endpoint::Server => {
            let setup = now(async {
                let mut b = h3::server::builder();
                b.send_grease(false);
                let mut conn: SrvConn = b.build(SimConn::new(&net, SERVER)).await.map_err(|e| conn_class(&e))?;
                let mut ss = Vec::new();
                for _ in 0..n {
                    let r = conn.accept().await.map_err(|e| conn_class(&e))?.ok_or("accept none")?;
                    let (_req, s) = r.resolve_request().await.map_err(|e| stream_class(&e))?;
                    ss.push(s);
                }
                Ok::<_, String>((conn, ss))
            });
            match setup {
                Ok(Ok((conn, ss))) => {
                    streams.extend(ss.into_iter().map(AnyStream::Srv));
                    Driver::Srv(conn)
                }
                Ok(Err(e)) | Err(e) => {
                    o.setup = e;
                    return o;
                }
            }
        }
        Endpoint::Client => {
            let setup = now(async {
                let mut b = h3::client::builder();
                b.send_grease(false);
                let (conn, mut sr): (CliConn, CliSend) = b.build(SimConn::new(&net, CLIENT)).await.map_err(|e| conn_class(&e))?;
                let mut ss = Vec::new();
                for _ in 0..n {
                    let mut s = sr.send_request(http::Request::get("https://a/").body(()).unwrap()).await.map_err(|e| stream_class(&e))?;
                    s.recv_response().await.map_err(|e| stream_class(&e))?;
                    ss.push(s);
                }
                Ok::<_, String>((conn, sr, ss))
            });
            match setup {
                Ok(Ok((conn, sr, ss))) => {
                    streams.extend(ss.into_iter().map(AnyStream::Cli));
                    sender = Some(sr);
                    Driver::Cli(conn)
                }
                Ok(Err(e)) | Err(e) => {
                    o.setup = e;
                    return o;
                }
            }
        }
    };
    o.setup = "ok".into();
    if case.driver_self {
        // seen by the driver at its first poll of the run
        net.raw_fin(peer, ctrl);
    }
    // ---- actors
    let drv_results: Arc<Mutex<Vec<String>>> = Arc::new(Mutex::new(Vec::new()));
    let stream_results: Arc<Mutex<Vec<Vec<String>>>> = Arc::new(Mutex::new(vec![Vec::new(); n]));
    let returned: Arc<Mutex<Vec<Option<AnyStream>>>> = Arc::new(Mutex::new((0..n).map(|_| None).collect()));
    let returned_driver: Arc<Mutex<Option<Driver>>> = Arc::new(Mutex::new(None));
    let mut actors: Vec<Actor> = Vec::new();
    {
        let (res, back) = (drv_results.clone(), returned_driver.clone());
        let (shutdown_mode, net_d) = (case.shutdown, net.clone());
        actors.push(Box::new(move |h: Handle| {
            WAKER.with(|w| *w.borrow_mut() = None); // pooled thread: forget the previous run's waker
            let mut driver = driver;
            if shutdown_mode {
                let pending = {
                    let waker = thread_waker(&h);
                    let mut cx = Context::from_waker(&waker);
                    match &mut driver {
                        Driver::Srv(conn) => {
                            let mut f = Box::pin(conn.accept());
                            match f.as_mut().poll(&mut cx) {
                                Poll::Ready(r) => {
                                    res.lock().unwrap().push(match r {
                                        Ok(Some(_)) => "req".to_string(),
                                        Ok(None) => "none".to_string(),
                                        Err(e) => conn_class(&e),
                                    });
                                    false
                                }
                                Poll::Pending => true,
                            }
                        }
                        Driver::Cli(conn) => match conn.poll_close(&mut cx) {
                            Poll::Ready(e) => {
                                res.lock().unwrap().push(conn_class(&e));
                                false
                            }
                            Poll::Pending => true,
                        },
                    }
                };
                if pending {
                    h.park();
                }
                net_d.raw_close(peer, REMOTE_CODE);
                let r = match &mut driver {
                    Driver::Srv(conn) => block_on(&h, conn.shutdown(0)),
                    Driver::Cli(conn) => block_on(&h, conn.shutdown(0)),
                };
                res.lock().unwrap().push(match r {
                    Ok(()) => "shutdown-ok".to_string(),
                    Err(e) => conn_class(&e),
                });
            }
            for call in 0..3 {
                let r = match &mut driver {
                    Driver::Srv(conn) => block_on(&h, async {
                        match conn.accept().await {
                            Ok(Some(_)) => "req".to_string(),
                            Ok(None) => "none".to_string(),
                            Err(e) => conn_class(&e),
                        }
                    }),
                    // (the last call goes through the public wrapper wait_idle())
                    Driver::Cli(conn) if call == 2 => block_on(&h, async { conn_class(&conn.wait_idle().await) }),
                    Driver::Cli(conn) => block_on(&h, async { conn_class(&std::future::poll_fn(|cx| conn.poll_close(cx)).await) }),
                };
                res.lock().unwrap().push(r);
            }
            *back.lock().unwrap() = Some(driver);
        }));
    }
    let mut sender_slot = sender;
    for (i, s) in streams.into_iter().enumerate() {
        let kind = case.kinds[i];
        let (res, back, net2, me2) = (stream_results.clone(), returned.clone(), net.clone(), case.me);
        let drop_sender = if kind == Kind::DropSender { sender_slot.take() } else { None };
        actors.push(Box::new(move |h: Handle| {
            WAKER.with(|w| *w.borrow_mut() = None);
            let mut s = s;
            let r = if kind == Kind::DropSender {
                drop(drop_sender);
                vec!["dropped-last-sender".to_string()]
            } else {
                block_on(&h, stream_action(&mut s, kind, &net2, me2))
            };
            res.lock().unwrap()[i] = r;
            back.lock().unwrap()[i] = Some(s);
        }));
    }
    let rr = threads::run(actors, 5000);
    o.deadlocked = rr.deadlocked.clone();
    o.panics = rr.panics.clone();
    o.step_cap = rr.step_cap;
    o.trace_len = rr.trace.len();
    o.driver = drv_results.lock().unwrap().clone();
    o.streams = stream_results.lock().unwrap().clone();
    o.close_calls = net.close_calls(me).iter().map(|c| c.0).collect();
    // ---- later calls on every handle, sequentially (hooks inactive on this thread)
    let mut back = returned.lock().unwrap();
    for s in back.iter_mut() {
        match s {
            Some(s) => o.later.push(now(later_calls(s)).unwrap_or_else(|e| vec![e])),
            None => o.later.push(vec!["handle-lost".into()]),
        }
    }
    // the close calls may only come from the run itself, later calls must not add any
    let after = net.close_calls(me).len();
    if after != o.close_calls.len() {
        o.close_calls = net.close_calls(me).iter().map(|c| c.0).collect();
    }
    let mut h = Fnv::new();
    h.str(&format!("{:?}{:?}{:?}", o.driver, o.streams, o.close_calls));
    for (t, p) in &rr.trace {
        h.u64(*t as u64);
        h.str(p);
    }
    o.fp = h.finish();
    drop(back);
    drop(sender_slot);
    o
}

fn conn_errors_in(results: &[String]) -> Vec<String> {
    // "Conn:Local(0x105)" / "recv:Conn:Remote(AppClose(0x1234))" -> the part after "Conn:"
    results.iter().filter_map(|r| r.find("Conn:").map(|i| r[i + 5..].to_string())).collect()
}

pub fn judge(case: &Case, o: &Outcome) -> Vec<(String, String)> {
    let role = if case.me == Endpoint::Server { "server" } else { "client" };
    let ctx = format!("{role}: stream threads raise {:?}, driver detects its own error: {}, application calls shutdown() after the peer went away: {}", case.kinds, case.driver_self, case.shutdown);
    let mut out = Vec::new();
    if o.setup != "ok" {
        out.push((format!("C05:{role}:harness-setup-failed"), format!("{ctx}: {}", o.setup)));
        return out;
    }
    for (t, p) in &o.panics {
        out.push((format!("C05:{role}:panic@{}", explore::panics::short_loc(p)), format!("{ctx}: thread {t} panicked: {p}")));
    }
    if o.step_cap {
        out.push((format!("C05:{role}:livelock"), format!("{ctx}: more than 5000 scheduling steps")));
        return out;
    }
    // (5) no lost wake-up
    if o.deadlocked.contains(&0) {
        out.push((
            format!("C05:{role}:driver-parked-forever"),
            format!("{ctx}: all stream threads are done and a connection error is stored, yet the driver is parked with no wake-up pending; driver results so far {:?}, streams {:?}", o.driver, o.streams),
        ));
        return out;
    }
    if !o.deadlocked.is_empty() {
        out.push((format!("C05:{role}:stream-thread-parked-forever"), format!("{ctx}: threads {:?} parked forever; {o:?}", o.deadlocked)));
        return out;
    }
    // (1)(3)(4) one winner everywhere
    let mut all: Vec<String> = Vec::new();
    all.extend(o.driver.iter().filter(|d| *d != "req" && *d != "none" && *d != "shutdown-ok").cloned());
    for s in &o.streams {
        all.extend(conn_errors_in(s));
    }
    for s in &o.later {
        all.extend(conn_errors_in(s));
    }
    let mut distinct = all.clone();
    distinct.sort();
    distinct.dedup();
    if distinct.len() > 1 {
        out.push((
            format!("C05:{role}:more-than-one-connection-error"),
            format!("{ctx}: connection errors reported: {distinct:?}; driver {:?}, stream threads {:?}, later calls {:?}", o.driver, o.streams, o.later),
        ));
    }
    let polled: Vec<&String> = o.driver.iter().filter(|d| *d != "shutdown-ok").collect();
    if polled.len() < 3 || polled.len() > 5 || o.driver.iter().any(|d| d == "req" || d == "none") {
        out.push((format!("C05:{role}:driver-does-not-report-the-error"), format!("{ctx}: driver results {:?}", o.driver)));
    }
    // every stream thread that raised a connection error reports a connection error
    for (i, s) in o.streams.iter().enumerate() {
        if case.kinds[i] != Kind::DropSender && conn_errors_in(s).is_empty() {
            out.push((format!("C05:{role}:stream-call-reports-no-connection-error:{:?}", case.kinds[i]), format!("{ctx}: thread {} results {s:?}", i + 1)));
        }
    }
    // (2) close exactly once with W's code for locally detected errors, never for remote ones
    if let Some(w) = distinct.first() {
        if distinct.len() == 1 {
            if let Some(code) = w.strip_prefix("Local(").and_then(|s| s.strip_suffix(')')).and_then(|s| u64::from_str_radix(s.trim_start_matches("0x"), 16).ok()) {
                if o.close_calls != [code] {
                    out.push((
                        format!("C05:{role}:close-calls-do-not-match-the-winner:{}", if o.close_calls.is_empty() { "none" } else if o.close_calls.len() > 1 { "more-than-one" } else { "wrong-code" }),
                        format!("{ctx}: winner {w}; close calls {:x?}", o.close_calls),
                    ));
                }
            } else if w == "Remote(Internal)" {
                // a failure of the transport adapter: h3 may (and does) close with H3_INTERNAL_ERROR; that is not
                // demanded, but the connection's outcome must not depend on WHO met the error: the close calls
                // are those of a driver that meets the same error itself
                if !o.close_calls.is_empty() && o.close_calls != [0x102] {
                    out.push((format!("C05:{role}:close-calls-do-not-match-the-winner:wrong-code"), format!("{ctx}: winner {w}; close calls {:x?}", o.close_calls)));
                }
                let base = internal_error_baseline(case.me);
                if o.close_calls != base {
                    out.push((
                        format!("C05:{role}:outcome-depends-on-who-met-the-error"),
                        format!("{ctx}: winner {w}; close calls {:x?}, but {:x?} when the driver meets the same error itself", o.close_calls, base),
                    ));
                }
            } else if !o.close_calls.is_empty() {
                out.push((format!("C05:{role}:closed-although-the-error-came-from-the-transport"), format!("{ctx}: winner {w}; close calls {:x?}", o.close_calls)));
            }
        }
    }
    out
}

/// What the transport is asked to do when the DRIVER itself meets the adapter-internal error (nobody else involved):
/// the reference point for the case where a request handle met it first - the connection's outcome must not depend on
/// who noticed the error. One deterministic single-task run per role.
fn internal_error_baseline(me: Endpoint) -> Vec<u64> {
    static BASE: std::sync::OnceLock<[Vec<u64>; 2]> = std::sync::OnceLock::new();
    let b = BASE.get_or_init(|| {
        let run = |server: bool| -> Vec<u64> {
            let net = Net::new(NetCfg::default());
            let mut ex = simnet::Exec::new();
            let side = if server { SERVER } else { CLIENT };
            let net2 = net.clone();
            ex.spawn("driver", async move {
                if server {
                    let mut b = h3::server::builder();
                    b.send_grease(false);
                    let Ok(mut conn) = b.build::<SimConn, Bytes>(SimConn::new(&net2, SERVER)).await else { return };
                    for _ in 0..3 {
                        let r = conn.accept().await;
                        drop(r);
                    }
                    // (dropping the connection object is a further close of its own; it is kept)
                    std::future::pending::<()>().await;
                    drop(conn);
                } else {
                    let mut b = h3::client::builder();
                    b.send_grease(false);
                    let Ok((mut conn, sr)) = b.build::<SimConn, simnet::SimOpener, Bytes>(SimConn::new(&net2, CLIENT)).await else { return };
                    for _ in 0..3 {
                        let _ = std::future::poll_fn(|cx| conn.poll_close(cx)).await;
                    }
                    std::future::pending::<()>().await;
                    drop((conn, sr));
                }
            });
            let net3 = net.clone();
            ex.spawn("script", async move {
                let (peer, ctrl) = if server { (CLIENT, CLIENT_CTRL) } else { (SERVER, SERVER_CTRL) };
                net3.raw_open(ctrl);
                net3.raw_write(peer, ctrl, &control_preamble(&[]));
                for _ in 0..4 {
                    simnet::exec::yield_now().await;
                }
                net3.inject_conn_err(side, simnet::ConnErr::Internal);
            });
            let _ = ex.run(4000, |_| {});
            net.close_calls(side).iter().map(|c| c.0).collect()
        };
        [run(true), run(false)]
    });
    if me == Endpoint::Server { b[0].clone() } else { b[1].clone() }
}

fn kind_from(s: &str) -> Kind {
    match s {
        "FrameUnexpected" => Kind::FrameUnexpected,
        "FrameError" => Kind::FrameError,
        "Qpack" => Kind::Qpack,
        "RemoteClose" => Kind::RemoteClose,
        "StreamTimeout" => Kind::StreamTimeout,
        "StreamInternal" => Kind::StreamInternal,
        _ => Kind::DropSender,
    }
}

pub fn cases(thorough: bool) -> Vec<Case> {
    let mut out = Vec::new();
    for me in [Endpoint::Server, Endpoint::Client] {
        let mut kinds = vec![Kind::FrameUnexpected, Kind::FrameError, Kind::Qpack, Kind::RemoteClose, Kind::StreamTimeout, Kind::StreamInternal];
        if me == Endpoint::Client {
            kinds.push(Kind::DropSender);
        }
        for driver_self in [false, true] {
            for &a in &kinds {
                out.push(Case { me, kinds: vec![a], driver_self, shutdown: false });
                if !driver_self && !matches!(a, Kind::DropSender) {
                    out.push(Case { me, kinds: vec![a], driver_self, shutdown: true });
                }
            }
            for (i, &a) in kinds.iter().enumerate() {
                for &b in &kinds[i + 1..] {
                    out.push(Case { me, kinds: vec![a, b], driver_self, shutdown: false });
                }
            }
            if thorough || !driver_self {
                for (i, &a) in kinds.iter().enumerate() {
                    for (j, &b) in kinds.iter().enumerate().skip(i + 1) {
                        for &c in &kinds[j + 1..] {
                            out.push(Case { me, kinds: vec![a, b, c], driver_self, shutdown: false });
                        }
                    }
                }
            }
        }
    }
    out
}

pub fn run(args: &Args) -> i32 {
    let thorough = args.tier == Tier::Thorough;
    install_hook();
    let mut rep = Report::new("C05", args.tier, args.seed, "model_checking");
    rep.exhaustive = true;
    let (b2, b3) = if thorough { (usize::MAX, 5) } else { (5, 3) };
    let b2s = if b2 == usize::MAX { "unbounded".to_string() } else { b2.to_string() };
    rep.rule = format!(
        "actors on real OS threads under a baton scheduler: one driver thread (server: accept(); client: poll_close(); parks while pending, woken through h3's AtomicWaker) and 1..3 stream threads, each performing the API calls that raise one connection error (SETTINGS on a request stream -> H3_FRAME_UNEXPECTED; frame cut off by FIN -> H3_FRAME_ERROR; undecodable trailers -> QPACK_DECOMPRESSION_FAILED; peer application close 0x1234 surfacing on a read; a connection timeout / an internal adapter error that the transport reports on a read of this stream only; a driver that calls shutdown() after the peer went away; client: last SendRequest dropped -> H3_NO_ERROR), every subset of kinds, with and without an error the driver detects itself (peer control stream finished). Pre-emption points = every ConnectionState accessor (get_conn_error, set_conn_error, waker, set_closing, is_closing, settings, set_settings) via the verif-hooks callback. ALL interleavings for 2 threads; pre-emption bound {b2s} for 3 threads and {b3} for 4. After each run: later calls (recv_data, send_data, finish) on every handle, the driver is called three times. Oracle: one distinct connection error over all reports; for the adapter-internal error the close calls equal those of a run in which the driver meets that error itself; close() exactly once with its code iff locally detected; driver never parked forever. states = distinct (schedule trace, observation) fingerprints; non-trivial = executions with at least one pre-emption."
    );
    rep.assumptions = vec![
        "OnceLock and AtomicWaker::{register,wake} are atomic operations (their documented contracts); interleavings are sequentially consistent (Relaxed vs SeqCst on the closing flag is not modelled)".into(),
        "the driver task keeps one waker for its lifetime, as an executor task does".into(),
    ];
    rep.bound_note = format!("unbounded for 2 threads; pre-emption bound {b2s} (3 threads), {b3} (4 threads)");
    let cs = cases(thorough);
    let deadline = std::time::Instant::now() + std::time::Duration::from_secs(if thorough { 1500 } else { 40 });
    // each execution uses several OS threads: run fewer cases in parallel
    std::env::set_var("VERIF_THREADS", std::env::var("VERIF_C05_WORKERS").unwrap_or_else(|_| "12".into()));
    let accs = explore::par::run(&cs, Acc::new, |_, case, acc| {
        let bound = match case.kinds.len() {
            1 => usize::MAX,
            2 => b2,
            _ => b3,
        };
        let caps = Caps { deadline: Some(deadline), max_executions: if thorough { 2_000_000 } else { 60_000 }, ..Caps::default() };
        let mut viol = ViolSet::new();
        let mut states: Vec<u64> = Vec::new();
        let mut outcomes: Vec<u64> = Vec::new();
        let mut nontrivial = 0u64;
        let st = dfs::explore(
            bound,
            &caps,
            || execute(case),
            |e, o| {
                states.push(o.fp);
                outcomes.push(explore::fnv_str(&format!("{:?}{:?}{:?}", o.driver, o.streams, o.close_calls)));
                if e.cost > 0 {
                    nontrivial += 1;
                }
                for (sig, msg) in judge(case, &o) {
                    viol.add(sig, msg, (e.cost, e.choices.len()), &e.choices);
                }
            },
        );
        if st.capped {
            acc.capped_cases += 1;
        }
        acc.dfs.merge(&st);
        acc.evaluations += st.executions;
        acc.states.extend(states);
        acc.outcomes.extend(outcomes);
        let h = explore::fnv_str(&format!("{case:?}"));
        for k in 0..nontrivial.min(200_000) {
            acc.nontrivial.insert(h.wrapping_add(k));
        }
        viol.drain_into(acc, |choices| json!({"me": if case.me == Endpoint::Server {"server"} else {"client"}, "kinds": case.kinds.iter().map(|k| format!("{k:?}")).collect::<Vec<_>>(), "driver_self": case.driver_self, "shutdown": case.shutdown, "choices": choices}));
    });
    let mut total = Acc::new();
    for a in accs {
        total.merge(a);
    }
    total.count("cases", cs.len() as u64);
    for i in [0, cs.len() / 2, cs.len() - 1] {
        total.samples.push(json!(format!("{:?}", cs[i])));
    }
    rep.finish(total)
}

pub fn replay(r: &Value) -> i32 {
    let case = Case {
        me: if r["me"] == "server" { Endpoint::Server } else { Endpoint::Client },
        kinds: r["kinds"].as_array().unwrap().iter().map(|k| kind_from(k.as_str().unwrap())).collect(),
        driver_self: r["driver_self"].as_bool().unwrap(),
        shutdown: r["shutdown"].as_bool().unwrap_or(false),
    };
    let choices: Vec<u32> = r["choices"].as_array().unwrap().iter().map(|v| v.as_u64().unwrap() as u32).collect();
    println!("case: {case:?} schedule {choices:?}");
    let (o1, _, d1) = dfs::replay(&choices, || execute(&case));
    let (o2, _, d2) = dfs::replay(&choices, || execute(&case));
    if let Some(d) = d1.or(d2) {
        println!("REPLAY DIVERGED: {d}");
        return 2;
    }
    if o1 != o2 {
        println!("REPLAY NOT DETERMINISTIC:\n{o1:?}\n{o2:?}");
        return 2;
    }
    println!("outcome: {o1:?}");
    let v = judge(&case, &o1);
    for (sig, msg) in &v {
        println!("observed: {sig}: {msg}");
    }
    if v.is_empty() {
        println!("observed: no violation");
        0
    } else {
        1
    }
}
