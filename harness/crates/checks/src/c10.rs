//! C10 — the field-section size limit is enforced exactly, in both directions.
//!
//! Receive: limits L x sections whose RFC 9114 4.2.2 size sweeps L-2..L+2 (by stretching a value
//! and by adding a field), reference-encoded and injected by a scripted peer as request headers,
//! response headers, request trailers and response trailers; plus the 431 path against the
//! client's advertised limit. Send: the same sweep through send_request / send_response /
//! send_trailers with the peer's SETTINGS arriving before the attempt, after it, or never.
//! Oracle: refimpl::fields::section_size and the wire log decoded by refimpl::qpack.

use crate::scen::*;
use crate::Args;
use explore::report::{Acc, Report, Tier};
use explore::{hex, Fnv};
use h3::ConnectionState;
use refimpl::fields::{section_size, Field};
use refimpl::frames as rf;
use refimpl::qpack as rq;
use refimpl::settings as rs;
use serde_json::{json, Value};
use simnet::exec::yield_now;
use simnet::{Exec, Net, NetCfg, SimConn, CLIENT, SERVER};
use std::sync::Arc;

const VARINT_MAX: u64 = (1 << 62) - 1;

fn f(n: &str, v: &[u8]) -> Field {
    (n.as_bytes().to_vec(), v.to_vec())
}

#[derive(Clone, Copy, Debug, PartialEq, Eq)]
pub enum Slot {
    Request,
    Response,
    RequestTrailers,
    ResponseTrailers,
}

fn base_fields(slot: Slot) -> Vec<Field> {
    match slot {
        // smallest request h3 can deliver: CONNECT + authority
        Slot::Request => vec![f(":method", b"CONNECT"), f(":authority", b"a")],
        Slot::Response => vec![f(":status", b"200")],
        _ => vec![],
    }
}

/// A section of exactly `target` bytes (RFC size) for the slot, or None if the base is larger.
/// `by_adding`: reach the size with an extra field (exercises the +32) instead of stretching one.
fn section_of_size(slot: Slot, target: u64, by_adding: bool) -> Option<Vec<Field>> {
    section_of_size_n(slot, target, by_adding, "p")
}

/// The same with the name of the added field given (a name of the QPACK static table lets the section be sent
/// with static name references).
fn section_of_size_n(slot: Slot, target: u64, by_adding: bool, name: &str) -> Option<Vec<Field>> {
    let mut fields = base_fields(slot);
    let base = section_size(&fields);
    if target < base {
        return None;
    }
    if target == base {
        return Some(fields);
    }
    let extra = target - base;
    if by_adding || fields.is_empty() {
        // one more field "p": value: needs extra >= 33
        let min = 32 + name.len() as u64;
        if extra < min {
            return None;
        }
        fields.push(f(name, &vec![b'v'; (extra - min) as usize]));
        Some(fields)
    } else {
        // stretch the last value
        let last = fields.last_mut().unwrap();
        let fill = if last.0 == b":status" { return section_of_size_n(slot, target, true, name) } else { b'a' };
        last.1.extend(std::iter::repeat(fill).take(extra as usize));
        Some(fields)
    }
}

// ------------------------------------------------------------------------------------------------
// receive

#[derive(Clone, Debug)]
pub struct RecvCase {
    pub slot: Slot,
    pub limit: u64,
    pub fields: Vec<Field>,
    /// what the peer (when it is the client) advertises as ITS limit: decides whether a 431 fits
    pub peer_limit: Option<u64>,
    /// client slots: the request goes through a CLONE of the SendRequest handle (a documented use)
    pub via_clone: bool,
    /// the peer sends every field line in its best static-table representation (indexed, or a literal with a
    /// static name reference) instead of as a literal with a literal name
    pub static_repr: bool,
}

#[derive(Debug, Clone, Default, PartialEq, Eq)]
pub struct RecvOutcome {
    pub msg: Option<MsgObs>,
    pub close_calls: Vec<u64>,
    pub panics: Vec<(String, String)>,
    /// what `me` wrote on stream 0
    pub wire: Vec<u8>,
    pub stops: Vec<u64>,
}

pub fn recv_run(case: &RecvCase) -> RecvOutcome {
    fastrand::seed(1);
    let server_me = matches!(case.slot, Slot::Request | Slot::RequestTrailers);
    let (me, peer) = if server_me { (SERVER, CLIENT) } else { (CLIENT, SERVER) };
    let net = Net::new(NetCfg::default());
    let mut ex = Exec::new();
    let drv = shared(DriverObs::default());
    let handlers: Shared<Vec<Shared<MsgObs>>> = shared(Vec::new());
    let client_msg = shared(MsgObs::default());
    let settled = shared(false);
    if server_me {
        let mut b = h3::server::builder();
        b.send_grease(false).max_field_section_size(case.limit);
        // every other setter is called AFTER the limit, with its default: none of them may touch the limit
        b.enable_webtransport(false).enable_extended_connect(false).enable_datagram(false);
        ex.spawn("main", server_main(net.clone(), b, ex.spawner(), drv.clone(), handlers.clone(), false, 0));
    } else {
        let (net2, msg2, sp, limit) = (net.clone(), client_msg.clone(), ex.spawner(), case.limit);
        let via_clone = case.via_clone;
        ex.spawn("main", async move {
            let mut b = h3::client::builder();
            b.send_grease(false).max_field_section_size(limit);
            b.enable_extended_connect(false).enable_datagram(false);
            let (mut conn, mut sr): (CliConn, CliSend) = b.build(SimConn::new(&net2, CLIENT)).await.unwrap();
            sp.spawn("driver", async move {
                let _ = std::future::poll_fn(|cx| conn.poll_close(cx)).await;
                std::future::pending::<()>().await;
                drop(conn);
            });
            let mut used = if via_clone { sr.clone() } else { sr.clone() };
            if !via_clone {
                std::mem::swap(&mut used, &mut sr); // the original handle itself
            }
            match used.send_request(http::Request::get("https://a/").body(()).unwrap()).await {
                Ok(mut s) => {
                    let _ = s.finish().await;
                    client_reader(s, msg2.clone()).await;
                }
                Err(e) => msg2.borrow_mut().head = format!("send_request:{}", stream_class(&e)),
            }
            std::future::pending::<()>().await;
            drop((sr, used));
        });
    }
    {
        let (net, case, settled) = (net.clone(), case.clone(), settled.clone());
        ex.spawn("script", async move {
            let ctrl = if peer == CLIENT { CLIENT_CTRL } else { SERVER_CTRL };
            net.raw_open(ctrl);
            let sp = match case.peer_limit {
                Some(l) => rs::encode(&[(rs::MAX_FIELD_SECTION_SIZE, l)]),
                None => vec![],
            };
            net.raw_write(peer, ctrl, &control_preamble(&sp));
            // let the endpoint apply our SETTINGS before the message arrives
            for _ in 0..6 {
                yield_now().await;
            }
            *settled.borrow_mut() = true;
            if peer == CLIENT {
                net.raw_open(0);
            } else {
                let mut spins = 0;
                while !net.lock().streams.contains_key(&0) {
                    spins += 1;
                    if spins > 200 {
                        return;
                    }
                    yield_now().await;
                }
            }
            let section = if case.static_repr { rq::encode_static_section(&case.fields, false) } else { rq::encode_literal_section(&case.fields, false) };
            let mut bytes = Vec::new();
            match case.slot {
                Slot::Request | Slot::Response => bytes.extend(rf::frame(rf::HEADERS, &section)),
                Slot::RequestTrailers => {
                    bytes.extend(rf::frame(rf::HEADERS, &rq::encode_literal_section(&base_fields(Slot::Request), false)));
                    bytes.extend(rf::frame(rf::HEADERS, &section));
                }
                Slot::ResponseTrailers => {
                    bytes.extend(rf::frame(rf::HEADERS, RESP_SECTION));
                    bytes.extend(rf::frame(rf::HEADERS, &section));
                }
            }
            net.raw_write(peer, 0, &bytes);
            net.raw_fin(peer, 0);
        });
    }
    let q = ex.run(6000, |_| {});
    let msg = if server_me { handlers.borrow().first().map(|m| m.borrow().clone()) } else { Some(client_msg.borrow().clone()) };
    RecvOutcome {
        msg,
        close_calls: net.close_calls(me).iter().map(|c| c.0).collect(),
        panics: q.panics,
        wire: net.wire(me, 0),
        stops: net.stop_calls(me, 0),
    }
}

fn has_431(wire: &[u8]) -> bool {
    let (frames, _) = rf::segment(wire);
    frames.iter().filter(|f| f.ty == rf::HEADERS).any(|f| match rq::decode_static_only(&f.payload) {
        Ok(fs) => fs.iter().any(|(n, v)| n == b":status" && v == b"431"),
        Err(_) => false,
    })
}

pub fn judge_recv(case: &RecvCase, o: &RecvOutcome) -> Vec<(String, String)> {
    let slot = format!("{:?}", case.slot);
    let size = section_size(&case.fields);
    let ctx = format!("{slot}: receiver limit {}, section of {} fields and RFC size {size}, peer advertises {:?}", case.limit, case.fields.len(), case.peer_limit);
    let mut out = Vec::new();
    for (t, p) in &o.panics {
        out.push((format!("C10:recv:{slot}:panic@{}", explore::panics::short_loc(p)), format!("{ctx}: task {t} panicked: {p}")));
    }
    let Some(m) = &o.msg else {
        out.push((format!("C10:recv:{slot}:never-accepted"), format!("{ctx}: the stream never reached the application")));
        return out;
    };
    // a request whose own head exceeds the limit never reaches the trailers
    let head_size = match case.slot {
        Slot::RequestTrailers => section_size(&base_fields(Slot::Request)),
        Slot::ResponseTrailers => section_size(&[f(":status", b"200")]),
        _ => 0,
    };
    if head_size > case.limit {
        return out;
    }
    let result: &str = match case.slot {
        Slot::Request | Slot::Response => &m.head,
        _ => &m.trailers,
    };
    let too_big = result.starts_with("HeaderTooBig(");
    let delivered = result == "ok" || result.starts_with("some:") || result == "none";
    let rel = if size > case.limit { "over" } else if size == case.limit { "equal" } else { "under" };
    if size > case.limit {
        if !too_big {
            out.push((
                format!("C10:recv:{slot}:oversize-not-refused:{}", if delivered { "delivered" } else { result }),
                format!("{ctx}: size exceeds the limit by {}; result {result:?}", size - case.limit),
            ));
        }
        // (the numbers carried by the error are not part of the property: when the 431 itself does
        // not fit, h3 reports the 431's size against the client's limit)
        if case.slot == Slot::Request {
            // 431 unless that response would itself exceed the client's limit
            let fits = case.peer_limit.unwrap_or(VARINT_MAX) >= section_size(&[f(":status", b"431")]);
            if has_431(&o.wire) != fits {
                out.push((
                    format!("C10:recv:{slot}:431-{}", if fits { "missing" } else { "sent-over-client-limit" }),
                    format!("{ctx}: the 431 response has size 42; server wrote {} on the request stream", hex(&o.wire)),
                ));
            }
        }
    } else if too_big {
        out.push((
            format!("C10:recv:{slot}:refused-within-limit:{rel}"),
            format!("{ctx}: size is within the limit; result {result:?}"),
        ));
    } else if !delivered {
        out.push((format!("C10:recv:{slot}:within-limit-not-delivered:{result}"), format!("{ctx}: result {result:?}, {m:?}")));
    }
    if !o.close_calls.is_empty() {
        out.push((format!("C10:recv:{slot}:connection-closed:{:#x}", o.close_calls[0]), format!("{ctx}: close calls {:x?}", o.close_calls)));
    }
    out
}

// ------------------------------------------------------------------------------------------------
// send

#[derive(Clone, Copy, Debug, PartialEq, Eq)]
pub enum When {
    Before,
    /// after the request stream exists at the endpoint (request sent / accepted and resolved), but before
    /// the oversized section is attempted: the limit in force at the attempt is the advertised one
    Between,
    /// send_request only: the call is parked waiting for stream credit when the SETTINGS arrive and are applied;
    /// the credit comes afterwards, so the HEADERS frame is written with the advertised limit in force
    DuringOpen,
    /// server slots: a first request has been answered (with a small response) BEFORE the client's SETTINGS
    /// arrive; they are then applied, and the attempt is made on a second request of the same connection
    AfterFirstExchange,
    /// server slots: the client's SETTINGS and its request are both there before the server looks at the connection
    /// for the first time, and the request is answered inline (`accept()` is not polled again before the answer)
    Together,
    After,
    Never,
}

#[derive(Clone, Debug)]
pub struct SendCase {
    pub slot: Slot,
    /// the limit the PEER advertises
    pub limit: u64,
    /// RFC size of the section the application tries to send
    pub size: u64,
    pub by_adding: bool,
    /// the stretched field is a `cookie` with three cookie-pairs (RFC 9114 4.2.1 lets a sender split it into one field
    /// line per pair, which makes the section LARGER on the wire than what the application handed over)
    pub cookie: bool,
    pub when: When,
}

#[derive(Debug, Clone, Default, PartialEq, Eq)]
pub struct SendOutcome {
    pub result: String,
    pub wire: Vec<u8>,
    pub applied: bool,
    pub close_calls: Vec<u64>,
    pub panics: Vec<(String, String)>,
}

/// Fields the application hands to the API so that the section has exactly `size`.
fn api_fields_c(slot: Slot, size: u64, by_adding: bool, cookie: bool) -> Option<(Vec<Field>, usize)> {
    if !cookie {
        return api_fields(slot, size, by_adding);
    }
    let fixed = api_fixed(slot);
    let base = section_size(&fixed);
    let lead = b"a=1; b=2; c=";
    let need = 32 + 6 + lead.len() as u64;
    if size < base + need {
        return None;
    }
    let mut v = lead.to_vec();
    v.extend(std::iter::repeat(b'v').take((size - base - need) as usize));
    let mut all = fixed;
    all.push(f("cookie", &v));
    Some((all, 1))
}

fn api_fixed(slot: Slot) -> Vec<Field> {
    match slot {
        Slot::Request => vec![f(":method", b"GET"), f(":scheme", b"https"), f(":authority", b"a"), f(":path", b"/")],
        Slot::Response => vec![f(":status", b"200")],
        _ => vec![],
    }
}

fn api_fields(slot: Slot, size: u64, by_adding: bool) -> Option<(Vec<Field>, usize)> {
    // what h3 itself adds: request => :method GET, :scheme https, :authority a, :path /
    let fixed: Vec<Field> = match slot {
        Slot::Request => vec![f(":method", b"GET"), f(":scheme", b"https"), f(":authority", b"a"), f(":path", b"/")],
        Slot::Response => vec![f(":status", b"200")],
        _ => vec![],
    };
    let base = section_size(&fixed);
    if size < base {
        return None;
    }
    let extra = size - base;
    let mut regs: Vec<Field> = Vec::new();
    if extra > 0 {
        if by_adding {
            // two fields
            if extra < 66 {
                return None;
            }
            regs.push(f("p", b""));
            regs.push(f("q", &vec![b'v'; (extra - 66) as usize]));
        } else {
            if extra < 33 {
                return None;
            }
            regs.push(f("p", &vec![b'v'; (extra - 33) as usize]));
        }
    }
    let mut all = fixed;
    all.extend(regs.iter().cloned());
    Some((all, regs.len()))
}

pub fn send_run(c: &SendCase) -> SendOutcome {
    fastrand::seed(1);
    let client_me = matches!(c.slot, Slot::Request | Slot::RequestTrailers);
    let (me, peer) = if client_me { (CLIENT, SERVER) } else { (SERVER, CLIENT) };
    let mut ncfg = NetCfg::default();
    let during_open = c.when == When::DuringOpen;
    if during_open {
        ncfg.bidi_credit[CLIENT] = Some(0);
    }
    let net = Net::new(ncfg);
    let mut ex = Exec::new();
    let res = shared(String::new());
    let state: Shared<Option<Arc<h3::SharedState>>> = shared(None);
    let go = shared(false);
    let sent = shared(false);
    let created = shared(false);
    let between = c.when == When::Between;
    let (all, _) = api_fields_c(c.slot, c.size, c.by_adding, c.cookie).expect("reachable size");
    let regs: Vec<Field> = all.iter().filter(|(n, _)| n[0] != b':').cloned().collect();
    let hm = {
        let mut h = http::HeaderMap::new();
        for (n, v) in &regs {
            h.append(http::header::HeaderName::from_bytes(n).unwrap(), http::HeaderValue::from_bytes(v).unwrap());
        }
        h
    };
    if client_me {
        let (net2, res2, st2, go2, sent2, slot, hm2) = (net.clone(), res.clone(), state.clone(), go.clone(), sent.clone(), c.slot, hm.clone());
        let created2 = created.clone();
        let sp = ex.spawner();
        ex.spawn("main", async move {
            let mut b = h3::client::builder();
            b.send_grease(false);
            let (mut conn, mut sr): (CliConn, CliSend) = b.build(SimConn::new(&net2, CLIENT)).await.unwrap();
            *st2.borrow_mut() = Some(conn.inner.shared.clone());
            sp.spawn("driver", async move {
                let _ = std::future::poll_fn(|cx| conn.poll_close(cx)).await;
                std::future::pending::<()>().await;
                drop(conn);
            });
            let early = (between && slot == Slot::RequestTrailers) || during_open;
            let mut spins = 0;
            while !early && !*go2.borrow() && spins < 400 {
                spins += 1;
                yield_now().await;
            }
            let r = async {
                let mut req = http::Request::get("https://a/").body(()).unwrap();
                if slot == Slot::Request {
                    *req.headers_mut() = hm2.clone();
                }
                let mut s = sr.send_request(req).await?;
                *created2.borrow_mut() = true;
                let mut spins = 0;
                while early && !*go2.borrow() && spins < 800 {
                    spins += 1;
                    yield_now().await;
                }
                if slot == Slot::RequestTrailers {
                    s.send_trailers(hm2.clone()).await?;
                }
                s.finish().await
            }
            .await;
            *res2.borrow_mut() = match r {
                Ok(()) => "ok".into(),
                Err(e) => stream_class(&e),
            };
            *sent2.borrow_mut() = true;
            std::future::pending::<()>().await;
            drop(sr);
        });
    } else {
        let (net2, res2, st2, go2, sent2, slot, hm2) = (net.clone(), res.clone(), state.clone(), go.clone(), sent.clone(), c.slot, hm.clone());
        let created2 = created.clone();
        let first_exchange = c.when == When::AfterFirstExchange;
        let together = c.when == When::Together;
        let sp = ex.spawner();
        ex.spawn("main", async move {
            let mut b = h3::server::builder();
            b.send_grease(false);
            let mut conn: SrvConn = b.build(SimConn::new(&net2, SERVER)).await.unwrap();
            *st2.borrow_mut() = Some(conn.inner.shared.clone());
            if first_exchange {
                // request on stream 0: answered right away, before any SETTINGS of the peer
                let r0 = match conn.accept().await {
                    Ok(Some(r)) => r,
                    _ => return,
                };
                if let Ok((_req, mut s0)) = r0.resolve_request().await {
                    let _ = s0.send_response(http::Response::builder().status(200).body(()).unwrap()).await;
                    let _ = s0.finish().await;
                }
                *created2.borrow_mut() = true;
            }
            let resolver = match conn.accept().await {
                Ok(Some(r)) => r,
                _ => return,
            };
            if together {
                // the sequential server loop: the request is handled before accept() is polled again
                let r = async {
                    let (_req, mut s) = resolver.resolve_request().await?;
                    let mut resp = http::Response::builder().status(200).body(()).unwrap();
                    if slot == Slot::Response {
                        *resp.headers_mut() = hm2.clone();
                    }
                    s.send_response(resp).await?;
                    if slot == Slot::ResponseTrailers {
                        s.send_trailers(hm2.clone()).await?;
                    }
                    s.finish().await
                }
                .await;
                *res2.borrow_mut() = match r {
                    Ok(()) => "ok".into(),
                    Err(e) => stream_class(&e),
                };
                *sent2.borrow_mut() = true;
                let _ = conn.accept().await;
                std::future::pending::<()>().await;
                drop(conn);
                return;
            }
            // keep driving the connection (control stream) while the handler works
            sp.spawn("driver", async move {
                let _ = conn.accept().await;
                std::future::pending::<()>().await;
                drop(conn);
            });
            let r = async {
                let (_req, mut s) = resolver.resolve_request().await?;
                *created2.borrow_mut() = true;
                let mut spins = 0;
                while !*go2.borrow() && spins < 800 {
                    spins += 1;
                    yield_now().await;
                }
                let mut resp = http::Response::builder().status(200).body(()).unwrap();
                if slot == Slot::Response {
                    *resp.headers_mut() = hm2.clone();
                }
                s.send_response(resp).await?;
                if slot == Slot::ResponseTrailers {
                    s.send_trailers(hm2.clone()).await?;
                }
                s.finish().await
            }
            .await;
            *res2.borrow_mut() = match r {
                Ok(()) => "ok".into(),
                Err(e) => stream_class(&e),
            };
            *sent2.borrow_mut() = true;
        });
    }
    {
        let (net, c, go, sent, state) = (net.clone(), c.clone(), go.clone(), sent.clone(), state.clone());
        let created = created.clone();
        ex.spawn("script", async move {
            let ctrl = if peer == CLIENT { CLIENT_CTRL } else { SERVER_CTRL };
            let settings = control_preamble(&rs::encode(&[(rs::MAX_FIELD_SECTION_SIZE, c.limit)]));
            if c.when == When::Together {
                // SETTINGS first, the request right behind them, nothing in between
                net.raw_open(ctrl);
                net.raw_write(peer, ctrl, &settings);
            }
            if peer == CLIENT {
                net.raw_open(0);
                net.raw_write(CLIENT, 0, &rf::frame(rf::HEADERS, REQ_SECTION));
                net.raw_fin(CLIENT, 0);
            }
            match c.when {
                When::Together => {
                    *go.borrow_mut() = true;
                }
                When::Before => {
                    net.raw_open(ctrl);
                    net.raw_write(peer, ctrl, &settings);
                    // wait until the endpoint has applied them
                    let mut spins = 0;
                    loop {
                        let applied = state.borrow().as_ref().map(|s| limit_is(&s.settings(), c.limit)).unwrap_or(false);
                        if applied || spins > 300 {
                            break;
                        }
                        spins += 1;
                        yield_now().await;
                    }
                    *go.borrow_mut() = true;
                }
                When::Between => {
                    // (for the Request slot the stream is created by the attempt itself: same as Before)
                    let wait_for_stream = c.slot != Slot::Request;
                    let mut spins = 0;
                    while wait_for_stream && !*created.borrow() && spins < 400 {
                        spins += 1;
                        yield_now().await;
                    }
                    net.raw_open(ctrl);
                    net.raw_write(peer, ctrl, &settings);
                    let mut spins = 0;
                    loop {
                        let applied = state.borrow().as_ref().map(|s| limit_is(&s.settings(), c.limit)).unwrap_or(false);
                        if applied || spins > 300 {
                            break;
                        }
                        spins += 1;
                        yield_now().await;
                    }
                    *go.borrow_mut() = true;
                }
                When::DuringOpen => {
                    // let the client call send_request and park on the missing stream credit
                    for _ in 0..6 {
                        yield_now().await;
                    }
                    net.raw_open(ctrl);
                    net.raw_write(peer, ctrl, &settings);
                    let mut spins = 0;
                    loop {
                        let applied = state.borrow().as_ref().map(|s| limit_is(&s.settings(), c.limit)).unwrap_or(false);
                        if applied || spins > 300 {
                            break;
                        }
                        spins += 1;
                        yield_now().await;
                    }
                    net.raw_grant_bidi(CLIENT, 1);
                    *go.borrow_mut() = true;
                }
                When::AfterFirstExchange => {
                    // wait for the first answer, then advertise the limit, then send the second request
                    let mut spins = 0;
                    while !*created.borrow() && spins < 600 {
                        spins += 1;
                        yield_now().await;
                    }
                    net.raw_open(ctrl);
                    net.raw_write(peer, ctrl, &settings);
                    let mut spins = 0;
                    loop {
                        let applied = state.borrow().as_ref().map(|s| limit_is(&s.settings(), c.limit)).unwrap_or(false);
                        if applied || spins > 300 {
                            break;
                        }
                        spins += 1;
                        yield_now().await;
                    }
                    net.raw_open(4);
                    net.raw_write(CLIENT, 4, &rf::frame(rf::HEADERS, REQ_SECTION));
                    net.raw_fin(CLIENT, 4);
                    *go.borrow_mut() = true;
                }
                When::After => {
                    *go.borrow_mut() = true;
                    let mut spins = 0;
                    while !*sent.borrow() && spins < 600 {
                        spins += 1;
                        yield_now().await;
                    }
                    net.raw_open(ctrl);
                    net.raw_write(peer, ctrl, &settings);
                }
                When::Never => {
                    net.raw_open(ctrl);
                    net.raw_write(peer, ctrl, &control_preamble(&[]));
                    *go.borrow_mut() = true;
                }
            }
        });
    }
    let q = ex.run(10_000, |_| {});
    let result = res.borrow().clone();
    SendOutcome {
        result,
        wire: net.wire(me, if c.when == When::AfterFirstExchange { 4 } else { 0 }),
        applied: matches!(c.when, When::Before | When::Between | When::DuringOpen | When::AfterFirstExchange | When::Together),
        close_calls: net.close_calls(me).iter().map(|c| c.0).collect(),
        panics: q.panics,
    }
}

/// `Settings::max_field_section_size` has no public getter; the applied value is observed
/// through the Debug rendering of the shared settings.
fn limit_is<T: std::fmt::Debug>(settings: &T, v: u64) -> bool {
    format!("{:?}", settings).contains(&format!("max_field_section_size: {v},"))
}

pub fn judge_send(c: &SendCase, o: &SendOutcome) -> Vec<(String, String)> {
    let slot = format!("{:?}", c.slot);
    let ctx = format!("{slot}: peer limit {} delivered {:?} the attempt, application section RFC size {} ({})", c.limit, c.when, c.size, if c.cookie { "a cookie field with three pairs" } else if c.by_adding { "two extra fields" } else { "one stretched field" });
    let mut out = Vec::new();
    for (t, p) in &o.panics {
        out.push((format!("C10:send:{slot}:panic@{}", explore::panics::short_loc(p)), format!("{ctx}: task {t} panicked: {p}")));
    }
    let in_force = if matches!(c.when, When::Before | When::Between | When::DuringOpen | When::AfterFirstExchange | When::Together) { c.limit } else { VARINT_MAX };
    // 1. nothing over the limit in force on the wire
    let (frames, _) = rf::segment(&o.wire);
    let heads: Vec<&rf::Frame> = frames.iter().filter(|f| f.ty == rf::HEADERS).collect();
    let target_index = match c.slot {
        Slot::Request | Slot::Response => 0,
        _ => 1,
    };
    // (Between + request trailers: the request head went out before the peer's SETTINGS arrived)
    let head_before_settings = c.when == When::Between && c.slot == Slot::RequestTrailers;
    for (i, hf) in heads.iter().enumerate() {
        match rq::decode_static_only(&hf.payload) {
            Ok(fs) => {
                let s = section_size(&fs);
                let in_force = if head_before_settings && i == 0 { VARINT_MAX } else { in_force };
                if s > in_force {
                    out.push((
                        format!("C10:send:{slot}:oversize-on-wire:by={}", s - in_force),
                        format!("{ctx}: HEADERS frame #{i} on the wire has RFC size {s}, limit in force {in_force}"),
                    ));
                }
                // (a cookie may legitimately go out as one field line per pair: then the wire section is larger)
                if i == target_index && s != c.size && !(c.cookie && s > c.size) {
                    out.push((format!("C10:send:{slot}:harness-size-mismatch"), format!("{ctx}: wire section has size {s}")));
                }
            }
            Err(e) => out.push((format!("C10:send:{slot}:section-not-decodable"), format!("{ctx}: {e:?}"))),
        }
    }
    // 2. the result of the call
    let head_blocked = !head_before_settings && matches!(c.slot, Slot::RequestTrailers) && section_size(&[f(":method", b"GET"), f(":scheme", b"https"), f(":authority", b"a"), f(":path", b"/")]) > in_force
        || matches!(c.slot, Slot::ResponseTrailers) && section_size(&[f(":status", b"200")]) > in_force;
    if head_blocked {
        return out;
    }
    if c.size > in_force {
        let want = format!("HeaderTooBig({},{})", c.size, in_force);
        if !o.result.starts_with("HeaderTooBig(") {
            out.push((
                format!("C10:send:{slot}:oversize-send-result:{}", if o.result == "ok" { "ok" } else { "other" }),
                format!("{ctx}: expected {want}, got {:?}", o.result),
            ));
        }
    } else if o.result != "ok" && !(c.cookie && o.result.starts_with("HeaderTooBig(")) {
        out.push((
            format!("C10:send:{slot}:refused-within-limit:{}", if matches!(c.when, When::Before | When::Between | When::DuringOpen | When::AfterFirstExchange | When::Together) { "limit-applied" } else { "before-settings" }),
            format!("{ctx}: limit in force {in_force}; send returned {:?}", o.result),
        ));
    }
    if !o.close_calls.is_empty() {
        out.push((format!("C10:send:{slot}:connection-closed"), format!("{ctx}: close calls {:x?}", o.close_calls)));
    }
    out
}

pub fn run(args: &Args) -> i32 {
    let thorough = args.tier == Tier::Thorough;
    let mut rep = Report::new("C10", args.tier, args.seed, "model_checking");
    rep.exhaustive = true;
    rep.rule = "receive (the limit is configured first and every other builder setter is called after it with its default value): limits {0, 1, 33, 34, 35, 64, 89, 100, 167, 16383, 2^62-1} x sections whose RFC size sweeps L-2..L+2 (built by stretching one value and by adding a field, so the per-field +32 is exercised) plus the empty and the minimal section, reference-encoded (literal representations; and again with the added field named `age`, a name of the QPACK static table, every line in its best static-table representation - indexed or literal with a static name reference) and injected by a scripted peer as request headers, response headers, request trailers, response trailers (client side: through the original SendRequest handle and through a clone of it); the 431 path with the client advertising {nothing, 41, 42, 43}. send: the same limits advertised by a scripted peer x application sections sweeping L-2..L+2 x {send_request, send_response, request trailers, response trailers} x SETTINGS delivered {before the stream exists (and applied), after the stream exists but before the attempt (and applied), while send_request is parked waiting for stream credit (and applied before the credit comes), after a first request of the connection has been answered (the attempt is made on a second request), together with the request before the server first looks at the connection (request answered inline, accept() not polled again before the answer), after the attempt, never}; every size also reached with a cookie field of three cookie-pairs (which a sender may split into one field line per pair); every HEADERS frame on the wire is decoded and measured by refimpl. states = distinct cases; non-trivial = cases at distance <= 2 from the limit.".into();
    rep.assumptions = vec![
        "refimpl::fields::section_size = sum(name + value + 32) (RFC 9114 4.2.2)".into(),
        "the smallest request h3 delivers (CONNECT + :authority) has size 89: smaller limits are exercised at the boundary through trailers (regular fields only) and with always-oversize heads".into(),
    ];
    rep.bound_note = "exhaustive over the stated grid".into();
    let limits: Vec<u64> = vec![0, 1, 33, 34, 35, 64, 89, 100, 167, 16383, VARINT_MAX];
    let mut rcases: Vec<RecvCase> = Vec::new();
    for slot in [Slot::Request, Slot::Response, Slot::RequestTrailers, Slot::ResponseTrailers] {
        for &l in &limits {
            let mut sizes: Vec<u64> = vec![0, section_size(&base_fields(slot)), 33, 34, 66, 200];
            if l < VARINT_MAX {
                for d in -2i64..=2 {
                    if l as i64 + d >= 0 {
                        sizes.push((l as i64 + d) as u64);
                    }
                }
            } else {
                sizes.extend([70000, 16384]);
            }
            sizes.sort_unstable();
            sizes.dedup();
            for s in sizes {
                for by_adding in [false, true] {
                    // the same size reached with a field whose NAME is in the static table ("age"), every line sent in its
                    // best static representation: the size counted is that of the field received, not of the table entry
                    if let Some(fields) = section_of_size_n(slot, s, by_adding, "age") {
                        rcases.push(RecvCase { slot, limit: l, fields, peer_limit: None, via_clone: false, static_repr: true });
                    }
                    if let Some(fields) = section_of_size(slot, s, by_adding) {
                        let peers: &[Option<u64>] = if slot == Slot::Request { &[None, Some(41), Some(42), Some(43)] } else { &[None] };
                        for &p in peers {
                            rcases.push(RecvCase { slot, limit: l, fields: fields.clone(), peer_limit: p, via_clone: false, static_repr: false });
                            if matches!(slot, Slot::Response | Slot::ResponseTrailers) {
                                rcases.push(RecvCase { slot, limit: l, fields: fields.clone(), peer_limit: p, via_clone: true, static_repr: false });
                            }
                        }
                    }
                }
            }
        }
    }
    let mut accs = explore::par::run(&rcases, Acc::new, |_, c, acc| {
        let o = recv_run(c);
        acc.evaluations += 1;
        acc.dfs.executions += 1;
        acc.transitions += 8;
        let size = section_size(&c.fields);
        let mut h = Fnv::new();
        h.str(&format!("{:?}{}{}{:?}{}", c.slot, c.limit, size, c.peer_limit, c.fields.len() + 100 * c.static_repr as usize));
        acc.states.insert(h.finish());
        if (size as i128 - c.limit as i128).abs() <= 2 {
            acc.nontrivial.insert(h.finish());
        }
        let mut h = Fnv::new();
        h.str(&format!("{:?}", o.msg.as_ref().map(|m| (m.head.split('(').next().unwrap_or("").to_string(), m.trailers.split('(').next().unwrap_or("").to_string()))));
        h.u64(has_431(&o.wire) as u64);
        acc.outcomes.insert(h.finish());
        for (sig, msg) in judge_recv(c, &o) {
            acc.violation(sig, msg, (0, c.fields.len()), || json!({"kind":"recv","slot":format!("{:?}", c.slot),"limit":c.limit.to_string(),"peer_limit":c.peer_limit.map(|p| p.to_string()),"via_clone":c.via_clone,"static_repr":c.static_repr,"fields":c.fields.iter().map(|(n,v)| json!([hex(n),hex(v)])).collect::<Vec<_>>()}));
        }
    });
    let mut scases: Vec<SendCase> = Vec::new();
    for slot in [Slot::Request, Slot::Response, Slot::RequestTrailers, Slot::ResponseTrailers] {
        for &l in &limits {
            let mut sizes: Vec<u64> = vec![0, 33, 66, 74, 167, 200, 233];
            if l < VARINT_MAX {
                for d in -2i64..=2 {
                    if l as i64 + d >= 0 {
                        sizes.push((l as i64 + d) as u64);
                    }
                }
            } else {
                sizes.extend([70000]);
            }
            sizes.sort_unstable();
            sizes.dedup();
            for s in sizes {
                for by_adding in [false, true] {
                    if api_fields(slot, s, by_adding).is_none() {
                        continue;
                    }
                    for when in [When::Before, When::Between, When::DuringOpen, When::AfterFirstExchange, When::Together, When::After, When::Never] {
                        if when == When::DuringOpen && slot != Slot::Request {
                            continue;
                        }
                        if matches!(when, When::AfterFirstExchange | When::Together) && !matches!(slot, Slot::Response | Slot::ResponseTrailers) {
                            continue;
                        }
                        scases.push(SendCase { slot, limit: l, size: s, by_adding, cookie: false, when });
                    }
                }
                // the same size reached with a cookie of three pairs (SETTINGS applied before the attempt)
                if api_fields_c(slot, s, false, true).is_some() {
                    scases.push(SendCase { slot, limit: l, size: s, by_adding: false, cookie: true, when: When::Before });
                }
            }
        }
    }
    let _ = thorough;
    accs.extend(explore::par::run(&scases, Acc::new, |_, c, acc| {
        let o = send_run(c);
        acc.evaluations += 1;
        acc.dfs.executions += 1;
        acc.transitions += 8;
        let mut h = Fnv::new();
        h.str(&format!("{c:?}"));
        acc.states.insert(h.finish());
        if (c.size as i128 - c.limit as i128).abs() <= 2 {
            acc.nontrivial.insert(h.finish());
        }
        acc.outcomes.insert(explore::fnv_str(o.result.split('(').next().unwrap_or("")) ^ 0x55);
        for (sig, msg) in judge_send(c, &o) {
            acc.violation(sig, msg, (0, 0), || json!({"kind":"send","slot":format!("{:?}", c.slot),"limit":c.limit.to_string(),"size":c.size.to_string(),"by_adding":c.by_adding,"cookie":c.cookie,"when":format!("{:?}", c.when)}));
        }
    }));
    let mut total = Acc::new();
    for a in accs {
        total.merge(a);
    }
    total.count("receive_cases", rcases.len() as u64);
    total.count("send_cases", scases.len() as u64);
    total.samples.push(json!({"receive":"RequestTrailers","limit":34,"section":[["p","v"]],"rfc_size":34,"reference":"accepted (size == limit)"}));
    total.samples.push(json!({"receive":"Request","limit":100,"rfc_size":101,"peer_advertises":41,"reference":"HeaderTooBig, no 431 (42 > 41)"}));
    total.samples.push(json!({"send":"Response","peer_limit":100,"settings":"After","application_section_size":102,"reference":"sent (default limit in force)"}));
    rep.finish(total)
}

fn slot_from(s: &str) -> Slot {
    match s {
        "Request" => Slot::Request,
        "Response" => Slot::Response,
        "RequestTrailers" => Slot::RequestTrailers,
        _ => Slot::ResponseTrailers,
    }
}

pub fn replay(r: &Value) -> i32 {
    let v = match r["kind"].as_str() {
        Some("recv") => {
            let case = RecvCase {
                slot: slot_from(r["slot"].as_str().unwrap()),
                limit: r["limit"].as_str().unwrap().parse().unwrap(),
                peer_limit: r["peer_limit"].as_str().map(|s| s.parse().unwrap()),
                via_clone: r["via_clone"].as_bool().unwrap_or(false),
                static_repr: r["static_repr"].as_bool().unwrap_or(false),
                fields: r["fields"].as_array().unwrap().iter().map(|p| (explore::unhex(p[0].as_str().unwrap()), explore::unhex(p[1].as_str().unwrap()))).collect(),
            };
            let o = recv_run(&case);
            println!("outcome: {:?} close={:x?} wire={}", o.msg, o.close_calls, hex(&o.wire));
            judge_recv(&case, &o)
        }
        Some("send") => {
            let c = SendCase {
                slot: slot_from(r["slot"].as_str().unwrap()),
                limit: r["limit"].as_str().unwrap().parse().unwrap(),
                size: r["size"].as_str().unwrap().parse().unwrap(),
                by_adding: r["by_adding"].as_bool().unwrap(),
                cookie: r["cookie"].as_bool().unwrap_or(false),
                when: match r["when"].as_str().unwrap() {
                    "Before" => When::Before,
                    "Between" => When::Between,
                    "DuringOpen" => When::DuringOpen,
                    "AfterFirstExchange" => When::AfterFirstExchange,
                    "Together" => When::Together,
                    "After" => When::After,
                    _ => When::Never,
                },
            };
            let o = send_run(&c);
            println!("outcome: result {:?} wire {} close={:x?}", o.result, hex(&o.wire[..o.wire.len().min(64)]), o.close_calls);
            judge_send(&c, &o)
        }
        _ => return 2,
    };
    for (sig, msg) in &v {
        println!("observed: {sig}: {msg}");
    }
    if v.is_empty() {
        println!("observed: no violation");
        0
    } else {
        1
    }
}
