//! C07 — faults confined to one request never harm the connection or other requests.
//!
//! N concurrent requests on one connection; every non-empty subset suffers one stream-scoped
//! fault (peer RESET at several byte offsets, STOP_SENDING, a validly encoded but malformed
//! message, an oversized section, FIN before HEADERS). The faulty side is a scripted peer (a
//! conforming h3 endpoint cannot produce most of these), the side under test is a real h3 server
//! resp. client. All interleavings of handler / request tasks, the driver and the script with at
//! most k deviations (scheduling, chunk cuts, delayed delivery on every request stream).

use crate::scen::*;
use crate::Args;
use bytes::Bytes;
use explore::dfs::{self, Caps};
use explore::report::{Acc, Report, Tier};
use explore::{hex, Fnv};
use refimpl::frames as rf;
use refimpl::h3auto::{self as auto, Endpoint};
use refimpl::qpack as rq;
use serde_json::{json, Value};
use simnet::exec::yield_now;
use simnet::{Exec, Net, NetCfg, Policy, SimConn, CLIENT, SERVER};

#[derive(Clone, Copy, Debug, PartialEq, Eq)]
pub enum Plan {
    Healthy,
    /// RESET(code) after this many bytes of the healthy message
    ResetAt(usize, u64),
    StopSending(u64),
    /// STOP_SENDING(code) that is certainly known to the endpoint's transport BEFORE it sends on that request (the
    /// client's request task waits for it before its first send_data): the sending half must then report it
    StopSendingEarly(u64),
    MalformedUppercase,
    /// a head with a field line whose NAME is empty (validly encoded, malformed message)
    MalformedEmptyName,
    /// a healthy head and body, then trailers with an uppercase field name
    MalformedTrailers,
    MalformedNoMethodOrStatus,
    MalformedBadValue,
    Oversize,
    FinBeforeHeaders,
}

#[derive(Clone, Debug)]
pub struct Case {
    pub me: Endpoint,
    pub plans: Vec<Plan>,
    /// a graceful shutdown is under way while the requests run: the peer's GOAWAY (with an identifier that lets all
    /// of them continue) is delivered after they have been started and before the first fault
    pub goaway: bool,
}

/// every healthy head is padded to EXACTLY this RFC 9114 4.2.2 size: a healthy message sits at the limit, the
/// oversized one above it, the malformed ones below it
const LIMIT: u64 = 300;

/// the healthy head of the role, padded with one regular field to exactly LIMIT
fn healthy_head(me: Endpoint) -> Vec<u8> {
    healthy_head_for(me, 0)
}

/// The head of the healthy message on stream `id`. On stream 4 the padding consists of bytes whose Huffman codes are
/// 26 bits long and the section is Huffman-coded: the field section is still exactly LIMIT by the RFC 9114 4.2.2
/// rule, but its encoded form on the wire is more than twice the limit (the limit is about the decoded size only).
fn healthy_head_for(me: Endpoint, id: u64) -> Vec<u8> {
    let heavy = id == 4;
    let f = |n: &str, v: &[u8]| (n.as_bytes().to_vec(), v.to_vec());
    let mut fields = match me {
        Endpoint::Server => vec![f(":method", b"GET"), f(":scheme", b"https"), f(":authority", b"a"), f(":path", b"/")],
        Endpoint::Client => vec![f(":status", b"200")],
    };
    let have: u64 = fields.iter().map(|(n, v)| (n.len() + v.len() + 32) as u64).sum();
    let pad = (LIMIT - have - 3 - 32) as usize;
    fields.push(f("pad", &vec![if heavy { 0xfe } else { b'p' }; pad]));
    rf::frame(rf::HEADERS, &rq::encode_literal_section(&fields, heavy))
}

fn body_for(id: u64) -> Vec<u8> {
    (0..23u64).map(|i| (i * 7 + id * 13 + 1) as u8).collect()
}

fn healthy_message(me: Endpoint, id: u64) -> Vec<u8> {
    let mut b = Vec::new();
    match me {
        Endpoint::Server | Endpoint::Client => b.extend(healthy_head_for(me, id)),
    }
    let body = body_for(id);
    b.extend(rf::frame(rf::DATA, &body[..10]));
    b.extend(rf::frame(0x21, &[0x00])); // a reserved frame in between
    b.extend(rf::frame(rf::DATA, &body[10..]));
    b.extend(rf::frame(rf::HEADERS, TRAILER_SECTION)); // trailers t: v
    b
}

fn faulty_head(me: Endpoint, plan: Plan) -> Vec<u8> {
    let f = |n: &str, v: &[u8]| (n.as_bytes().to_vec(), v.to_vec());
    let mut fields = match me {
        Endpoint::Server => vec![f(":method", b"GET"), f(":scheme", b"https"), f(":authority", b"a"), f(":path", b"/")],
        Endpoint::Client => vec![f(":status", b"200")],
    };
    match plan {
        Plan::MalformedUppercase => fields.push(f("Upper", b"v")),
        Plan::MalformedNoMethodOrStatus => {
            fields.remove(0);
        }
        Plan::MalformedBadValue => fields.push(f("x", b"a\nb")),
        Plan::MalformedEmptyName => fields.push(f("", b"x")),
        Plan::Oversize => fields.push(f("big", &vec![b'z'; LIMIT as usize])),
        _ => {}
    }
    rf::frame(rf::HEADERS, &rq::encode_literal_section(&fields, false))
}

#[derive(Debug, Clone, Default, PartialEq, Eq)]
pub struct Outcome {
    /// per request (by stream id): what the application saw
    pub msgs: Vec<MsgObs>,
    /// client role: result of the sending half per request
    pub client_sends: Vec<(u64, String)>,
    pub driver: Vec<String>,
    pub close_calls: Vec<u64>,
    /// (stream id, wire bytes written by me, fin, reset calls, stop_sending calls)
    pub wires: Vec<(u64, Vec<u8>, bool, Vec<u64>, Vec<u64>)>,
    pub panics: Vec<(String, String)>,
    pub pending: Vec<String>,
    pub horizon: bool,
    pub fps: Vec<u64>,
}

const HORIZON: usize = 20_000;

pub fn execute(case: &Case, seed: u64, read: Policy) -> Outcome {
    fastrand::seed(seed);
    set_app_pauses(true);
    set_retry_after_error(true);
    let n = case.plans.len();
    let ids: Vec<u64> = (0..n as u64).map(|i| i * 4).collect();
    let (me, peer) = match case.me {
        Endpoint::Server => (SERVER, CLIENT),
        Endpoint::Client => (CLIENT, SERVER),
    };
    let mut cfg = NetCfg::default();
    cfg.read = read;
    if read == Policy::Choose {
        cfg.allow_delay = true;
        cfg.focus = Some(ids.clone());
        cfg.dense_cut_limit = 3;
    }
    let net = Net::new(cfg);
    let mut ex = Exec::new();
    let drv = shared(DriverObs::default());
    let handlers: Shared<Vec<Shared<MsgObs>>> = shared(Vec::new());
    let client_sends: Shared<Vec<(u64, String)>> = shared(Vec::new());
    match case.me {
        Endpoint::Server => {
            let mut b = h3::server::builder();
            b.send_grease(case.goaway).max_field_section_size(LIMIT);
            ex.spawn("main", server_main(net.clone(), b, ex.spawner(), drv.clone(), handlers.clone(), true, 0));
        }
        Endpoint::Client => {
            let (net2, drv2, sp, hs, cs) = (net.clone(), drv.clone(), ex.spawner(), handlers.clone(), client_sends.clone());
            let plans = case.plans.clone();
            let grease = case.goaway;
            ex.spawn("main", async move {
                let mut b = h3::client::builder();
                b.send_grease(grease).max_field_section_size(LIMIT);
                let (mut conn, sr): (CliConn, CliSend) = match b.build(SimConn::new(&net2, CLIENT)).await {
                    Ok(x) => x,
                    Err(e) => {
                        drv2.borrow_mut().build = conn_class(&e);
                        return;
                    }
                };
                drv2.borrow_mut().build = "ok".into();
                let drv3 = drv2.clone();
                sp.spawn("driver", async move {
                    let e = std::future::poll_fn(|cx| conn.poll_close(cx)).await;
                    drv3.borrow_mut().results.push(conn_class(&e));
                    std::future::pending::<()>().await;
                    drop(conn);
                });
                for i in 0..n {
                    let mut sr2 = sr.clone();
                    let out = shared(MsgObs::default());
                    hs.borrow_mut().push(out.clone());
                    let cs2 = cs.clone();
                    let (plans2, net3) = (plans.clone(), net2.clone());
                    sp.spawn(format!("request{i}"), async move {
                        out.borrow_mut().stage = "send_request".into();
                        let req = http::Request::post("https://a/").body(()).unwrap();
                        match sr2.send_request(req).await {
                            Ok(mut s) => {
                                let id = s.id().into_inner();
                                out.borrow_mut().stream_id = Some(id);
                                if matches!(plans2.get((id / 4) as usize), Some(Plan::StopSendingEarly(_))) {
                                    let mut spins = 0;
                                    while !net3.write_side_stopped(CLIENT, id) && spins < 600 {
                                        spins += 1;
                                        yield_now().await;
                                    }
                                }
                                let r = async {
                                    out.borrow_mut().stage = "send_data".into();
                                    s.send_data(Bytes::from(body_for(id))).await?;
                                    out.borrow_mut().stage = "finish".into();
                                    s.finish().await
                                }
                                .await;
                                if r.is_err() {
                                    // an application that tidies up: finish() after a send call has failed
                                    let a = match s.finish().await {
                                        Ok(()) => "finish:ok".to_string(),
                                        Err(e) => stream_class(&e),
                                    };
                                    out.borrow_mut().after_error.push(a);
                                }
                                cs2.borrow_mut().push((
                                    id,
                                    match r {
                                        Ok(()) => "ok".into(),
                                        Err(e) => stream_class(&e),
                                    },
                                ));
                                client_reader(s, out.clone()).await;
                            }
                            Err(e) => {
                                let mut m = out.borrow_mut();
                                m.head = format!("send_request:{}", stream_class(&e));
                                m.stage = "done".into();
                            }
                        }
                        // the clone is kept alive: dropping the last SendRequest closes the connection
                        std::future::pending::<()>().await;
                        drop(sr2);
                    });
                }
                std::future::pending::<()>().await;
                drop(sr);
            });
        }
    }
    // ---- the scripted peer: per stream a list of steps, played round-robin
    {
        let (net, case, ids) = (net.clone(), case.clone(), ids.clone());
        ex.spawn("script", async move {
            let ctrl = if peer == CLIENT { CLIENT_CTRL } else { SERVER_CTRL };
            net.raw_open(ctrl);
            net.raw_write(peer, ctrl, &control_preamble(&[]));
            yield_now().await;
            #[derive(Clone)]
            enum Step {
                Write(Vec<u8>),
                Fin,
                Reset(u64),
                Stop(u64),
            }
            let mut scripts: Vec<Vec<Step>> = Vec::new();
            for (i, plan) in case.plans.iter().enumerate() {
                let id = ids[i];
                let healthy = healthy_message(case.me, id);
                let pieces = |b: &[u8]| -> Vec<Step> {
                    // three writes, cut inside frames
                    let a = b.len() / 3;
                    let c = 2 * b.len() / 3 + 1;
                    vec![Step::Write(b[..a].to_vec()), Step::Write(b[a..c.min(b.len())].to_vec()), Step::Write(b[c.min(b.len())..].to_vec())]
                };
                let s = match *plan {
                    Plan::Healthy => {
                        let mut v = pieces(&healthy);
                        v.push(Step::Fin);
                        v
                    }
                    Plan::ResetAt(k, code) => {
                        let k = k.min(healthy.len());
                        let mut v = Vec::new();
                        if k > 0 {
                            v.push(Step::Write(healthy[..k].to_vec()));
                        }
                        v.push(Step::Reset(code));
                        v
                    }
                    Plan::StopSending(code) => {
                        let mut v = pieces(&healthy);
                        v.insert(1, Step::Stop(code));
                        v.push(Step::Fin);
                        v
                    }
                    Plan::StopSendingEarly(code) => {
                        let mut v = pieces(&healthy);
                        v.insert(0, Step::Stop(code));
                        v.push(Step::Fin);
                        v
                    }
                    Plan::FinBeforeHeaders => vec![Step::Write(rf::frame(0x21, &[0x01])), Step::Fin],
                    Plan::MalformedTrailers => {
                        let f = |n: &str, v: &[u8]| (n.as_bytes().to_vec(), v.to_vec());
                        let mut b = healthy_head(case.me);
                        b.extend(rf::frame(rf::DATA, b"xx"));
                        b.extend(rf::frame(rf::HEADERS, &rq::encode_literal_section(&[f("Upper", b"v")], false)));
                        let mut v = pieces(&b);
                        v.push(Step::Fin);
                        v
                    }
                    p => {
                        let mut b = faulty_head(case.me, p);
                        b.extend(rf::frame(rf::DATA, b"xx"));
                        let mut v = pieces(&b);
                        v.push(Step::Fin);
                        v
                    }
                };
                scripts.push(s);
            }
            if peer == CLIENT {
                for id in &ids {
                    net.raw_open(*id);
                }
            }
            if case.goaway {
                if peer == SERVER {
                    // the client must have started its requests before it learns of the shutdown
                    let mut spins = 0;
                    while ids.iter().any(|id| !net.lock().streams.contains_key(id)) && spins < 400 {
                        spins += 1;
                        yield_now().await;
                    }
                }
                let id = if peer == SERVER { ids.len() as u64 * 4 } else { 0 };
                net.raw_write(peer, ctrl, &rf::frame(rf::GOAWAY, &refimpl::varint::encode(id).unwrap()));
                for _ in 0..3 {
                    yield_now().await;
                }
            }
            let mut pos = vec![0usize; scripts.len()];
            let mut spins = 0;
            loop {
                let mut progressed = false;
                let mut all_done = true;
                for i in 0..scripts.len() {
                    if pos[i] >= scripts[i].len() {
                        continue;
                    }
                    all_done = false;
                    let id = ids[i];
                    if peer == SERVER && !net.lock().streams.contains_key(&id) {
                        continue; // the client has not opened this request yet
                    }
                    match scripts[i][pos[i]].clone() {
                        Step::Write(b) => {
                            if !b.is_empty() {
                                net.raw_write(peer, id, &b);
                            }
                        }
                        Step::Fin => net.raw_fin(peer, id),
                        Step::Reset(c) => net.raw_reset(peer, id, c),
                        Step::Stop(c) => net.raw_stop_sending(peer, id, c),
                    }
                    pos[i] += 1;
                    progressed = true;
                    yield_now().await;
                }
                if all_done {
                    break;
                }
                if !progressed {
                    spins += 1;
                    if spins > 400 {
                        break;
                    }
                    yield_now().await;
                }
            }
        });
    }
    let mut fps = Vec::new();
    let q = {
        let net = net.clone();
        let handlers = handlers.clone();
        ex.run(HORIZON, |_| {
            let mut h = Fnv::new();
            h.u64(net.fingerprint_light());
            for m in handlers.borrow().iter() {
                let m = m.borrow();
                h.str(&m.stage);
                h.u64(m.body.len() as u64);
            }
            fps.push(h.finish());
        })
    };
    let mut msgs: Vec<MsgObs> = handlers.borrow().iter().map(|m| m.borrow().clone()).collect();
    msgs.sort_by_key(|m| m.stream_id);
    let wires = ids
        .iter()
        .map(|id| {
            let (fin, _, _) = net.wire_end(me, *id);
            (*id, net.wire(me, *id), fin, net.reset_calls(me, *id), net.stop_calls(me, *id))
        })
        .collect();
    let d = drv.borrow().clone();
    let mut cs = client_sends.borrow().clone();
    cs.sort();
    Outcome {
        msgs,
        client_sends: cs,
        driver: d.results,
        close_calls: net.close_calls(me).iter().map(|c| c.0).collect(),
        wires,
        panics: q.panics,
        pending: q.pending,
        horizon: q.horizon_hit,
        fps,
    }
}

fn plan_name(p: Plan) -> String {
    match p {
        Plan::ResetAt(k, _) => format!("reset@{k}"),
        Plan::StopSending(_) => "stop-sending".into(),
        Plan::StopSendingEarly(c) => format!("stop-sending-early({c:#x})"),
        other => format!("{other:?}"),
    }
}

pub fn judge(case: &Case, o: &Outcome) -> Vec<(String, String)> {
    let role = if case.me == Endpoint::Server { "server" } else { "client" };
    let ctx = format!("{role} with concurrent requests {:?}{}", case.plans.iter().map(|p| plan_name(*p)).collect::<Vec<_>>(), if case.goaway { ", the peer's GOAWAY delivered after they were started" } else { "" });
    let mut out = Vec::new();
    for (t, p) in &o.panics {
        out.push((format!("C07:{role}:panic@{}", explore::panics::short_loc(p)), format!("{ctx}: task {t} panicked: {p}")));
    }
    if o.horizon {
        out.push((format!("C07:{role}:livelock"), format!("{ctx}: still runnable after {HORIZON} polls")));
        return out;
    }
    // ---- the connection survives
    if !o.close_calls.is_empty() {
        out.push((
            format!("C07:{role}:connection-closed:{:#x}", o.close_calls[0]),
            format!("{ctx}: close calls {:x?}, driver {:?}", o.close_calls, o.driver),
        ));
    }
    let derr: Vec<&String> = o.driver.iter().filter(|d| *d != "req" && *d != "none").collect();
    if !derr.is_empty() {
        out.push((format!("C07:{role}:driver-error:{}", derr[0]), format!("{ctx}: driver results {:?}", o.driver)));
    }
    for (i, plan) in case.plans.iter().enumerate() {
        let id = i as u64 * 4;
        let m = o.msgs.iter().find(|m| m.stream_id == Some(id));
        let pn = plan_name(*plan);
        let Some(m) = m else {
            out.push((format!("C07:{role}:request-lost:{pn}"), format!("{ctx}: request on stream {id} ({pn}) never reached the application: {:?}", o.msgs)));
            continue;
        };
        let results = [&m.head, &m.body_end, &m.trailers, &m.sent];
        let csend = o.client_sends.iter().find(|(s, _)| *s == id).map(|(_, r)| r.clone()).unwrap_or_default();
        let any_conn_err = results.iter().any(|r| is_conn_err(r)) || is_conn_err(&csend) || m.after_error.iter().any(|r| is_conn_err(r));
        if any_conn_err {
            out.push((
                format!("C07:{role}:connection-error-on-request:{pn}"),
                format!("{ctx}: request on stream {id} ({pn}) reports a connection error: {m:?} send {csend:?}"),
            ));
            continue;
        }
        let first_err = results.iter().find(|r| !r.is_empty() && **r != "ok" && **r != "none" && !r.starts_with("some:"));
        match *plan {
            Plan::Healthy => {
                let want_body = body_for(id);
                let ok = m.head == "ok" && m.body == want_body && m.body_end == "none" && m.trailers == "some:t=[76]" && m.stage == "done" && (case.me == Endpoint::Client && csend == "ok" || case.me == Endpoint::Server && m.sent == "ok");
                if !ok {
                    out.push((
                        format!("C07:{role}:healthy-request-harmed:{}", first_err.map(|e| e.to_string()).unwrap_or_else(|| if m.body != want_body { "body-differs".into() } else { format!("stage={}", m.stage) })),
                        format!("{ctx}: healthy request on stream {id}: expected its own {} body bytes and normal completion; got {m:?}, send {csend:?}", want_body.len()),
                    ));
                }
                if case.me == Endpoint::Server {
                    // its response is complete on the wire
                    let w = o.wires.iter().find(|w| w.0 == id).unwrap();
                    let (frames, tail) = rf::segment(&w.1);
                    let data: Vec<u8> = frames.iter().filter(|f| f.ty == rf::DATA).flat_map(|f| f.payload.clone()).collect();
                    if tail != rf::Tail::Clean || !w.2 || data != b"pong" || frames.first().map(|f| f.ty) != Some(rf::HEADERS) {
                        out.push((format!("C07:{role}:healthy-response-incomplete"), format!("{ctx}: stream {id}: response on the wire {} fin={}", hex(&w.1), w.2)));
                    }
                }
            }
            Plan::ResetAt(_, code) => {
                let want = format!("RemoteTerminate({code:#x})");
                match first_err {
                    Some(e) if **e == want => {}
                    Some(e) => out.push((format!("C07:{role}:reset-reported-as:{e}"), format!("{ctx}: stream {id}: expected {want}; {m:?}"))),
                    None => out.push((format!("C07:{role}:reset-not-reported"), format!("{ctx}: stream {id}: expected {want}; {m:?}"))),
                }
            }
            Plan::StopSending(code) => {
                let want = format!("RemoteTerminate({code:#x})");
                let sent = if case.me == Endpoint::Server { m.sent.clone() } else { csend.clone() };
                if sent != "ok" && sent != want {
                    out.push((format!("C07:{role}:stop-sending-reported-as:{sent}"), format!("{ctx}: stream {id}: sending half returned {sent:?}, expected ok or {want}")));
                }
                // the receiving direction of that request is not affected
                if m.head != "ok" || m.body != body_for(id) {
                    out.push((format!("C07:{role}:stop-sending-harmed-receive-side"), format!("{ctx}: stream {id}: {m:?}")));
                }
            }
            Plan::StopSendingEarly(code) => {
                let want = format!("RemoteTerminate({code:#x})");
                let sent = if case.me == Endpoint::Server { m.sent.clone() } else { csend.clone() };
                if sent != want {
                    out.push((
                        format!("C07:{role}:early-stop-sending-reported-as:{}", if sent.is_empty() { "pending" } else { &sent }),
                        format!("{ctx}: stream {id}: the peer's STOP_SENDING({code:#x}) was known before the first send call; the sending half returned {sent:?}, expected {want}"),
                    ));
                }
                if m.head != "ok" || m.body != body_for(id) {
                    out.push((format!("C07:{role}:stop-sending-harmed-receive-side"), format!("{ctx}: stream {id}: {m:?}")));
                }
            }
            Plan::MalformedUppercase | Plan::MalformedNoMethodOrStatus | Plan::MalformedBadValue | Plan::MalformedEmptyName => {
                let want = format!("Stream({:#x})", auto::H3_MESSAGE_ERROR);
                if m.head != want {
                    out.push((format!("C07:{role}:malformed-reported-as:{}", if m.head.is_empty() { "pending" } else { &m.head }), format!("{ctx}: stream {id}: expected {want}; {m:?}")));
                }
            }
            Plan::MalformedTrailers => {
                let want = format!("Stream({:#x})", auto::H3_MESSAGE_ERROR);
                if m.head != "ok" || m.trailers != want {
                    out.push((format!("C07:{role}:malformed-trailers-reported-as:{}", if m.trailers.is_empty() { "pending" } else { &m.trailers }), format!("{ctx}: stream {id}: expected {want} from recv_trailers; {m:?}")));
                }
            }
            Plan::Oversize => {
                if !m.head.starts_with("HeaderTooBig(") {
                    out.push((format!("C07:{role}:oversize-reported-as:{}", if m.head.is_empty() { "pending" } else { &m.head }), format!("{ctx}: stream {id}: expected HeaderTooBig; {m:?}")));
                }
            }
            Plan::FinBeforeHeaders => {
                let want = format!("Stream({:#x})", auto::H3_REQUEST_INCOMPLETE);
                if m.head != want {
                    out.push((format!("C07:{role}:fin-before-headers-reported-as:{}", if m.head.is_empty() { "pending" } else { &m.head }), format!("{ctx}: stream {id}: expected {want}; {m:?}")));
                }
            }
        }
    }
    out
}

fn plan_json(p: Plan) -> Value {
    match p {
        Plan::Healthy => json!("healthy"),
        Plan::ResetAt(k, c) => json!(["reset", k, c]),
        Plan::StopSending(c) => json!(["stop", c]),
        Plan::StopSendingEarly(c) => json!(["stopearly", c]),
        Plan::MalformedEmptyName => json!("emptyname"),
        Plan::MalformedUppercase => json!("upper"),
        Plan::MalformedTrailers => json!("uppertrailers"),
        Plan::MalformedNoMethodOrStatus => json!("nomethod"),
        Plan::MalformedBadValue => json!("badvalue"),
        Plan::Oversize => json!("oversize"),
        Plan::FinBeforeHeaders => json!("fin"),
    }
}

fn plan_from(v: &Value) -> Plan {
    match v {
        Value::String(s) => match s.as_str() {
            "healthy" => Plan::Healthy,
            "upper" => Plan::MalformedUppercase,
            "emptyname" => Plan::MalformedEmptyName,
            "uppertrailers" => Plan::MalformedTrailers,
            "nomethod" => Plan::MalformedNoMethodOrStatus,
            "badvalue" => Plan::MalformedBadValue,
            "oversize" => Plan::Oversize,
            _ => Plan::FinBeforeHeaders,
        },
        a if a[0] == "reset" => Plan::ResetAt(a[1].as_u64().unwrap() as usize, a[2].as_u64().unwrap()),
        a if a[0] == "stopearly" => Plan::StopSendingEarly(a[1].as_u64().unwrap()),
        a => Plan::StopSending(a[1].as_u64().unwrap()),
    }
}

pub fn run(args: &Args) -> i32 {
    let thorough = args.tier == Tier::Thorough;
    let bound = if thorough { 3 } else { 2 };
    let n = 3;
    let mut rep = Report::new("C07", args.tier, args.seed, "model_checking");
    rep.exhaustive = true;
    rep.rule = format!(
        "{n} concurrent requests on one connection; each request is healthy or suffers one fault of {{RESET(0x10c) after 0 / 1 / header-boundary / mid-DATA bytes, RESET(0) mid-frame, STOP_SENDING(0x10c / H3_NO_ERROR), a STOP_SENDING (both codes) that is certainly known before the endpoint's first send call on that request, uppercase field name in the head or in the trailers, an empty field name, missing :method/:status, LF in a value, section over the limit, FIN before HEADERS (server role)}}; quick tier: every assignment over the core faults {{healthy, RESET after 1 byte, RESET mid-DATA, STOP_SENDING, uppercase name, oversize, FIN before HEADERS}} and, for each further fault, every assignment over {{healthy, that fault, RESET mid-DATA}} containing it; thorough tier: for each further fault every assignment over the core faults and that fault containing it; healthy heads padded to exactly the configured limit (on the second stream Huffman-coded with 26-bit symbols, so that its encoded form is more than twice the limit while its size by the RFC rule is the limit); every assignment with exactly one faulty request (thorough: at least one healthy and one faulty) also while a graceful shutdown is under way (the peer's GOAWAY, with an identifier that lets all of them continue, delivered after the requests were started and before the first fault); every assignment (including all healthy, and all faulty when homogeneous in the first two), for a real server and a real client against a scripted peer that plays the streams round-robin in three writes each. Every execution with <= {bound} deviations (scheduling among handler/request tasks, driver and script; an application pause between any two calls of the request API; chunk cuts and delayed delivery on every request stream), plus one-byte-per-read, plus (server role) the sequential server loop that handles each request inside the accept loop, whole and one byte per read. After the first error of recv_data the receive pattern calls recv_data twice more; after a failed send call finish() is still called. The cases with a graceful shutdown under way run with grease enabled (the first request's finish() writes the grease frame). Oracle: healthy requests deliver exactly their own position-coded bytes and complete, their responses are complete on the wire; no close(); drivers report no error; each faulty request reports the stream-level error the property names and never a connection error. states = distinct (transport cursors, per-request progress) fingerprints; non-trivial = executions with a deviation."
    );
    rep.assumptions = vec!["a STOP_SENDING that arrives after the sending half completed is not reported (ok accepted)".into(), "client role: a response stream FIN-ed before HEADERS is not in the fault set (DESIGN.md 7)".into()];
    rep.bound_note = format!("{n} requests, deviation bound {bound}");
    let mut cases: Vec<Case> = Vec::new();
    for me in [Endpoint::Server, Endpoint::Client] {
        let hlen = match me {
            Endpoint::Server | Endpoint::Client => healthy_head(me).len(),
        };
        // core faults: crossed fully (every assignment of n requests over them)
        let mut core = vec![Plan::Healthy, Plan::ResetAt(1, 0x10c), Plan::ResetAt(hlen + 5, 0x10c), Plan::StopSending(0x10c), Plan::MalformedUppercase, Plan::Oversize];
        if me == Endpoint::Server {
            core.push(Plan::FinBeforeHeaders);
        }
        // further faults: in the quick tier each of them in every assignment over {healthy, that fault, RESET mid-DATA}
        // that contains it; in the thorough tier in every assignment over the core faults and that fault
        let extended = vec![
            Plan::ResetAt(0, 0x10c),
            Plan::ResetAt(hlen, 0x10c),
            Plan::ResetAt(hlen + 14, 0x0),
            Plan::StopSendingEarly(0x10c),
            Plan::StopSendingEarly(0x100),
            Plan::StopSending(0x100),
            Plan::MalformedTrailers,
            Plan::MalformedNoMethodOrStatus,
            Plan::MalformedBadValue,
            Plan::MalformedEmptyName,
        ];
        let product = |plans: &[Plan]| -> Vec<Vec<Plan>> {
            let mut combos: Vec<Vec<Plan>> = vec![vec![]];
            for _ in 0..n {
                let mut next = Vec::new();
                for c in &combos {
                    for p in plans {
                        let mut d = c.clone();
                        d.push(*p);
                        next.push(d);
                    }
                }
                combos = next;
            }
            combos
        };
        let mut combos: Vec<Vec<Plan>> = Vec::new();
        if thorough {
            combos.extend(product(&core));
            for e in &extended {
                let mut with_e = core.clone();
                with_e.push(*e);
                combos.extend(product(&with_e).into_iter().filter(|c| c.contains(e)));
            }
        } else {
            combos.extend(product(&core));
            for e in &extended {
                combos.extend(product(&[Plan::Healthy, *e, Plan::ResetAt(hlen + 5, 0x10c)]).into_iter().filter(|c| c.contains(e)));
            }
        }
        for c in combos {
            let faulty = c.iter().filter(|p| **p != Plan::Healthy).count();
            // (the all-healthy assignment stays in: concurrent healthy requests must not disturb each other either)
            if thorough && n >= 3 && faulty == n && c[0] != c[1] {
                continue; // keep all-faulty combos only when homogeneous in the first two (thorough size control)
            }
            // a graceful shutdown under way: with every assignment that has at least one healthy and one faulty request
            if faulty >= 1 && faulty < n && c.iter().filter(|p| **p == Plan::Healthy).count() >= 1 && (thorough || faulty == 1) {
                cases.push(Case { me, plans: c.clone(), goaway: true });
            }
            cases.push(Case { me, plans: c, goaway: false });
        }
    }
    let seed = args.seed;
    let deadline = std::time::Instant::now() + std::time::Duration::from_secs(if thorough { 1500 } else { 55 });
    let accs = explore::par::run(&cases, Acc::new, |_, case, acc| {
        let caps = Caps { deadline: Some(deadline), max_executions: if thorough { 4_000_000 } else { 400_000 }, ..Caps::default() };
        let mut viol = explore::report::ViolSet::new();
        let mut states: Vec<u64> = Vec::new();
        let mut outcomes: Vec<u64> = Vec::new();
        let mut nontrivial = 0u64;
        let st = dfs::explore(
            bound,
            &caps,
            || execute(case, seed, Policy::Choose),
            |e, o| {
                states.extend(o.fps.iter().copied());
                let mut h = Fnv::new();
                h.str(&format!("{:?}{:?}", o.msgs.iter().map(|m| (&m.head, &m.body_end, &m.sent)).collect::<Vec<_>>(), o.client_sends));
                outcomes.push(h.finish());
                if e.cost > 0 {
                    nontrivial += 1;
                }
                for (sig, msg) in judge(case, &o) {
                    viol.add(sig, msg, (e.cost, e.choices.len()), &e.choices);
                }
            },
        );
        if st.capped {
            acc.capped_cases += 1;
        }
        acc.dfs.merge(&st);
        acc.evaluations += st.executions;
        acc.states.extend(states);
        acc.outcomes.extend(outcomes);
        let mut h = Fnv::new();
        h.str(&format!("{case:?}"));
        for k in 0..nontrivial.min(100_000) {
            acc.nontrivial.insert(h.finish().wrapping_add(k));
        }
        viol.drain_into(acc, |choices| json!({"me": if case.me == Endpoint::Server {"server"} else {"client"}, "plans": case.plans.iter().map(|p| plan_json(*p)).collect::<Vec<_>>(), "goaway": case.goaway, "choices": choices, "seed": seed}));
        // uniform one-byte reads
        let o = execute(case, seed, Policy::PerByte);
        acc.evaluations += 1;
        for (sig, msg) in judge(case, &o) {
            acc.violation(format!("{sig}:one-byte-reads"), msg, (1, 0), || json!({"me": if case.me == Endpoint::Server {"server"} else {"client"}, "plans": case.plans.iter().map(|p| plan_json(*p)).collect::<Vec<_>>(), "goaway": case.goaway, "choices": [], "seed": seed, "mode": "read1"}));
        }
        // the sequential server loop: every request is handled inside the accept loop, so the later ones (and their
        // faults) wait in the transport while an earlier one is served
        if case.me == Endpoint::Server {
            for (mode, pol) in [("inline", Policy::Whole), ("inline-read1", Policy::PerByte)] {
                set_inline_handlers(true);
                let o = execute(case, seed, pol);
                set_inline_handlers(false);
                acc.evaluations += 1;
                for (sig, msg) in judge(case, &o) {
                    acc.violation(format!("{sig}:{mode}"), msg, (1, 0), || json!({"me": "server", "plans": case.plans.iter().map(|p| plan_json(*p)).collect::<Vec<_>>(), "goaway": case.goaway, "choices": [], "seed": seed, "mode": mode}));
                }
            }
        }
    });
    let mut total = Acc::new();
    for a in accs {
        total.merge(a);
    }
    total.count("cases", cases.len() as u64);
    for i in [0, cases.len() / 2, cases.len() - 1] {
        total.samples.push(json!(format!("{:?} {:?}", cases[i].me, cases[i].plans.iter().map(|p| plan_name(*p)).collect::<Vec<_>>())));
    }
    rep.finish(total)
}

pub fn replay(r: &Value) -> i32 {
    let case = Case { me: if r["me"] == "server" { Endpoint::Server } else { Endpoint::Client }, plans: r["plans"].as_array().unwrap().iter().map(plan_from).collect(), goaway: r["goaway"].as_bool().unwrap_or(false) };
    let seed = r["seed"].as_u64().unwrap_or(0);
    let choices: Vec<u32> = r["choices"].as_array().unwrap().iter().map(|v| v.as_u64().unwrap() as u32).collect();
    println!("case: {:?} {:?} choices {:?}", case.me, case.plans.iter().map(|p| plan_name(*p)).collect::<Vec<_>>(), choices);
    let once = || {
        if r["mode"] == "read1" {
            (execute(&case, seed, Policy::PerByte), None)
        } else if r["mode"] == "inline" || r["mode"] == "inline-read1" {
            set_inline_handlers(true);
            let o = execute(&case, seed, if r["mode"] == "inline" { Policy::Whole } else { Policy::PerByte });
            set_inline_handlers(false);
            (o, None)
        } else {
            let (o, _, d) = dfs::replay(&choices, || execute(&case, seed, Policy::Choose));
            (o, d)
        }
    };
    let (o1, d1) = once();
    let (o2, d2) = once();
    if let Some(d) = d1.or(d2) {
        println!("REPLAY DIVERGED: {d}");
        return 2;
    }
    if o1 != o2 {
        println!("REPLAY NOT DETERMINISTIC");
        return 2;
    }
    for m in &o1.msgs {
        println!("request on stream {:?}: {m:?}", m.stream_id);
    }
    println!("client sends {:?} driver {:?} close calls {:x?} panics {:?}", o1.client_sends, o1.driver, o1.close_calls, o1.panics);
    let v = judge(&case, &o1);
    for (sig, msg) in &v {
        println!("observed: {sig}: {msg}");
    }
    if v.is_empty() {
        println!("observed: no violation");
        0
    } else {
        1
    }
}
