//! C12 — only well-formed messages reach the application; sent ones are well-formed.
//!
//! Receive: the full product of per-slot alternatives (present / absent / invalid / duplicated /
//! contradictory pseudo-header fields, Host, an undefined pseudo name, one regular field over
//! valid and invalid names x values) is encoded with refimpl (literal representations, so any
//! byte gets through QPACK) and injected by a scripted peer as request, response, request
//! trailers and response trailers; oracle refimpl::fields (three-valued, see DESIGN.md 7).
//! Send: every http::Request / Response / trailer map of the message alphabet goes through the
//! API; the HEADERS frames on the wire are decoded by refimpl and checked for pseudo-first,
//! at-most-once and caller-supplied values.

use crate::scen::*;
use crate::Args;
use bytes::Bytes;
use explore::report::{Acc, Report, Tier};
use explore::{hex, Fnv};
use h3::ext::Protocol;
use refimpl::fields::{self as rfld, Class, Field, Kind};
use refimpl::frames as rf;
use refimpl::qpack as rq;
use serde_json::{json, Value};
use simnet::exec::yield_now;
use simnet::{Exec, Net, NetCfg, SimConn, CLIENT, SERVER};

#[derive(Clone, Copy, Debug, PartialEq, Eq)]
pub enum Slot {
    Request,
    Response,
    RequestTrailers,
    ResponseTrailers,
}

#[derive(Clone, Debug)]
pub struct RecvCase {
    pub slot: Slot,
    pub fields: Vec<Field>,
}

#[derive(Debug, Clone, Default, PartialEq, Eq)]
pub struct RecvOutcome {
    pub msg: Option<MsgObs>,
    pub close_calls: Vec<u64>,
    pub driver: Vec<String>,
    pub panics: Vec<(String, String)>,
    pub resets: Vec<u64>,
    pub stops: Vec<u64>,
}

fn f(n: &[u8], v: &[u8]) -> Field {
    (n.to_vec(), v.to_vec())
}

pub fn recv_run(case: &RecvCase) -> RecvOutcome {
    fastrand::seed(1);
    let server_me = matches!(case.slot, Slot::Request | Slot::RequestTrailers);
    let (me, peer) = if server_me { (SERVER, CLIENT) } else { (CLIENT, SERVER) };
    let net = Net::new(NetCfg::default());
    let mut ex = Exec::new();
    let drv = shared(DriverObs::default());
    let handlers: Shared<Vec<Shared<MsgObs>>> = shared(Vec::new());
    let client_msg = shared(MsgObs::default());
    if server_me {
        let mut b = h3::server::builder();
        b.send_grease(false);
        ex.spawn("main", server_main(net.clone(), b, ex.spawner(), drv.clone(), handlers.clone(), false, 0));
    } else {
        let (net2, drv2, msg2, sp) = (net.clone(), drv.clone(), client_msg.clone(), ex.spawner());
        ex.spawn("main", async move {
            let mut b = h3::client::builder();
            b.send_grease(false);
            let (mut conn, mut sr): (CliConn, CliSend) = b.build(SimConn::new(&net2, CLIENT)).await.unwrap();
            let drv3 = drv2.clone();
            sp.spawn("driver", async move {
                let e = std::future::poll_fn(|cx| conn.poll_close(cx)).await;
                drv3.borrow_mut().results.push(conn_class(&e));
                std::future::pending::<()>().await;
                drop(conn);
            });
            match sr.send_request(http::Request::get("https://a/").body(()).unwrap()).await {
                Ok(mut s) => {
                    let _ = s.finish().await;
                    client_reader(s, msg2.clone()).await;
                }
                Err(e) => msg2.borrow_mut().head = format!("send_request:{}", stream_class(&e)),
            }
            std::future::pending::<()>().await;
            drop(sr);
        });
    }
    {
        let (net, case) = (net.clone(), case.clone());
        ex.spawn("script", async move {
            let ctrl = if peer == CLIENT { CLIENT_CTRL } else { SERVER_CTRL };
            net.raw_open(ctrl);
            net.raw_write(peer, ctrl, &control_preamble(&[]));
            yield_now().await;
            if peer == CLIENT {
                net.raw_open(0);
            } else {
                let mut spins = 0;
                while !net.lock().streams.contains_key(&0) {
                    spins += 1;
                    if spins > 200 {
                        return;
                    }
                    yield_now().await;
                }
            }
            let section = rq::encode_literal_section(&case.fields, false);
            let mut bytes = Vec::new();
            match case.slot {
                Slot::Request | Slot::Response => bytes.extend(rf::frame(rf::HEADERS, &section)),
                Slot::RequestTrailers => {
                    bytes.extend(rf::frame(rf::HEADERS, REQ_SECTION));
                    bytes.extend(rf::frame(rf::DATA, b"abc"));
                    bytes.extend(rf::frame(rf::HEADERS, &section));
                }
                Slot::ResponseTrailers => {
                    bytes.extend(rf::frame(rf::HEADERS, RESP_SECTION));
                    bytes.extend(rf::frame(rf::DATA, b"abc"));
                    bytes.extend(rf::frame(rf::HEADERS, &section));
                }
            }
            net.raw_write(peer, 0, &bytes);
            net.raw_fin(peer, 0);
        });
    }
    let q = ex.run(4000, |_| {});
    let msg = if server_me { handlers.borrow().first().map(|m| m.borrow().clone()) } else { Some(client_msg.borrow().clone()) };
    let d = drv.borrow().clone();
    RecvOutcome {
        msg,
        close_calls: net.close_calls(me).iter().map(|c| c.0).collect(),
        driver: d.results,
        panics: q.panics,
        resets: net.reset_calls(me, 0),
        stops: net.stop_calls(me, 0),
    }
}

fn fields_str(fs: &[Field]) -> String {
    fs.iter().map(|(n, v)| format!("{:?}={:?}", String::from_utf8_lossy(n), String::from_utf8_lossy(v))).collect::<Vec<_>>().join(", ")
}

pub fn judge_recv(case: &RecvCase, o: &RecvOutcome) -> Vec<(String, String)> {
    let kind = match case.slot {
        Slot::Request => Kind::Request,
        Slot::Response => Kind::Response,
        _ => Kind::Trailers,
    };
    let v = rfld::judge(&case.fields, kind);
    let slot = format!("{:?}", case.slot);
    let ctx = format!("{slot} with fields [{}] (reference: {:?}, {})", fields_str(&case.fields), v.class, v.why);
    let mut out = Vec::new();
    for (t, p) in &o.panics {
        out.push((format!("C12:recv:{slot}:panic@{}", explore::panics::short_loc(p)), format!("{ctx}: task {t} panicked: {p}")));
    }
    let Some(m) = &o.msg else {
        out.push((format!("C12:recv:{slot}:never-accepted"), format!("{ctx}: the stream never reached the application")));
        return out;
    };
    let result: &str = match case.slot {
        Slot::Request | Slot::Response => &m.head,
        _ => {
            if m.head != "ok" || m.body_end != "none" {
                out.push((format!("C12:recv:{slot}:valid-head-not-delivered"), format!("{ctx}: {m:?}")));
                return out;
            }
            &m.trailers
        }
    };
    let delivered = result == "ok" || result.starts_with("some:");
    let msg_err = format!("Stream({:#x})", refimpl::h3auto::H3_MESSAGE_ERROR);
    if delivered {
        // what was handed over is what was sent
        let sent = |n: &[u8]| -> Option<&Vec<u8>> {
            let mut it = case.fields.iter().filter(|(k, _)| k == n);
            let first = it.next();
            if it.next().is_some() {
                return None;
            }
            first.map(|(_, v)| v)
        };
        if let (Slot::Request, Some((method, scheme, authority, pq))) = (case.slot, &m.req_target) {
            let mut diffs: Vec<(&str, Vec<u8>, Vec<u8>)> = Vec::new();
            if let Some(want) = sent(b":method") {
                if method.as_bytes() != &want[..] {
                    diffs.push(("method", want.clone(), method.as_bytes().to_vec()));
                }
            }
            if let (Some(want), Some(got)) = (sent(b":scheme"), scheme) {
                if got.as_bytes() != &want[..] {
                    diffs.push(("scheme", want.clone(), got.as_bytes().to_vec()));
                }
            }
            if let Some(want) = sent(b":authority").or(sent(b"host")) {
                let got = authority.clone().unwrap_or_default();
                if got.as_bytes() != &want[..] && !want.is_empty() {
                    diffs.push(("authority", want.clone(), got.into_bytes()));
                }
            }
            if let Some(want) = sent(b":path") {
                let got = pq.clone().unwrap_or_default();
                if got != *want && !want.is_empty() {
                    diffs.push(("path", want.clone(), got));
                }
            }
            if let Some(want) = sent(b":protocol") {
                if crate::scen::PROTOCOLS.iter().any(|(n, _)| n.as_bytes() == &want[..]) {
                    let got = m.protocol.unwrap_or("(none)");
                    if got.as_bytes() != &want[..] {
                        diffs.push(("protocol", want.clone(), got.as_bytes().to_vec()));
                    }
                }
            }
            for (what, want, got) in diffs {
                out.push((
                    format!("C12:recv:{slot}:delivered-{what}-differs-from-sent"),
                    format!("{ctx}: {what} sent as {} but handed over as {}", explore::hex(&want), explore::hex(&got)),
                ));
            }
        }
        if matches!(case.slot, Slot::Request | Slot::Response) {
            let mut want: Vec<(Vec<u8>, Vec<u8>)> = case.fields.iter().filter(|(n, _)| !n.starts_with(b":")).cloned().collect();
            want.sort();
            if want != m.head_fields {
                out.push((
                    format!("C12:recv:{slot}:delivered-fields-differ-from-sent"),
                    format!("{ctx}: regular fields handed over: [{}]", fields_str(&m.head_fields)),
                ));
            }
        }
        if v.class == Class::Malformed {
            out.push((
                format!("C12:recv:{slot}:malformed-delivered:{}", v.why),
                format!("{ctx}: delivered to the application as {:?} {:?}", m.head_info, m.trailers),
            ));
        }
    } else if result.is_empty() {
        out.push((format!("C12:recv:{slot}:no-outcome"), format!("{ctx}: the call never returned: {m:?}")));
    } else {
        // refused: must be the stream error H3_MESSAGE_ERROR, never a connection error
        if result != msg_err {
            out.push((
                format!("C12:recv:{slot}:refused-with:{}:{}", result, if v.class == Class::Malformed { "malformed" } else { "not-malformed" }),
                format!("{ctx}: refused with {result}, expected the stream error H3_MESSAGE_ERROR"),
            ));
        }
    }
    if !o.close_calls.is_empty() {
        out.push((format!("C12:recv:{slot}:connection-closed:{:#x}", o.close_calls[0]), format!("{ctx}: close calls {:x?}", o.close_calls)));
    }
    out
}

fn recv_cases(thorough: bool) -> Vec<RecvCase> {
    let methods: Vec<Vec<Field>> = vec![vec![], vec![f(b":method", b"GET")], vec![f(b":method", b"G T")], vec![f(b":method", b"GET"), f(b":method", b"POST")]];
    let schemes: Vec<Vec<Field>> = vec![vec![], vec![f(b":scheme", b"https")], vec![f(b":scheme", b"1://")]];
    let auths: Vec<Vec<Field>> = vec![vec![], vec![f(b":authority", b"a.example")], vec![f(b":authority", b"")], vec![f(b":authority", b"a b")], vec![f(b":authority", b"A.example")]];
    let paths: Vec<Vec<Field>> = vec![vec![], vec![f(b":path", b"/")], vec![f(b":path", b"/ x")], vec![f(b":path", b"/caf\xe9")], vec![f(b":path", b"/caf\xc3\xa9?q=\xe2\x82\xac")], vec![f(b":path", b"/p?q=\xff")]];
    let statuses: Vec<Vec<Field>> = vec![vec![], vec![f(b":status", b"200")], vec![f(b":status", b"20")], vec![f(b":status", b"abc")]];
    let protos: Vec<Vec<Field>> = vec![vec![], vec![f(b":protocol", b"webtransport")], vec![f(b":protocol", b"nope")]];
    // further alternatives, crossed with a reduced grid below
    let protos_ext: Vec<Vec<Field>> = vec![vec![f(b":protocol", b"connect-udp")], vec![f(b":protocol", b"connect-ip")], vec![f(b":protocol", b"websocket")], vec![f(b":protocol", b"WebTransport")]];
    let paths_ext: Vec<Vec<Field>> = vec![vec![f(b":path", b"/p\n")], vec![f(b":path", b"/p\r")], vec![f(b":path", b" /p")]];
    let hosts: Vec<Vec<Field>> = vec![vec![], vec![f(b"host", b"a.example")], vec![f(b"host", b"b.example")], vec![f(b"host", b"")], vec![f(b"host", b"A.EXAMPLE")]];
    let unknowns: Vec<Vec<Field>> = vec![vec![], vec![f(b":x", b"1")]];
    let names: [&[u8]; 6] = [b"ok", b"Upper", b"", b"sp ace", b"ctl\x01", b"a:b"];
    let values: [&[u8]; 6] = [b"v", b"", b"a\rb", b"a\nb", b"a\0b", b"\x80"];
    let mut regulars: Vec<Vec<Field>> = vec![vec![]];
    for n in names {
        for v in values {
            regulars.push(vec![f(n, v)]);
        }
    }
    // forbidden bytes at the edges of a value (where a trimming step would hide them), and blanks there
    let edge_values: [&[u8]; 9] = [b"v\r", b"v\n", b"\rv", b"\nv", b"v\r\n", b"\0v", b"v\0", b" v", b"v\t"];
    for v in edge_values {
        regulars.push(vec![f(b"ok", v)]);
    }
    let mut out = Vec::new();
    // requests: the full product
    for m in &methods {
        for s in &schemes {
            for a in &auths {
                for p in &paths {
                    for st in &statuses {
                        for pr in &protos {
                            for h in &hosts {
                                for u in &unknowns {
                                    // the regular-field dimension is crossed fully with a reduced pseudo grid and
                                    // partially (valid / uppercase / CR) with the full one
                                    let regs: Vec<&Vec<Field>> = if st.is_empty() && pr.is_empty() && u.is_empty() || thorough {
                                        regulars.iter().collect()
                                    } else {
                                        vec![&regulars[0], &regulars[1], &regulars[7], &regulars[3]]
                                    };
                                    for r in regs {
                                        let mut fields = Vec::new();
                                        for part in [m, s, a, p, st, pr, u] {
                                            fields.extend(part.iter().cloned());
                                        }
                                        fields.extend(h.iter().cloned());
                                        fields.extend(r.iter().cloned());
                                        out.push(RecvCase { slot: Slot::Request, fields });
                                    }
                                }
                            }
                        }
                    }
                }
            }
        }
    }
    // the further :protocol and :path alternatives x method x authority x Host x every regular field
    let connect: Vec<Field> = vec![f(b":method", b"CONNECT")];
    for (ext, is_proto) in protos_ext.iter().map(|e| (e, true)).chain(paths_ext.iter().map(|e| (e, false))) {
        for m in methods.iter().chain(std::iter::once(&connect)) {
            for a in &auths {
                for h in &hosts {
                    for r in &regulars {
                        let mut fields = Vec::new();
                        fields.extend(m.iter().cloned());
                        fields.extend(schemes[1].iter().cloned());
                        fields.extend(a.iter().cloned());
                        if is_proto {
                            fields.extend(paths[1].iter().cloned());
                        }
                        fields.extend(ext.iter().cloned());
                        fields.extend(h.iter().cloned());
                        fields.extend(r.iter().cloned());
                        out.push(RecvCase { slot: Slot::Request, fields });
                    }
                }
            }
        }
    }
    // responses: status x request pseudo leakage x unknown x regular
    for st in &statuses {
        for m in &methods[..2] {
            for pr in &protos {
                for u in &unknowns {
                    for r in &regulars {
                        let mut fields = Vec::new();
                        for part in [st, m, pr, u] {
                            fields.extend(part.iter().cloned());
                        }
                        fields.extend(r.iter().cloned());
                        out.push(RecvCase { slot: Slot::Response, fields });
                    }
                }
            }
        }
    }
    // trailers, both directions
    for slot in [Slot::RequestTrailers, Slot::ResponseTrailers] {
        for r in &regulars {
            for r2 in &regulars {
                if !thorough && !r.is_empty() && !r2.is_empty() && r2 != &regulars[1] {
                    continue;
                }
                for u in [&vec![], &vec![f(b":status", b"200")], &vec![f(b":x", b"1")]] {
                    let mut fields = r.clone();
                    fields.extend(r2.iter().cloned());
                    fields.extend(u.iter().cloned());
                    out.push(RecvCase { slot, fields });
                }
            }
        }
    }
    out
}

// ------------------------------------------------------------------------------------------------
// send side

#[derive(Clone, Debug)]
pub struct SendCase {
    pub method: &'static str,
    pub protocol: bool,
    /// which of the four Protocol constants (index into scen::PROTOCOLS) when `protocol`
    pub proto: usize,
    pub target: &'static str,
    pub host_header: Option<&'static str>,
    pub headers: usize,
    pub status: u16,
    pub response: bool,
    pub trailers: bool,
}

pub fn header_sets() -> Vec<Vec<(&'static str, Vec<u8>)>> {
    vec![
        vec![],
        vec![("accept", b"*/*".to_vec())],
        vec![("content-type", b"x/y".to_vec())],
        vec![("x-a", b"b".to_vec())],
        vec![("x-dup", b"1".to_vec()), ("x-other", b"o".to_vec()), ("x-dup", b"2".to_vec()), ("x-dup", b"3".to_vec())],
        vec![("x-long", vec![b'l'; 300])],
        vec![("x-bin", (0x80u8..=0xff).collect())],
    ]
}

fn header_map(set: &[(&'static str, Vec<u8>)]) -> http::HeaderMap {
    let mut h = http::HeaderMap::new();
    for (n, v) in set {
        h.append(http::header::HeaderName::from_static(n), http::HeaderValue::from_bytes(v).unwrap());
    }
    h
}

#[derive(Debug, Clone, Default, PartialEq, Eq)]
pub struct SendOutcome {
    pub send_result: String,
    pub wire: Vec<u8>,
    pub panics: Vec<(String, String)>,
}

pub fn send_run(c: &SendCase) -> SendOutcome {
    fastrand::seed(1);
    let net = Net::new(NetCfg::default());
    let mut ex = Exec::new();
    let res = shared(String::new());
    let set = header_sets()[c.headers].clone();
    if !c.response {
        let (net2, c2, res2, set2) = (net.clone(), c.clone(), res.clone(), set.clone());
        ex.spawn("main", async move {
            let mut b = h3::client::builder();
            b.send_grease(false);
            let (conn, mut sr): (CliConn, CliSend) = b.build(SimConn::new(&net2, CLIENT)).await.unwrap();
            let mut rb = http::Request::builder().method(c2.method).uri(c2.target);
            if let Some(h) = c2.host_header {
                rb = rb.header("host", h);
            }
            let mut req = rb.body(()).unwrap();
            for (n, v) in header_map(&set2).iter() {
                req.headers_mut().append(n.clone(), v.clone());
            }
            if c2.protocol {
                req.extensions_mut().insert(crate::scen::PROTOCOLS[c2.proto].1);
            }
            let r = async {
                let mut s = sr.send_request(req).await?;
                if c2.trailers {
                    s.send_trailers(header_map(&set2)).await?;
                }
                s.finish().await
            }
            .await;
            *res2.borrow_mut() = match r {
                Ok(()) => "ok".into(),
                Err(e) => stream_class(&e),
            };
            std::future::pending::<()>().await;
            drop((conn, sr));
        });
    } else {
        let (net2, c2, res2, set2) = (net.clone(), c.clone(), res.clone(), set.clone());
        ex.spawn("main", async move {
            let mut b = h3::server::builder();
            b.send_grease(false);
            let mut conn: SrvConn = b.build(SimConn::new(&net2, SERVER)).await.unwrap();
            if let Ok(Some(resolver)) = conn.accept().await {
                let r = async {
                    let (_req, mut s) = resolver.resolve_request().await?;
                    let mut resp = http::Response::builder().status(c2.status).body(()).unwrap();
                    *resp.headers_mut() = header_map(&set2);
                    s.send_response(resp).await?;
                    if c2.trailers {
                        s.send_trailers(header_map(&set2)).await?;
                    }
                    s.finish().await
                }
                .await;
                *res2.borrow_mut() = match r {
                    Ok(()) => "ok".into(),
                    Err(e) => stream_class(&e),
                };
            }
            std::future::pending::<()>().await;
            drop(conn);
        });
        let net3 = net.clone();
        ex.spawn("script", async move {
            net3.raw_open(CLIENT_CTRL);
            net3.raw_write(CLIENT, CLIENT_CTRL, &control_preamble(&[]));
            net3.raw_open(0);
            net3.raw_write(CLIENT, 0, &rf::frame(rf::HEADERS, REQ_SECTION));
            net3.raw_fin(CLIENT, 0);
        });
    }
    let q = ex.run(4000, |_| {});
    let me = if c.response { SERVER } else { CLIENT };
    let send_result = res.borrow().clone();
    SendOutcome { send_result, wire: net.wire(me, 0), panics: q.panics }
}

pub fn judge_send(c: &SendCase, o: &SendOutcome) -> Vec<(String, String)> {
    let role = if c.response { "response" } else { "request" };
    let ctx = format!("{c:?}");
    let mut out = Vec::new();
    for (t, p) in &o.panics {
        out.push((format!("C12:send:{role}:panic@{}", explore::panics::short_loc(p)), format!("{ctx}: task {t} panicked: {p}")));
    }
    if o.send_result != "ok" {
        // a request the API refuses (e.g. no authority at all) sends nothing; nothing to judge
        if !o.wire.is_empty() && !o.send_result.is_empty() {
            let (frames, _) = rf::segment(&o.wire);
            if frames.iter().any(|f| f.ty == rf::HEADERS) && !o.send_result.starts_with("HeaderTooBig") {
                // something was written before the refusal: still has to be well-formed (checked below)
            } else {
                return out;
            }
        } else {
            return out;
        }
    }
    let (frames, _) = rf::segment(&o.wire);
    let heads: Vec<&rf::Frame> = frames.iter().filter(|f| f.ty == rf::HEADERS).collect();
    if heads.is_empty() {
        out.push((format!("C12:send:{role}:no-headers-frame"), format!("{ctx}: wire {}", hex(&o.wire))));
        return out;
    }
    for (i, hf) in heads.iter().enumerate() {
        let fields = match rq::decode_static_only(&hf.payload) {
            Ok(f) => f,
            Err(e) => {
                out.push((format!("C12:send:{role}:section-not-decodable"), format!("{ctx}: HEADERS payload {} : {e:?}", hex(&hf.payload))));
                continue;
            }
        };
        let is_trailer = i == 1;
        // pseudo fields first, each at most once
        let mut seen_regular = false;
        let mut pseudos: Vec<(&[u8], &[u8])> = Vec::new();
        for (n, v) in &fields {
            if n.first() == Some(&b':') {
                if seen_regular {
                    out.push((format!("C12:send:{role}:pseudo-after-regular"), format!("{ctx}: field order on the wire: [{}]", fields_str(&fields))));
                }
                if pseudos.iter().any(|(pn, _)| pn == &&n[..]) {
                    out.push((format!("C12:send:{role}:pseudo-twice"), format!("{ctx}: [{}]", fields_str(&fields))));
                }
                pseudos.push((n, v));
            } else {
                seen_regular = true;
            }
        }
        let get = |name: &[u8]| pseudos.iter().find(|(n, _)| *n == name).map(|(_, v)| v.to_vec());
        if is_trailer {
            if !pseudos.is_empty() {
                out.push((format!("C12:send:{role}:pseudo-in-trailers"), format!("{ctx}: [{}]", fields_str(&fields))));
            }
        } else if c.response {
            if get(b":status") != Some(c.status.to_string().into_bytes()) || pseudos.len() != 1 {
                out.push((format!("C12:send:{role}:status-wrong"), format!("{ctx}: pseudo fields on the wire: [{}]", fields_str(&fields))));
            }
        } else {
            let uri: http::Uri = c.target.parse().unwrap();
            if get(b":method") != Some(c.method.as_bytes().to_vec()) {
                out.push((format!("C12:send:{role}:method-wrong"), format!("{ctx}: [{}]", fields_str(&fields))));
            }
            if let Some(s) = uri.scheme_str() {
                if let Some(got) = get(b":scheme") {
                    if got != s.as_bytes() {
                        out.push((format!("C12:send:{role}:scheme-wrong"), format!("{ctx}: [{}]", fields_str(&fields))));
                    }
                } else if !(c.method == "CONNECT" && !c.protocol) {
                    out.push((format!("C12:send:{role}:scheme-missing"), format!("{ctx}: [{}]", fields_str(&fields))));
                }
            }
            if let Some(a) = uri.authority() {
                if get(b":authority") != Some(a.as_str().as_bytes().to_vec()) {
                    out.push((format!("C12:send:{role}:authority-wrong"), format!("{ctx}: [{}]", fields_str(&fields))));
                }
            }
            if let Some(pq) = uri.path_and_query() {
                if !pq.as_str().is_empty() && pq.as_str() != "/" || uri.scheme().is_some() {
                    if let Some(got) = get(b":path") {
                        let want = if pq.as_str().is_empty() { "/" } else { pq.as_str() };
                        if got != want.as_bytes() && !(c.method == "OPTIONS" && pq.path().is_empty()) {
                            out.push((format!("C12:send:{role}:path-wrong"), format!("{ctx}: [{}]", fields_str(&fields))));
                        }
                    }
                }
            }
            if c.protocol && get(b":protocol") != Some(crate::scen::PROTOCOLS[c.proto].0.as_bytes().to_vec()) {
                out.push((format!("C12:send:{role}:protocol-wrong"), format!("{ctx}: [{}]", fields_str(&fields))));
            }
            for (n, _) in &pseudos {
                if !matches!(&n[..], b":method" | b":scheme" | b":authority" | b":path" | b":protocol") {
                    out.push((format!("C12:send:{role}:undefined-pseudo-sent"), format!("{ctx}: [{}]", fields_str(&fields))));
                }
            }
        }
        // regular fields: per-name value lists in order
        let set = header_sets()[c.headers].clone();
        let mut names: Vec<&str> = set.iter().map(|(n, _)| *n).collect();
        names.dedup();
        for name in names {
            let want: Vec<&Vec<u8>> = set.iter().filter(|(n, _)| *n == name).map(|(_, v)| v).collect();
            let got: Vec<&Vec<u8>> = fields.iter().filter(|(n, _)| n == name.as_bytes()).map(|(_, v)| v).collect();
            if want != got {
                out.push((format!("C12:send:{role}:regular-field-values-differ"), format!("{ctx}: field {name}: caller gave {} value(s), wire has {:?}", want.len(), got.iter().map(|v| hex(v)).collect::<Vec<_>>())));
            }
        }
        // whatever we send must itself pass the gate
        let kind = if is_trailer { Kind::Trailers } else if c.response { Kind::Response } else { Kind::Request };
        let v = rfld::judge(&fields, kind);
        if v.class == Class::Malformed {
            out.push((format!("C12:send:{role}:sent-message-malformed:{}", v.why), format!("{ctx}: [{}]", fields_str(&fields))));
        }
    }
    out
}

fn send_cases() -> Vec<SendCase> {
    let mut out = Vec::new();
    let targets: Vec<(&'static str, Option<&'static str>)> = vec![
        ("https://a.example/", None),
        ("http://a.example/p?q=1", None),
        ("https://a.example", None),
        ("https://a.example/", Some("a.example")),
        ("/x/y?z", Some("h.example")),
        ("https://a.example:8443/a%20b", None),
    ];
    for (method, protocol, proto) in [("GET", false, 0), ("POST", false, 0), ("OPTIONS", false, 0), ("CONNECT", false, 0), ("CONNECT", true, 0), ("CONNECT", true, 1), ("CONNECT", true, 2), ("CONNECT", true, 3)] {
        for (t, host) in &targets {
            for h in 0..header_sets().len() {
                for trailers in [false, true] {
                    if trailers && h % 2 == 1 {
                        continue;
                    }
                    out.push(SendCase { method, protocol, proto, target: t, host_header: *host, headers: h, status: 0, response: false, trailers });
                }
            }
        }
    }
    out.push(SendCase { method: "CONNECT", protocol: false, proto: 0, target: "a.example:443", host_header: None, headers: 0, status: 0, response: false, trailers: false });
    out.push(SendCase { method: "OPTIONS", protocol: false, proto: 0, target: "*", host_header: Some("a.example"), headers: 3, status: 0, response: false, trailers: false });
    for status in [200u16, 204, 404, 599, 100] {
        for h in 0..header_sets().len() {
            for trailers in [false, true] {
                out.push(SendCase { method: "GET", protocol: false, proto: 0, target: "/", host_header: None, headers: h, status, response: true, trailers });
            }
        }
    }
    out
}

pub fn run(args: &Args) -> i32 {
    // the deeper parameter set is cheap enough (seconds) to be the quick tier as well
    let thorough = true;
    let _ = Tier::Thorough;
    let mut rep = Report::new("C12", args.tier, args.seed, "exploration");
    rep.exhaustive = true;
    rep.rule = "receive: product of per-slot alternatives - :method {absent, GET, 'G T', twice} x :scheme {absent, https, '1://'} x :authority {absent, a.example, '', 'a b', A.example} x :path {absent, '/', '/ x', '/caf\\xe9' (not UTF-8), a path and query with well-formed non-ASCII UTF-8, '/p?q=\\xff'} x :status {absent, 200, '20', 'abc'} x :protocol {absent, webtransport, nope} (and connect-udp, connect-ip, websocket, 'WebTransport' and the paths '/p\\n', '/p\\r', ' /p' crossed with method incl. CONNECT x authority x Host x every regular field) x Host {absent, same, different, '', differing from :authority only in letter case} x undefined ':x' {absent, present} x one regular field over names {ok, Upper, '', 'sp ace', 'ctl\\x01', 'a:b'} x values {v, '', a\\rb, a\\nb, a\\0b, \\x80; and for the name 'ok' CR / LF / CRLF / NUL / SP / HTAB as the first or last byte} (full cross with the reduced pseudo grid, 4 representative regular fields with the full one), as request; responses over :status x leaked request pseudo fields x ':x' x regular; request and response trailers over pairs of regular fields x pseudo leakage. Sections are reference-encoded with literal representations and injected by a scripted peer into a real server / client over simnet. send: 8 method kinds (extended CONNECT with each of the four Protocol constants) x 6 targets x 7 header sets x trailers, 5 statuses x 7 header sets x trailers through the API, HEADERS frames decoded by refimpl. Oracle refimpl::fields. Non-trivial = sections with at least 2 fields.".into();
    rep.assumptions = vec![
        "the predicate is exactly the property's list (three-valued); not demanded: rejecting pseudo-after-regular, repeated pseudo fields, :status in a request, pseudo fields in trailers, unknown :protocol tokens; nor that every well-formed section is accepted (DESIGN.md 7)".into(),
        "refimpl::qpack literal encoder carries arbitrary bytes; refimpl::fields is unit-tested".into(),
    ];
    rep.bound_note = "exhaustive over the stated grid".into();
    let rcases = recv_cases(thorough);
    let chunks: Vec<&[RecvCase]> = rcases.chunks(512).collect();
    let mut accs = explore::par::run(&chunks, Acc::new, |_, ch, acc| {
        for c in *ch {
            let o = recv_run(c);
            acc.evaluations += 1;
            let mut h = Fnv::new();
            h.str(&format!("{c:?}"));
            acc.states.insert(h.finish());
            if c.fields.len() >= 2 {
                acc.nontrivial.insert(h.finish());
            }
            let mut h = Fnv::new();
            h.str(&format!("{:?}|{:?}", o.msg.as_ref().map(|m| (&m.head, m.trailers.starts_with("some:"), m.trailers.starts_with("Stream"))), o.close_calls));
            acc.outcomes.insert(h.finish());
            for (sig, msg) in judge_recv(c, &o) {
                acc.violation(sig, msg, (0, c.fields.len()), || json!({"kind":"recv","slot":format!("{:?}", c.slot),"fields":c.fields.iter().map(|(n,v)| json!([hex(n),hex(v)])).collect::<Vec<_>>()}));
            }
            let v = rfld::judge(&c.fields, match c.slot { Slot::Request => Kind::Request, Slot::Response => Kind::Response, _ => Kind::Trailers });
            let delivered = o.msg.as_ref().map(|m| match c.slot { Slot::Request | Slot::Response => m.head == "ok", _ => m.trailers.starts_with("some:") }).unwrap_or(false);
            acc.count(&format!("{:?}:{}", v.class, if delivered { "delivered" } else { "refused" }), 1);
        }
    });
    let scases = send_cases();
    accs.extend(explore::par::run(&scases, Acc::new, |i, c, acc| {
        let o = send_run(c);
        acc.evaluations += 1;
        let mut h = Fnv::new();
        h.str(&format!("{c:?}"));
        acc.states.insert(h.finish());
        acc.nontrivial.insert(h.finish());
        acc.outcomes.insert(explore::fnv_str(&o.send_result));
        for (sig, msg) in judge_send(c, &o) {
            acc.violation(sig, msg, (0, 0), || json!({"kind":"send","index":i}));
        }
    }));
    let mut total = Acc::new();
    for a in accs {
        total.merge(a);
    }
    total.count("receive_cases", rcases.len() as u64);
    total.count("send_cases", scases.len() as u64);
    total.samples.push(json!({"receive":"Request","fields":[[":method","GET"],[":authority","a.example"],["host","b.example"]],"reference":"Malformed (authority-host-differ)"}));
    total.samples.push(json!({"receive":"ResponseTrailers","fields":[["Upper","v"]],"reference":"Malformed (uppercase-name)"}));
    total.samples.push(json!({"send": format!("{:?}", scases[17])}));
    rep.finish(total)
}

pub fn replay(r: &Value) -> i32 {
    let v = match r["kind"].as_str() {
        Some("recv") => {
            let case = RecvCase {
                slot: match r["slot"].as_str().unwrap() {
                    "Request" => Slot::Request,
                    "Response" => Slot::Response,
                    "RequestTrailers" => Slot::RequestTrailers,
                    _ => Slot::ResponseTrailers,
                },
                fields: r["fields"].as_array().unwrap().iter().map(|p| (explore::unhex(p[0].as_str().unwrap()), explore::unhex(p[1].as_str().unwrap()))).collect(),
            };
            let o = recv_run(&case);
            println!("case: {:?} [{}]", case.slot, fields_str(&case.fields));
            println!("outcome: {o:?}");
            judge_recv(&case, &o)
        }
        Some("send") => {
            let c = send_cases()[r["index"].as_u64().unwrap() as usize].clone();
            let o = send_run(&c);
            println!("case: {c:?}");
            println!("outcome: result {:?}, wire {}", o.send_result, hex(&o.wire));
            judge_send(&c, &o)
        }
        _ => return 2,
    };
    for (sig, msg) in &v {
        println!("observed: {sig}: {msg}");
    }
    if v.is_empty() {
        println!("observed: no violation");
        0
    } else {
        1
    }
}

#[allow(dead_code)]
fn _b(_: Bytes) {}
