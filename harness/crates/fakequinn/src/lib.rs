//! A stand-in for the part of the `quinn` 0.11 API that `h3-quinn` uses. It has the same type
//! and method names and signatures, so the UNMODIFIED adapter source compiles against it, but
//! there is no network: a `Connection` is a scripted object and every answer it gives
//! (`poll_write` accepting some bytes / pending / failing, `read_chunk` yielding a chunk / pending /
//! ending / failing, accept / open results) is an `explore::choose`, so an explorer enumerates the
//! adapter against every Quinn answer sequence up to its bound.
//!
//! Neighbouring calls an equivalent adapter could use (`write`, `write_chunk`, `read`, `stopped`)
//! are provided too and driven by the same scripts.

use bytes::Bytes;
use explore::choose;
use std::collections::VecDeque;
use std::fmt;
use std::future::Future;
use std::pin::Pin;
use std::sync::{Arc, Mutex};
use std::task::{Context, Poll};

// ------------------------------------------------------------------------------------------------
// small value types

#[derive(Debug, Copy, Clone, Eq, PartialEq, Ord, PartialOrd, Hash, Default)]
pub struct VarInt(u64);

#[derive(Debug, Copy, Clone, Eq, PartialEq)]
pub struct VarIntBoundsExceeded;

impl fmt::Display for VarIntBoundsExceeded {
    fn fmt(&self, f: &mut fmt::Formatter<'_>) -> fmt::Result {
        write!(f, "value too large for varint encoding")
    }
}
impl std::error::Error for VarIntBoundsExceeded {}

impl VarInt {
    pub const MAX: VarInt = VarInt((1 << 62) - 1);
    pub const fn from_u32(x: u32) -> Self {
        VarInt(x as u64)
    }
    pub fn from_u64(x: u64) -> Result<Self, VarIntBoundsExceeded> {
        if x < (1 << 62) {
            Ok(VarInt(x))
        } else {
            Err(VarIntBoundsExceeded)
        }
    }
    pub const fn into_inner(self) -> u64 {
        self.0
    }
    /// quinn: `unsafe fn from_u64_unchecked`
    #[allow(clippy::missing_safety_doc)]
    pub const unsafe fn from_u64_unchecked(x: u64) -> Self {
        VarInt(x)
    }
}
impl From<VarInt> for u64 {
    fn from(v: VarInt) -> u64 {
        v.0
    }
}
impl From<u32> for VarInt {
    fn from(v: u32) -> Self {
        VarInt(v as u64)
    }
}
impl From<u8> for VarInt {
    fn from(v: u8) -> Self {
        VarInt(v as u64)
    }
}
impl From<u16> for VarInt {
    fn from(v: u16) -> Self {
        VarInt(v as u64)
    }
}
impl TryFrom<u64> for VarInt {
    type Error = VarIntBoundsExceeded;
    fn try_from(v: u64) -> Result<Self, VarIntBoundsExceeded> {
        VarInt::from_u64(v)
    }
}
impl TryFrom<usize> for VarInt {
    type Error = VarIntBoundsExceeded;
    fn try_from(v: usize) -> Result<Self, VarIntBoundsExceeded> {
        VarInt::from_u64(v as u64)
    }
}
impl TryFrom<u128> for VarInt {
    type Error = VarIntBoundsExceeded;
    fn try_from(v: u128) -> Result<Self, VarIntBoundsExceeded> {
        VarInt::from_u64(v.try_into().map_err(|_| VarIntBoundsExceeded)?)
    }
}
impl fmt::Display for VarInt {
    fn fmt(&self, f: &mut fmt::Formatter<'_>) -> fmt::Result {
        self.0.fmt(f)
    }
}

#[derive(Debug, Copy, Clone, Eq, PartialEq, Hash)]
pub struct StreamId(pub u64);
impl From<StreamId> for u64 {
    fn from(s: StreamId) -> u64 {
        s.0
    }
}
impl From<StreamId> for VarInt {
    fn from(s: StreamId) -> VarInt {
        VarInt(s.0)
    }
}
impl fmt::Display for StreamId {
    fn fmt(&self, f: &mut fmt::Formatter<'_>) -> fmt::Result {
        write!(f, "stream {}", self.0)
    }
}
impl From<VarInt> for StreamId {
    fn from(v: VarInt) -> StreamId {
        StreamId(v.0)
    }
}

/// Which side of a connection (same discriminants as quinn's).
#[derive(Debug, Copy, Clone, Eq, PartialEq, Hash)]
pub enum Side {
    Client = 0,
    Server = 1,
}
impl Side {
    pub fn is_client(self) -> bool {
        self == Side::Client
    }
    pub fn is_server(self) -> bool {
        self == Side::Server
    }
}

/// Directionality of a stream (same discriminants as quinn's).
#[derive(Debug, Copy, Clone, Eq, PartialEq, Hash)]
pub enum Dir {
    Bi = 0,
    Uni = 1,
}

// the accessors of quinn::StreamId (a change to the adapter may use any of them)
impl StreamId {
    pub fn new(initiator: Side, dir: Dir, index: u64) -> Self {
        StreamId((index << 2) | ((dir as u64) << 1) | initiator as u64)
    }
    pub fn initiator(self) -> Side {
        if self.0 & 0x1 == 0 {
            Side::Client
        } else {
            Side::Server
        }
    }
    pub fn dir(self) -> Dir {
        if self.0 & 0x2 == 0 {
            Dir::Bi
        } else {
            Dir::Uni
        }
    }
    pub fn index(self) -> u64 {
        self.0 >> 2
    }
}

#[derive(Debug, Clone)]
pub struct Chunk {
    pub offset: u64,
    pub bytes: Bytes,
}

// ------------------------------------------------------------------------------------------------
// errors (same variants as quinn)

#[derive(Debug, Clone, PartialEq, Eq)]
pub struct ApplicationClose {
    pub error_code: VarInt,
    pub reason: Bytes,
}
impl fmt::Display for ApplicationClose {
    fn fmt(&self, f: &mut fmt::Formatter<'_>) -> fmt::Result {
        write!(f, "application close {}", self.error_code)
    }
}

#[derive(Debug, Clone, PartialEq, Eq)]
pub struct ConnectionClose {
    pub error_code: u64,
}
impl fmt::Display for ConnectionClose {
    fn fmt(&self, f: &mut fmt::Formatter<'_>) -> fmt::Result {
        write!(f, "connection close {}", self.error_code)
    }
}

#[derive(Debug, Clone, PartialEq, Eq)]
pub struct TransportError {
    pub code: u64,
}
impl fmt::Display for TransportError {
    fn fmt(&self, f: &mut fmt::Formatter<'_>) -> fmt::Result {
        write!(f, "transport error {}", self.code)
    }
}

#[derive(Debug, Clone, PartialEq, Eq)]
pub enum ConnectionError {
    VersionMismatch,
    TransportError(TransportError),
    ConnectionClosed(ConnectionClose),
    ApplicationClosed(ApplicationClose),
    Reset,
    TimedOut,
    LocallyClosed,
    CidsExhausted,
}
impl fmt::Display for ConnectionError {
    fn fmt(&self, f: &mut fmt::Formatter<'_>) -> fmt::Result {
        write!(f, "{self:?}")
    }
}
impl std::error::Error for ConnectionError {}

#[derive(Debug, Clone, PartialEq, Eq)]
pub struct ClosedStream;
impl fmt::Display for ClosedStream {
    fn fmt(&self, f: &mut fmt::Formatter<'_>) -> fmt::Result {
        write!(f, "closed stream")
    }
}
impl std::error::Error for ClosedStream {}

#[derive(Debug, Clone, PartialEq, Eq)]
pub enum ReadError {
    Reset(VarInt),
    ConnectionLost(ConnectionError),
    ClosedStream,
    IllegalOrderedRead,
    ZeroRttRejected,
}
impl fmt::Display for ReadError {
    fn fmt(&self, f: &mut fmt::Formatter<'_>) -> fmt::Result {
        write!(f, "{self:?}")
    }
}
impl std::error::Error for ReadError {}

#[derive(Debug, Clone, PartialEq, Eq)]
pub enum WriteError {
    Stopped(VarInt),
    ConnectionLost(ConnectionError),
    ClosedStream,
    ZeroRttRejected,
}
impl fmt::Display for WriteError {
    fn fmt(&self, f: &mut fmt::Formatter<'_>) -> fmt::Result {
        write!(f, "{self:?}")
    }
}
impl std::error::Error for WriteError {}

#[derive(Debug, Clone, PartialEq, Eq)]
pub enum SendDatagramError {
    UnsupportedByPeer,
    Disabled,
    TooLarge,
    ConnectionLost(ConnectionError),
}
impl fmt::Display for SendDatagramError {
    fn fmt(&self, f: &mut fmt::Formatter<'_>) -> fmt::Result {
        write!(f, "{self:?}")
    }
}
impl std::error::Error for SendDatagramError {}

#[derive(Debug, Clone, PartialEq, Eq)]
pub enum StoppedError {
    ConnectionLost(ConnectionError),
    ZeroRttRejected,
}

/// Present only because h3-quinn re-exports the name.
#[derive(Debug, Clone)]
pub struct Endpoint;

// ------------------------------------------------------------------------------------------------
// scripts

/// How a scripted receive stream ends once its data is exhausted.
#[derive(Debug, Clone, PartialEq, Eq)]
pub enum RecvEnd {
    Fin,
    Reset(u64),
    ConnectionLost(ConnectionError),
    ClosedStream,
    /// nothing more arrives: reads stay pending forever
    Open,
}

#[derive(Debug, Default)]
pub struct RecvLog {
    pub data: Vec<u8>,
    pub pos: usize,
    pub end: Option<RecvEnd>,
    /// codes passed to `stop`
    pub stops: Vec<u64>,
    pub pendings: usize,
    pub reads: usize,
    /// false: the explorer may not cut chunks or answer Pending (one chunk, immediately)
    pub explore: bool,
    /// the Reset has been reported once: real quinn 0.11 then treats the stream as completely read and
    /// answers Ok(None) from then on (checked on real Quinn by quinnreal)
    pub reset_reported: bool,
    /// what this stand-in answered when it first gave a terminal answer to a read: "fin", "reset:<code>",
    /// "lost:<error>", "closed-stream", "none-after-stop" (the adapter must report exactly that)
    pub first_terminal: Option<String>,
}

/// A fault on the write side: from the `after`-th `poll_write` call on, every call fails.
#[derive(Debug, Clone, PartialEq, Eq)]
pub struct WriteFault {
    pub after: usize,
    pub error: WriteError,
}

#[derive(Debug, Default)]
pub struct SendLog {
    pub written: Vec<u8>,
    pub finished: bool,
    pub resets: Vec<u64>,
    pub poll_writes: usize,
    pub pendings: usize,
    pub fault: Option<WriteFault>,
    pub explore: bool,
    /// sizes accepted, in order (for the conformance comparison with real Quinn)
    pub accepted: Vec<usize>,
}

const MAX_PENDINGS: usize = 2;

// ------------------------------------------------------------------------------------------------
// streams

#[derive(Debug)]
pub struct SendStream {
    id: StreamId,
    log: Arc<Mutex<SendLog>>,
}

impl SendStream {
    pub fn id(&self) -> StreamId {
        self.id
    }

    fn write_inner(&mut self, cx: &mut Context<'_>, buf: &[u8]) -> Poll<Result<usize, WriteError>> {
        let mut g = self.log.lock().unwrap();
        g.poll_writes += 1;
        if g.finished || !g.resets.is_empty() {
            return Poll::Ready(Err(WriteError::ClosedStream));
        }
        if let Some(f) = &g.fault {
            if g.poll_writes > f.after {
                return Poll::Ready(Err(f.error.clone()));
            }
        }
        if buf.is_empty() {
            return Poll::Ready(Ok(0));
        }
        let n = buf.len();
        let take = if !g.explore {
            n
        } else {
            let mut sizes: Vec<usize> = vec![n, 1];
            if n > 3 {
                sizes.push(n / 2);
                sizes.push(n - 1);
            }
            sizes.dedup();
            let pend = g.pendings < MAX_PENDINGS;
            let c = choose(sizes.len() + pend as usize, "quinn-poll_write");
            if c == sizes.len() {
                g.pendings += 1;
                cx.waker().wake_by_ref();
                return Poll::Pending;
            }
            sizes[c].min(n)
        };
        g.written.extend_from_slice(&buf[..take]);
        g.accepted.push(take);
        Poll::Ready(Ok(take))
    }

    /// quinn 0.11: `SendStream::poll_write`
    pub fn poll_write(mut self: Pin<&mut Self>, cx: &mut Context<'_>, buf: &[u8]) -> Poll<Result<usize, WriteError>> {
        self.write_inner(cx, buf)
    }

    /// quinn: `async fn write`
    pub fn write<'a>(&'a mut self, buf: &'a [u8]) -> impl Future<Output = Result<usize, WriteError>> + Send + 'a {
        std::future::poll_fn(move |cx| self.write_inner(cx, buf))
    }

    /// quinn: `async fn write_chunk` (whole chunk)
    pub fn write_chunk(&mut self, mut buf: Bytes) -> impl Future<Output = Result<(), WriteError>> + Send + '_ {
        std::future::poll_fn(move |cx| {
            while !buf.is_empty() {
                match self.write_inner(cx, &buf) {
                    Poll::Ready(Ok(n)) => {
                        let _ = buf.split_to(n);
                    }
                    Poll::Ready(Err(e)) => return Poll::Ready(Err(e)),
                    Poll::Pending => return Poll::Pending,
                }
            }
            Poll::Ready(Ok(()))
        })
    }

    /// quinn: `async fn write_all`
    pub fn write_all<'a>(&'a mut self, buf: &'a [u8]) -> impl Future<Output = Result<(), WriteError>> + Send + 'a {
        let mut at = 0usize;
        std::future::poll_fn(move |cx| {
            while at < buf.len() {
                match self.write_inner(cx, &buf[at..]) {
                    Poll::Ready(Ok(n)) => at += n,
                    Poll::Ready(Err(e)) => return Poll::Ready(Err(e)),
                    Poll::Pending => return Poll::Pending,
                }
            }
            Poll::Ready(Ok(()))
        })
    }

    /// quinn: stream priorities (no effect on what is written)
    pub fn set_priority(&self, _priority: i32) -> Result<(), ClosedStream> {
        Ok(())
    }
    pub fn priority(&self) -> Result<i32, ClosedStream> {
        Ok(0)
    }

    pub fn finish(&mut self) -> Result<(), ClosedStream> {
        let mut g = self.log.lock().unwrap();
        if g.finished || !g.resets.is_empty() {
            return Err(ClosedStream);
        }
        g.finished = true;
        Ok(())
    }

    pub fn reset(&mut self, error_code: VarInt) -> Result<(), ClosedStream> {
        let mut g = self.log.lock().unwrap();
        if g.finished || !g.resets.is_empty() {
            g.resets.push(error_code.0);
            return Err(ClosedStream);
        }
        g.resets.push(error_code.0);
        Ok(())
    }

    pub fn stopped(&mut self) -> impl Future<Output = Result<Option<VarInt>, StoppedError>> + Send + '_ {
        let log = self.log.clone();
        std::future::poll_fn(move |_cx| {
            let g = log.lock().unwrap();
            match &g.fault {
                Some(WriteFault { error: WriteError::Stopped(c), .. }) => Poll::Ready(Ok(Some(*c))),
                Some(WriteFault { error: WriteError::ConnectionLost(e), .. }) => Poll::Ready(Err(StoppedError::ConnectionLost(e.clone()))),
                _ => Poll::Pending,
            }
        })
    }
}

#[derive(Debug)]
pub struct RecvStream {
    id: StreamId,
    is_0rtt: bool,
    log: Arc<Mutex<RecvLog>>,
}

pub struct ReadChunk<'a> {
    stream: &'a mut RecvStream,
    max: usize,
}

impl RecvStream {
    pub fn id(&self) -> StreamId {
        self.id
    }
    pub fn is_0rtt(&self) -> bool {
        self.is_0rtt
    }
    pub fn stop(&mut self, error_code: VarInt) -> Result<(), ClosedStream> {
        let mut g = self.log.lock().unwrap();
        // real quinn 0.11: stop() after a read reported FIN or Reset (or after an earlier stop) -> ClosedStream
        // (checked on real Quinn by quinnreal)
        let over = matches!(g.first_terminal.as_deref(), Some(t) if t == "fin" || t.starts_with("reset:"));
        let first = g.stops.is_empty() && !over;
        g.stops.push(error_code.0);
        if first {
            Ok(())
        } else {
            Err(ClosedStream)
        }
    }
    pub fn read_chunk(&mut self, max_length: usize, _ordered: bool) -> ReadChunk<'_> {
        ReadChunk { stream: self, max: max_length }
    }

    fn poll_chunk(&mut self, cx: &mut Context<'_>, max: usize) -> Poll<Result<Option<Chunk>, ReadError>> {
        let mut g = self.log.lock().unwrap();
        g.reads += 1;
        if g.stops.iter().any(|_| true) && !matches!(g.first_terminal.as_deref(), Some(t) if t == "fin" || t.starts_with("reset:")) {
            // real quinn 0.11: stop() marks the stream as completely read (checked by quinnreal)
            if g.first_terminal.is_none() {
                g.first_terminal = Some("none-after-stop".into());
            }
            return Poll::Ready(Ok(None));
        }
        let avail = (g.data.len() - g.pos).min(max);
        if avail == 0 {
            let end = g.end.clone().unwrap_or(RecvEnd::Open);
            // the end of the stream may not have arrived yet: the read parks and is completed by the FIN / RESET /
            // connection loss later
            if g.explore && end != RecvEnd::Open && g.first_terminal.is_none() && g.pendings < MAX_PENDINGS {
                if choose(2, "quinn-read-end") == 1 {
                    g.pendings += 1;
                    cx.waker().wake_by_ref();
                    return Poll::Pending;
                }
            }
            if g.first_terminal.is_none() {
                g.first_terminal = match &end {
                    RecvEnd::Fin => Some("fin".into()),
                    RecvEnd::Reset(c) => Some(format!("reset:{c}")),
                    RecvEnd::ConnectionLost(e) => Some(format!("lost:{e:?}")),
                    RecvEnd::ClosedStream => Some("closed-stream".into()),
                    RecvEnd::Open => None,
                };
            }
            return match end {
                RecvEnd::Fin => Poll::Ready(Ok(None)),
                RecvEnd::Reset(c) => {
                    if g.reset_reported {
                        Poll::Ready(Ok(None))
                    } else {
                        g.reset_reported = true;
                        Poll::Ready(Err(ReadError::Reset(VarInt(c))))
                    }
                }
                RecvEnd::ConnectionLost(e) => Poll::Ready(Err(ReadError::ConnectionLost(e))),
                RecvEnd::ClosedStream => Poll::Ready(Err(ReadError::ClosedStream)),
                RecvEnd::Open => Poll::Pending, // nothing will ever wake this read
            };
        }
        let take = if !g.explore {
            avail
        } else {
            let mut sizes: Vec<usize> = vec![avail, 1];
            if avail > 3 {
                sizes.push(avail / 2);
            }
            sizes.dedup();
            let pend = g.pendings < MAX_PENDINGS;
            let c = choose(sizes.len() + pend as usize, "quinn-read_chunk");
            if c == sizes.len() {
                g.pendings += 1;
                cx.waker().wake_by_ref();
                return Poll::Pending;
            }
            sizes[c].min(avail)
        };
        let off = g.pos;
        let bytes = Bytes::copy_from_slice(&g.data[off..off + take]);
        g.pos += take;
        Poll::Ready(Ok(Some(Chunk { offset: off as u64, bytes })))
    }

    /// quinn: `async fn read`
    pub fn read<'a>(&'a mut self, buf: &'a mut [u8]) -> impl Future<Output = Result<Option<usize>, ReadError>> + Send + 'a {
        std::future::poll_fn(move |cx| match self.poll_chunk(cx, buf.len()) {
            Poll::Ready(Ok(Some(c))) => {
                buf[..c.bytes.len()].copy_from_slice(&c.bytes);
                Poll::Ready(Ok(Some(c.bytes.len())))
            }
            Poll::Ready(Ok(None)) => Poll::Ready(Ok(None)),
            Poll::Ready(Err(e)) => Poll::Ready(Err(e)),
            Poll::Pending => Poll::Pending,
        })
    }
}

impl<'a> Future for ReadChunk<'a> {
    type Output = Result<Option<Chunk>, ReadError>;
    fn poll(mut self: Pin<&mut Self>, cx: &mut Context<'_>) -> Poll<Self::Output> {
        let max = self.max;
        self.stream.poll_chunk(cx, max)
    }
}

// ------------------------------------------------------------------------------------------------
// connection

#[derive(Default)]
pub struct ConnState {
    /// what accept / open / datagram calls report once set
    pub error: Option<ConnectionError>,
    pub incoming_bi: VecDeque<(SendStream, RecvStream)>,
    pub incoming_uni: VecDeque<RecvStream>,
    pub next_bi: u64,
    pub next_uni: u64,
    /// (code, reason) of every `close` call
    pub closed: Vec<(u64, Vec<u8>)>,
    pub datagrams_out: Vec<Bytes>,
    pub datagrams_in: VecDeque<Bytes>,
    pub datagram_send_error: Option<SendDatagramError>,
    /// logs of every stream this connection created, by id
    pub send_logs: Vec<(u64, Arc<Mutex<SendLog>>)>,
    pub recv_logs: Vec<(u64, Arc<Mutex<RecvLog>>)>,
    /// opened streams get these scripts (in order of opening)
    pub open_send_faults: VecDeque<Option<WriteFault>>,
    pub explore: bool,
    /// true: the side that opens streams is the server (ids get the server bit)
    pub server: bool,
}

#[derive(Clone)]
pub struct Connection(pub Arc<Mutex<ConnState>>);

macro_rules! conn_future {
    ($name:ident, $out:ty) => {
        pub struct $name<'a> {
            conn: &'a Connection,
        }
    };
}
conn_future!(AcceptBi, Result<(SendStream, RecvStream), ConnectionError>);
conn_future!(AcceptUni, Result<RecvStream, ConnectionError>);
conn_future!(OpenBi, Result<(SendStream, RecvStream), ConnectionError>);
conn_future!(OpenUni, Result<SendStream, ConnectionError>);
conn_future!(ReadDatagram, Result<Bytes, ConnectionError>);

impl Connection {
    pub fn new_scripted(server: bool, explore: bool) -> Connection {
        Connection(Arc::new(Mutex::new(ConnState { server, explore, ..Default::default() })))
    }
    pub fn accept_bi(&self) -> AcceptBi<'_> {
        AcceptBi { conn: self }
    }
    pub fn accept_uni(&self) -> AcceptUni<'_> {
        AcceptUni { conn: self }
    }
    pub fn open_bi(&self) -> OpenBi<'_> {
        OpenBi { conn: self }
    }
    pub fn open_uni(&self) -> OpenUni<'_> {
        OpenUni { conn: self }
    }
    pub fn read_datagram(&self) -> ReadDatagram<'_> {
        ReadDatagram { conn: self }
    }
    pub fn close(&self, error_code: VarInt, reason: &[u8]) {
        let mut g = self.0.lock().unwrap();
        g.closed.push((error_code.0, reason.to_vec()));
        if g.error.is_none() {
            g.error = Some(ConnectionError::LocallyClosed);
        }
    }
    pub fn send_datagram(&self, data: Bytes) -> Result<(), SendDatagramError> {
        let mut g = self.0.lock().unwrap();
        if let Some(e) = &g.datagram_send_error {
            return Err(e.clone());
        }
        if let Some(e) = &g.error {
            return Err(SendDatagramError::ConnectionLost(e.clone()));
        }
        g.datagrams_out.push(data);
        Ok(())
    }

    // ---- script side -------------------------------------------------------------------------

    /// A peer-opened receive stream with the given content and ending.
    pub fn script_incoming_uni(&self, index: u64, data: &[u8], end: RecvEnd) -> Arc<Mutex<RecvLog>> {
        let mut g = self.0.lock().unwrap();
        let id = (index << 2) | 2 | if g.server { 0 } else { 1 };
        let log = Arc::new(Mutex::new(RecvLog { data: data.to_vec(), end: Some(end), explore: g.explore, ..Default::default() }));
        g.recv_logs.push((id, log.clone()));
        g.incoming_uni.push_back(RecvStream { id: StreamId(id), is_0rtt: false, log: log.clone() });
        log
    }

    pub fn script_incoming_bi(&self, index: u64, data: &[u8], end: RecvEnd, fault: Option<WriteFault>) -> (Arc<Mutex<SendLog>>, Arc<Mutex<RecvLog>>) {
        let mut g = self.0.lock().unwrap();
        let id = (index << 2) | if g.server { 0 } else { 1 };
        let rlog = Arc::new(Mutex::new(RecvLog { data: data.to_vec(), end: Some(end), explore: g.explore, ..Default::default() }));
        let slog = Arc::new(Mutex::new(SendLog { fault, explore: g.explore, ..Default::default() }));
        g.recv_logs.push((id, rlog.clone()));
        g.send_logs.push((id, slog.clone()));
        g.incoming_bi.push_back((SendStream { id: StreamId(id), log: slog.clone() }, RecvStream { id: StreamId(id), is_0rtt: false, log: rlog.clone() }));
        (slog, rlog)
    }

    pub fn script_error(&self, e: ConnectionError) {
        self.0.lock().unwrap().error = Some(e);
    }

    pub fn send_log(&self, id: u64) -> Option<Arc<Mutex<SendLog>>> {
        self.0.lock().unwrap().send_logs.iter().find(|(i, _)| *i == id).map(|(_, l)| l.clone())
    }
    pub fn recv_log(&self, id: u64) -> Option<Arc<Mutex<RecvLog>>> {
        self.0.lock().unwrap().recv_logs.iter().find(|(i, _)| *i == id).map(|(_, l)| l.clone())
    }
}

impl<'a> Future for AcceptBi<'a> {
    type Output = Result<(SendStream, RecvStream), ConnectionError>;
    fn poll(self: Pin<&mut Self>, _cx: &mut Context<'_>) -> Poll<Self::Output> {
        let mut g = self.conn.0.lock().unwrap();
        if let Some(s) = g.incoming_bi.pop_front() {
            return Poll::Ready(Ok(s));
        }
        match &g.error {
            Some(e) => Poll::Ready(Err(e.clone())),
            None => Poll::Pending,
        }
    }
}

impl<'a> Future for AcceptUni<'a> {
    type Output = Result<RecvStream, ConnectionError>;
    fn poll(self: Pin<&mut Self>, _cx: &mut Context<'_>) -> Poll<Self::Output> {
        let mut g = self.conn.0.lock().unwrap();
        if let Some(s) = g.incoming_uni.pop_front() {
            return Poll::Ready(Ok(s));
        }
        match &g.error {
            Some(e) => Poll::Ready(Err(e.clone())),
            None => Poll::Pending,
        }
    }
}

impl<'a> Future for OpenBi<'a> {
    type Output = Result<(SendStream, RecvStream), ConnectionError>;
    fn poll(self: Pin<&mut Self>, _cx: &mut Context<'_>) -> Poll<Self::Output> {
        let mut g = self.conn.0.lock().unwrap();
        if let Some(e) = &g.error {
            return Poll::Ready(Err(e.clone()));
        }
        let idx = g.next_bi;
        g.next_bi += 1;
        let id = (idx << 2) | g.server as u64;
        let fault = g.open_send_faults.pop_front().flatten();
        let slog = Arc::new(Mutex::new(SendLog { fault, explore: g.explore, ..Default::default() }));
        let rlog = Arc::new(Mutex::new(RecvLog { end: Some(RecvEnd::Open), explore: g.explore, ..Default::default() }));
        g.send_logs.push((id, slog.clone()));
        g.recv_logs.push((id, rlog.clone()));
        Poll::Ready(Ok((SendStream { id: StreamId(id), log: slog }, RecvStream { id: StreamId(id), is_0rtt: false, log: rlog })))
    }
}

impl<'a> Future for OpenUni<'a> {
    type Output = Result<SendStream, ConnectionError>;
    fn poll(self: Pin<&mut Self>, _cx: &mut Context<'_>) -> Poll<Self::Output> {
        let mut g = self.conn.0.lock().unwrap();
        if let Some(e) = &g.error {
            return Poll::Ready(Err(e.clone()));
        }
        let idx = g.next_uni;
        g.next_uni += 1;
        let id = (idx << 2) | 2 | g.server as u64;
        let fault = g.open_send_faults.pop_front().flatten();
        let slog = Arc::new(Mutex::new(SendLog { fault, explore: g.explore, ..Default::default() }));
        g.send_logs.push((id, slog.clone()));
        Poll::Ready(Ok(SendStream { id: StreamId(id), log: slog }))
    }
}

impl<'a> Future for ReadDatagram<'a> {
    type Output = Result<Bytes, ConnectionError>;
    fn poll(self: Pin<&mut Self>, _cx: &mut Context<'_>) -> Poll<Self::Output> {
        let mut g = self.conn.0.lock().unwrap();
        if let Some(d) = g.datagrams_in.pop_front() {
            return Poll::Ready(Ok(d));
        }
        match &g.error {
            Some(e) => Poll::Ready(Err(e.clone())),
            None => Poll::Pending,
        }
    }
}
