//! Deterministic single-threaded executor. The only nondeterminism is which runnable task is
//! polled next: a `choose` over the FIFO run queue (default = front, as tokio's
//! current-thread scheduler would do).

use explore::choose;
use explore::panics::guard;
use std::collections::VecDeque;
use std::future::Future;
use std::pin::Pin;
use std::sync::{Arc, Mutex};
use std::task::{Context, Poll, Wake, Waker};

type BoxFut = Pin<Box<dyn Future<Output = ()>>>;

/// Shared observation log: what the application-level tasks saw, in order.
#[derive(Clone, Default)]
pub struct Obs(pub Arc<Mutex<Vec<String>>>);
impl Obs {
    pub fn new() -> Obs {
        Obs::default()
    }
    pub fn push(&self, s: impl Into<String>) {
        self.0.lock().unwrap().push(s.into());
    }
    pub fn snapshot(&self) -> Vec<String> {
        self.0.lock().unwrap().clone()
    }
    pub fn contains(&self, needle: &str) -> bool {
        self.0.lock().unwrap().iter().any(|l| l.contains(needle))
    }
    pub fn len(&self) -> usize {
        self.0.lock().unwrap().len()
    }
    pub fn is_empty(&self) -> bool {
        self.len() == 0
    }
}

#[derive(Default)]
struct RunQ {
    q: VecDeque<usize>,
    queued: Vec<bool>,
}

struct TaskWaker {
    id: usize,
    rq: Arc<Mutex<RunQ>>,
}
impl Wake for TaskWaker {
    fn wake(self: Arc<Self>) {
        self.wake_by_ref()
    }
    fn wake_by_ref(self: &Arc<Self>) {
        let mut g = self.rq.lock().unwrap();
        if self.id < g.queued.len() && !g.queued[self.id] {
            g.queued[self.id] = true;
            g.q.push_back(self.id);
        }
    }
}

struct Task {
    name: String,
    fut: Option<BoxFut>,
    waker: Waker,
    panicked: Option<String>,
    polls: usize,
}

/// Lets a task spawn further tasks (e.g. one handler per accepted request).
#[derive(Clone, Default)]
pub struct Spawner(Arc<Mutex<Vec<(String, SendBox)>>>);
struct SendBox(BoxFut);
// The executor is single-threaded; the box never crosses threads.
unsafe impl Send for SendBox {}
impl Spawner {
    pub fn spawn(&self, name: impl Into<String>, f: impl Future<Output = ()> + 'static) {
        self.0.lock().unwrap().push((name.into(), SendBox(Box::pin(f))));
    }
}

#[derive(Debug, Clone, Default)]
pub struct Quiescence {
    pub steps: usize,
    /// names of tasks that have not finished
    pub pending: Vec<String>,
    /// (task, "message @ file:line")
    pub panics: Vec<(String, String)>,
    /// the step horizon was reached with runnable tasks left (livelock suspicion)
    pub horizon_hit: bool,
}

pub struct Exec {
    tasks: Vec<Task>,
    rq: Arc<Mutex<RunQ>>,
    spawner: Spawner,
    pub steps: usize,
}

impl Default for Exec {
    fn default() -> Self {
        Self::new()
    }
}

impl Exec {
    pub fn new() -> Exec {
        Exec {
            tasks: Vec::new(),
            rq: Arc::new(Mutex::new(RunQ::default())),
            spawner: Spawner::default(),
            steps: 0,
        }
    }

    pub fn spawner(&self) -> Spawner {
        self.spawner.clone()
    }

    pub fn spawn(&mut self, name: impl Into<String>, f: impl Future<Output = ()> + 'static) {
        self.add(name.into(), Box::pin(f));
    }

    fn add(&mut self, name: String, fut: BoxFut) {
        let id = self.tasks.len();
        let waker = Waker::from(Arc::new(TaskWaker {
            id,
            rq: self.rq.clone(),
        }));
        self.tasks.push(Task {
            name,
            fut: Some(fut),
            waker,
            panicked: None,
            polls: 0,
        });
        let mut g = self.rq.lock().unwrap();
        g.queued.push(true);
        g.q.push_back(id);
    }

    fn adopt_spawned(&mut self) {
        let new: Vec<(String, SendBox)> = std::mem::take(&mut *self.spawner.0.lock().unwrap());
        for (n, f) in new {
            self.add(n, f.0);
        }
    }

    pub fn task_done(&self, name: &str) -> bool {
        self.tasks.iter().any(|t| t.name == name && t.fut.is_none() && t.panicked.is_none())
    }

    /// Run until no task is runnable (quiescence) or `horizon` polls were made.
    pub fn run(&mut self, horizon: usize, mut on_step: impl FnMut(usize)) -> Quiescence {
        let mut horizon_hit = false;
        loop {
            self.adopt_spawned();
            let pick = {
                let mut g = self.rq.lock().unwrap();
                if g.q.is_empty() {
                    break;
                }
                if self.steps >= horizon {
                    horizon_hit = true;
                    break;
                }
                let n = g.q.len();
                drop(g);
                let c = choose(n, "sched");
                g = self.rq.lock().unwrap();
                let id = g.q.remove(c).expect("run queue entry");
                g.queued[id] = false;
                id
            };
            self.steps += 1;
            explore::watch::tick();
            let t = &mut self.tasks[pick];
            if let Some(fut) = t.fut.as_mut() {
                t.polls += 1;
                let waker = t.waker.clone();
                let r = guard(|| {
                    let mut cx = Context::from_waker(&waker);
                    fut.as_mut().poll(&mut cx)
                });
                match r {
                    Ok(Poll::Ready(())) => {
                        t.fut = None;
                    }
                    Ok(Poll::Pending) => {}
                    Err(p) => {
                        t.panicked = Some(p);
                        // dropping a future that panicked mid-poll may panic again; contain it
                        let f = t.fut.take();
                        let _ = guard(move || drop(f));
                    }
                }
            }
            on_step(pick);
        }
        explore::watch::idle();
        Quiescence {
            steps: self.steps,
            pending: self
                .tasks
                .iter()
                .filter(|t| t.fut.is_some())
                .map(|t| t.name.clone())
                .collect(),
            panics: self
                .tasks
                .iter()
                .filter_map(|t| t.panicked.clone().map(|p| (t.name.clone(), p)))
                .collect(),
            horizon_hit,
        }
    }
}

impl Drop for Exec {
    fn drop(&mut self) {
        // dropping half-finished h3 futures runs h3 Drop impls; a panic there must not abort
        let tasks = std::mem::take(&mut self.tasks);
        let _ = guard(move || drop(tasks));
    }
}

/// Give the scheduler a chance to run something else (one script step per poll).
pub fn yield_now() -> impl Future<Output = ()> {
    struct Y(bool);
    impl Future for Y {
        type Output = ();
        fn poll(mut self: Pin<&mut Self>, cx: &mut Context<'_>) -> Poll<()> {
            if self.0 {
                Poll::Ready(())
            } else {
                self.0 = true;
                cx.waker().wake_by_ref();
                Poll::Pending
            }
        }
    }
    Y(false)
}

/// Poll a future exactly once (used to model "the application polls the driver once").
pub fn poll_once<F: Future + Unpin>(f: &mut F) -> impl Future<Output = Option<F::Output>> + '_ {
    struct P<'a, F>(&'a mut F);
    impl<'a, F: Future + Unpin> Future for P<'a, F> {
        type Output = Option<F::Output>;
        fn poll(mut self: Pin<&mut Self>, cx: &mut Context<'_>) -> Poll<Self::Output> {
            match Pin::new(&mut *self.0).poll(cx) {
                Poll::Ready(v) => Poll::Ready(Some(v)),
                Poll::Pending => Poll::Ready(None),
            }
        }
    }
    P(f)
}
