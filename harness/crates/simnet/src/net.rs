//! The shared state of one simulated QUIC connection and the raw (script-side) operations.

use explore::Fnv;
use std::collections::{BTreeMap, VecDeque};
use std::sync::{Arc, Mutex, MutexGuard};
use std::task::Waker;

pub const CLIENT: usize = 0;
pub const SERVER: usize = 1;

/// How a pipe hands bytes to its reader / takes bytes from its writer.
#[derive(Clone, Copy, Debug, PartialEq, Eq)]
pub enum Policy {
    /// everything at once (no choice point)
    Whole,
    /// one byte per poll (no choice point)
    PerByte,
    /// default = everything; deviations = cut after k bytes (k from the cut set), or answer
    /// `Pending` first (delay)
    Choose,
}

#[derive(Clone, Debug)]
pub struct NetCfg {
    pub read: Policy,
    pub write: Policy,
    /// if set, `Choose` applies only to these stream ids (others behave as `Whole`)
    pub focus: Option<Vec<u64>>,
    /// offer "Pending although data is available" as a deviation
    pub allow_delay: bool,
    /// number of unidirectional streams each side may open before `poll_open_send` blocks
    pub uni_credit: [Option<usize>; 2],
    pub bidi_credit: [Option<usize>; 2],
    /// cut candidates are taken at all offsets when at most this many bytes are available
    pub dense_cut_limit: usize,
    /// a stream on which an endpoint has written more than this many bytes is a runaway writer (a subject that
    /// keeps re-sending): further writes fail and the fact is logged as a misuse, so that the execution ends
    /// instead of filling the memory. Far above anything a scenario writes legitimately.
    pub max_stream_bytes: usize,
}

impl Default for NetCfg {
    fn default() -> Self {
        NetCfg {
            read: Policy::Whole,
            write: Policy::Whole,
            focus: None,
            allow_delay: false,
            uni_credit: [None, None],
            bidi_credit: [None, None],
            dense_cut_limit: 6,
            max_stream_bytes: 8 << 20,
        }
    }
}

/// Connection-level condition seen by one side's transport calls.
#[derive(Clone, Debug, PartialEq, Eq)]
pub enum ConnErr {
    /// the peer closed with an application code
    ApplicationClose(u64),
    Timeout,
    /// this side closed the connection itself (Quinn: LocallyClosed)
    LocallyClosed,
    /// an error h3 does not know (transport-level)
    Undefined,
    /// the transport adapter reports an internal error (h3 then closes with H3_INTERNAL_ERROR)
    Internal,
}

#[derive(Default, Debug)]
pub struct Pipe {
    /// complete log of bytes the writer handed to the transport ("the wire")
    pub written: Vec<u8>,
    /// how many of them the reader has received
    pub delivered: usize,
    pub fin: bool,
    pub fin_delivered: bool,
    pub reset: Option<u64>,
    pub stop: Option<u64>,
    /// offsets at which a writer-side chunk ended (interesting cut positions)
    pub marks: Vec<usize>,
    pub reader_waker: Option<Waker>,
    pub writer_waker: Option<Waker>,
    /// number of `stop_sending` / `reset` calls seen (must be idempotent for h3)
    pub stop_calls: Vec<u64>,
    pub reset_calls: Vec<u64>,
    /// the stream has been announced to the accepting side
    pub announced: bool,
    /// bytes handed to `send_data` that the transport has not taken yet (a write is in flight)
    pub pending_write: usize,
    /// the transport reports this connection-level condition on reads of THIS stream only (the other
    /// transport calls of the side - accept, open - are not failed or woken by it)
    pub read_conn_err: Option<ConnErr>,
}

impl Pipe {
    pub fn available(&self) -> usize {
        self.written.len() - self.delivered
    }
}

#[derive(Debug)]
pub struct Stream {
    pub id: u64,
    /// initiator -> acceptor
    pub fwd: Pipe,
    /// acceptor -> initiator (bidirectional streams only)
    pub back: Option<Pipe>,
}

impl Stream {
    pub fn initiator(&self) -> usize {
        (self.id & 1) as usize
    }
    pub fn is_bidi(&self) -> bool {
        self.id & 2 == 0
    }
    /// the pipe on which `side` writes
    pub fn pipe_w(&mut self, side: usize) -> Option<&mut Pipe> {
        if side == (self.id & 1) as usize {
            Some(&mut self.fwd)
        } else {
            self.back.as_mut()
        }
    }
    /// the pipe from which `side` reads
    pub fn pipe_r(&mut self, side: usize) -> Option<&mut Pipe> {
        if side == (self.id & 1) as usize {
            self.back.as_mut()
        } else {
            Some(&mut self.fwd)
        }
    }
}

#[derive(Default)]
pub struct SideState {
    pub accept_bidi: VecDeque<u64>,
    pub accept_uni: VecDeque<u64>,
    pub accept_bidi_waker: Option<Waker>,
    pub accept_uni_waker: Option<Waker>,
    pub open_wakers: Vec<Waker>,
    pub next_bidi: u64,
    pub next_uni: u64,
    pub opened_uni: usize,
    pub opened_bidi: usize,
    /// `OpenStreams::close` calls made by this side
    pub close_calls: Vec<(u64, Vec<u8>)>,
    /// what this side's transport calls report from now on
    pub conn_err: Option<ConnErr>,
    pub datagrams_in: VecDeque<Vec<u8>>,
    pub datagram_waker: Option<Waker>,
    pub datagrams_sent: Vec<Vec<u8>>,
    /// transport-contract violations by the h3 code driving this side
    pub misuse: Vec<String>,
}

pub struct NetInner {
    pub cfg: NetCfg,
    pub streams: BTreeMap<u64, Stream>,
    pub sides: [SideState; 2],
    /// chronological log of transport-visible events (for oracles and fingerprints)
    pub events: Vec<String>,
}

#[derive(Clone)]
pub struct Net(pub Arc<Mutex<NetInner>>);

fn wake(w: &mut Option<Waker>) {
    if let Some(w) = w.take() {
        w.wake();
    }
}

impl NetInner {
    pub fn stream(&mut self, id: u64) -> &mut Stream {
        self.streams.get_mut(&id).expect("unknown stream id")
    }

    pub fn ensure_stream(&mut self, id: u64) -> &mut Stream {
        self.streams.entry(id).or_insert_with(|| Stream {
            id,
            fwd: Pipe::default(),
            back: if id & 2 == 0 { Some(Pipe::default()) } else { None },
        })
    }

    /// Make the stream visible to the side that has to accept it (first STREAM frame).
    pub fn announce(&mut self, id: u64) {
        let s = self.ensure_stream(id);
        if s.fwd.announced {
            return;
        }
        s.fwd.announced = true;
        let acceptor = 1 - (id & 1) as usize;
        let side = &mut self.sides[acceptor];
        if id & 2 == 0 {
            side.accept_bidi.push_back(id);
            wake(&mut side.accept_bidi_waker);
        } else {
            side.accept_uni.push_back(id);
            wake(&mut side.accept_uni_waker);
        }
    }

    pub fn wake_everything(&mut self, side: usize) {
        let s = &mut self.sides[side];
        wake(&mut s.accept_bidi_waker);
        wake(&mut s.accept_uni_waker);
        wake(&mut s.datagram_waker);
        for w in s.open_wakers.drain(..) {
            w.wake();
        }
        for st in self.streams.values_mut() {
            if let Some(p) = st.pipe_r(side) {
                wake(&mut p.reader_waker);
            }
            if let Some(p) = st.pipe_w(side) {
                wake(&mut p.writer_waker);
            }
        }
    }

    /// `side` closes the connection with an application error code.
    pub fn close(&mut self, side: usize, code: u64, reason: &[u8]) {
        self.events.push(format!("close side={side} code={code:#x}"));
        self.sides[side].close_calls.push((code, reason.to_vec()));
        if self.sides[side].conn_err.is_none() {
            self.sides[side].conn_err = Some(ConnErr::LocallyClosed);
        }
        if self.sides[1 - side].conn_err.is_none() {
            self.sides[1 - side].conn_err = Some(ConnErr::ApplicationClose(code));
        }
        self.wake_everything(0);
        self.wake_everything(1);
    }

    pub fn focus(&self, id: u64) -> bool {
        match &self.cfg.focus {
            None => true,
            Some(v) => v.contains(&id),
        }
    }
}

impl Net {
    pub fn new(cfg: NetCfg) -> Net {
        Net(Arc::new(Mutex::new(NetInner {
            cfg,
            streams: BTreeMap::new(),
            sides: [SideState::default(), SideState::default()],
            events: Vec::new(),
        })))
    }

    pub fn lock(&self) -> MutexGuard<'_, NetInner> {
        self.0.lock().unwrap_or_else(|e| e.into_inner())
    }

    // ---- raw operations: a script acting as `side` without an h3 endpoint -------------------

    /// Open (announce) a stream with an explicit id chosen by the script.
    pub fn raw_open(&self, id: u64) {
        let mut g = self.lock();
        g.events.push(format!("raw_open {id}"));
        g.ensure_stream(id);
        g.announce(id);
    }

    pub fn raw_write(&self, side: usize, id: u64, bytes: &[u8]) {
        let mut g = self.lock();
        g.ensure_stream(id);
        if side == (id & 1) as usize {
            g.announce(id);
        }
        let s = g.stream(id);
        let p = s.pipe_w(side).expect("raw_write on a pipe that does not exist");
        p.written.extend_from_slice(bytes);
        let m = p.written.len();
        p.marks.push(m);
        wake(&mut p.reader_waker);
    }

    /// Record an interesting cut offset (e.g. a frame boundary inside one write).
    pub fn raw_mark(&self, side: usize, id: u64, offset_from_end: usize) {
        let mut g = self.lock();
        let s = g.stream(id);
        let p = s.pipe_w(side).unwrap();
        let m = p.written.len() - offset_from_end;
        p.marks.push(m);
    }

    pub fn raw_fin(&self, side: usize, id: u64) {
        let mut g = self.lock();
        g.ensure_stream(id);
        if side == (id & 1) as usize {
            g.announce(id);
        }
        let p = g.stream(id).pipe_w(side).unwrap();
        p.fin = true;
        wake(&mut p.reader_waker);
    }

    pub fn raw_reset(&self, side: usize, id: u64, code: u64) {
        let mut g = self.lock();
        g.ensure_stream(id);
        if side == (id & 1) as usize {
            g.announce(id);
        }
        let p = g.stream(id).pipe_w(side).unwrap();
        if p.reset.is_none() {
            p.reset = Some(code);
        }
        wake(&mut p.reader_waker);
    }

    pub fn raw_stop_sending(&self, side: usize, id: u64, code: u64) {
        let mut g = self.lock();
        g.ensure_stream(id);
        let p = g.stream(id).pipe_r(side).expect("no such pipe");
        if p.stop.is_none() {
            p.stop = Some(code);
        }
        wake(&mut p.writer_waker);
    }

    /// Has the peer of `me` asked it to stop sending on stream `id` (is the request known to `me`'s transport)?
    pub fn write_side_stopped(&self, me: usize, id: u64) -> bool {
        let mut g = self.lock();
        if !g.streams.contains_key(&id) {
            return false;
        }
        g.stream(id).pipe_w(me).map(|p| p.stop.is_some()).unwrap_or(false)
    }

    pub fn raw_close(&self, side: usize, code: u64) {
        self.lock().close(side, code, b"script");
    }

    /// Make every transport call of `side` fail with `err` from now on.
    /// The next read of stream `id` by `side` reports the connection-level condition `err`; nothing else is
    /// failed or woken (a transport that notices the loss on one stream first).
    pub fn raw_stream_read_conn_err(&self, side: usize, id: u64, err: ConnErr) {
        let mut g = self.lock();
        let st = g.stream(id);
        let p = st.pipe_r(side).expect("read pipe");
        p.read_conn_err = Some(err);
        if let Some(w) = p.reader_waker.take() {
            w.wake();
        }
    }

    pub fn inject_conn_err(&self, side: usize, err: ConnErr) {
        let mut g = self.lock();
        if g.sides[side].conn_err.is_none() {
            g.sides[side].conn_err = Some(err);
        }
        g.wake_everything(side);
    }

    pub fn raw_grant_uni(&self, side: usize, n: usize) {
        let mut g = self.lock();
        if let Some(c) = g.cfg.uni_credit[side].as_mut() {
            *c += n;
        }
        for w in g.sides[side].open_wakers.drain(..) {
            w.wake();
        }
    }

    pub fn raw_grant_bidi(&self, side: usize, n: usize) {
        let mut g = self.lock();
        if let Some(c) = g.cfg.bidi_credit[side].as_mut() {
            *c += n;
        }
        for w in g.sides[side].open_wakers.drain(..) {
            w.wake();
        }
    }

    pub fn raw_datagram(&self, to_side: usize, bytes: &[u8]) {
        let mut g = self.lock();
        g.sides[to_side].datagrams_in.push_back(bytes.to_vec());
        wake(&mut g.sides[to_side].datagram_waker);
    }

    // ---- observation ------------------------------------------------------------------------

    /// Bytes written so far by `side` on stream `id` (the wire log).
    pub fn wire(&self, side: usize, id: u64) -> Vec<u8> {
        let mut g = self.lock();
        match g.streams.get_mut(&id).and_then(|s| s.pipe_w(side)) {
            Some(p) => p.written.clone(),
            None => Vec::new(),
        }
    }

    /// bytes of a write in flight on the pipe `side` writes on
    pub fn pending_write(&self, side: usize, id: u64) -> usize {
        let mut g = self.lock();
        g.streams.get_mut(&id).and_then(|s| s.pipe_w(side)).map(|p| p.pending_write).unwrap_or(0)
    }

    pub fn conn_dead(&self, side: usize) -> bool {
        self.lock().sides[side].conn_err.is_some()
    }

    /// (fin, reset code, stop code) of the pipe `side` writes on.
    pub fn wire_end(&self, side: usize, id: u64) -> (bool, Option<u64>, Option<u64>) {
        let mut g = self.lock();
        match g.streams.get_mut(&id).and_then(|s| s.pipe_w(side)) {
            Some(p) => (p.fin, p.reset, p.stop),
            None => (false, None, None),
        }
    }

    /// stream ids on which `side` has written / finished / reset anything
    pub fn streams_written_by(&self, side: usize) -> Vec<u64> {
        let mut g = self.lock();
        let ids: Vec<u64> = g.streams.keys().copied().collect();
        ids.into_iter()
            .filter(|id| {
                let s = g.streams.get_mut(id).unwrap();
                match s.pipe_w(side) {
                    Some(p) => {
                        !p.written.is_empty() || p.fin || p.reset.is_some() || (side == (id & 1) as usize)
                    }
                    None => false,
                }
            })
            .collect()
    }

    pub fn close_calls(&self, side: usize) -> Vec<(u64, Vec<u8>)> {
        self.lock().sides[side].close_calls.clone()
    }

    pub fn misuse(&self, side: usize) -> Vec<String> {
        self.lock().sides[side].misuse.clone()
    }

    /// STOP_SENDING codes `side` has sent on stream `id` (calls, in order)
    pub fn stop_calls(&self, side: usize, id: u64) -> Vec<u64> {
        let mut g = self.lock();
        match g.streams.get_mut(&id).and_then(|s| s.pipe_r(side)) {
            Some(p) => p.stop_calls.clone(),
            None => Vec::new(),
        }
    }

    pub fn reset_calls(&self, side: usize, id: u64) -> Vec<u64> {
        let mut g = self.lock();
        match g.streams.get_mut(&id).and_then(|s| s.pipe_w(side)) {
            Some(p) => p.reset_calls.clone(),
            None => Vec::new(),
        }
    }

    /// Cheap fingerprint: lengths, cursors and flags (not the byte contents).
    pub fn fingerprint_light(&self) -> u64 {
        let g = self.lock();
        let mut h = Fnv::new();
        for (id, s) in &g.streams {
            h.u64(*id);
            for p in std::iter::once(&s.fwd).chain(s.back.iter()) {
                h.u64(p.written.len() as u64);
                h.u64(p.delivered as u64);
                h.u64(p.fin as u64 | (p.fin_delivered as u64) << 1 | (p.reset.is_some() as u64) << 2 | (p.stop.is_some() as u64) << 3);
            }
        }
        for s in &g.sides {
            h.u64(s.accept_bidi.len() as u64 | (s.accept_uni.len() as u64) << 8 | (s.close_calls.len() as u64) << 16 | (s.conn_err.is_some() as u64) << 24);
        }
        h.finish()
    }

    /// Fingerprint of the complete transport state (bytes, cursors, flags, queues).
    pub fn fingerprint(&self) -> u64 {
        let g = self.lock();
        let mut h = Fnv::new();
        for (id, s) in &g.streams {
            h.u64(*id);
            for p in std::iter::once(&s.fwd).chain(s.back.iter()) {
                h.bytes(&p.written);
                h.u64(p.delivered as u64);
                h.u64(p.fin as u64 | (p.fin_delivered as u64) << 1);
                h.u64(p.reset.map(|c| c + 1).unwrap_or(0));
                h.u64(p.stop.map(|c| c + 1).unwrap_or(0));
            }
        }
        for s in &g.sides {
            h.u64(s.accept_bidi.len() as u64);
            h.u64(s.accept_uni.len() as u64);
            h.u64(s.close_calls.len() as u64);
            h.u64(s.opened_uni as u64);
            h.u64(s.opened_bidi as u64);
            h.u64(match &s.conn_err {
                None => 0,
                Some(ConnErr::ApplicationClose(c)) => 10 + c,
                Some(ConnErr::Timeout) => 1,
                Some(ConnErr::LocallyClosed) => 2,
                Some(ConnErr::Undefined) => 3,
                Some(ConnErr::Internal) => 4,
            });
            h.u64(s.datagrams_in.len() as u64);
        }
        h.finish()
    }
}
