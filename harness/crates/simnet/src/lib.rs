//! In-memory QUIC transport implementing `h3::quic`, whose every environment answer is a
//! `explore::choose` call, plus a deterministic single-threaded executor.
//!
//! The world is closed: one `Net` holds every stream of one connection between side 0
//! (client) and side 1 (server). A side is driven either by a real h3 endpoint (through the
//! trait implementations in `conn`) or by a script acting directly on the `Net` (`raw`).

pub mod conn;
pub mod exec;
pub mod net;

pub use conn::{SimBidi, SimConn, SimOpener, SimRecv, SimSend};
pub use exec::{Exec, Obs, Quiescence, Spawner};
pub use net::{ConnErr, Net, NetCfg, Policy, CLIENT, SERVER};
