//! placeholder
