//! `h3::quic` trait implementations over `Net`.

use crate::net::{ConnErr, Net, NetInner, Policy};
use bytes::{Buf, Bytes};
use explore::choose;
use h3::quic::{
    self, ConnectionErrorIncoming, StreamErrorIncoming, StreamId, WriteBuf,
};
use std::convert::TryFrom;
use std::marker::PhantomData;
use std::sync::Arc;
use std::task::{Context, Poll};

#[derive(Debug)]
pub struct SimError(pub &'static str);
impl std::fmt::Display for SimError {
    fn fmt(&self, f: &mut std::fmt::Formatter<'_>) -> std::fmt::Result {
        write!(f, "simnet: {}", self.0)
    }
}
impl std::error::Error for SimError {}

pub fn conn_err(e: &ConnErr) -> ConnectionErrorIncoming {
    match e {
        ConnErr::ApplicationClose(c) => ConnectionErrorIncoming::ApplicationClose { error_code: *c },
        ConnErr::Timeout => ConnectionErrorIncoming::Timeout,
        ConnErr::LocallyClosed => ConnectionErrorIncoming::Undefined(Arc::new(SimError("locally closed"))),
        ConnErr::Undefined => ConnectionErrorIncoming::Undefined(Arc::new(SimError("transport error"))),
        ConnErr::Internal => ConnectionErrorIncoming::InternalError("transport adapter failure".into()),
    }
}

fn stream_conn_err(e: &ConnErr) -> StreamErrorIncoming {
    StreamErrorIncoming::ConnectionErrorIncoming {
        connection_error: conn_err(e),
    }
}

/// Record a transport-contract violation (bounded: a looping offender must not eat the memory).
fn push_misuse(log: &mut Vec<String>, m: String) {
    if log.len() < 8 {
        log.push(m);
    }
}

fn sid(id: u64) -> StreamId {
    StreamId::try_from(id).expect("simnet stream id in range")
}

/// The connection object handed to `h3::{client,server}::builder().build(..)`.
pub struct SimConn {
    pub net: Net,
    pub side: usize,
}

#[derive(Clone)]
pub struct SimOpener {
    pub net: Net,
    pub side: usize,
}

impl SimConn {
    pub fn new(net: &Net, side: usize) -> SimConn {
        SimConn {
            net: net.clone(),
            side,
        }
    }
}

fn open_uni<B: Buf>(net: &Net, side: usize, cx: &mut Context<'_>) -> Poll<Result<SimSend<B>, StreamErrorIncoming>> {
    let mut g = net.lock();
    if let Some(e) = &g.sides[side].conn_err {
        return Poll::Ready(Err(stream_conn_err(e)));
    }
    if let Some(c) = g.cfg.uni_credit[side].as_mut() {
        if *c == 0 {
            g.sides[side].open_wakers.push(cx.waker().clone());
            return Poll::Pending;
        }
        *c -= 1;
    }
    let idx = g.sides[side].next_uni;
    g.sides[side].next_uni += 1;
    g.sides[side].opened_uni += 1;
    let id = (idx << 2) | 2 | side as u64;
    g.ensure_stream(id);
    g.events.push(format!("open_uni side={side} id={id}"));
    Poll::Ready(Ok(SimSend::new(net, side, id)))
}

fn open_bidi<B: Buf>(net: &Net, side: usize, cx: &mut Context<'_>) -> Poll<Result<SimBidi<B>, StreamErrorIncoming>> {
    let mut g = net.lock();
    if let Some(e) = &g.sides[side].conn_err {
        return Poll::Ready(Err(stream_conn_err(e)));
    }
    if let Some(c) = g.cfg.bidi_credit[side].as_mut() {
        if *c == 0 {
            g.sides[side].open_wakers.push(cx.waker().clone());
            return Poll::Pending;
        }
        *c -= 1;
    }
    let idx = g.sides[side].next_bidi;
    g.sides[side].next_bidi += 1;
    g.sides[side].opened_bidi += 1;
    let id = (idx << 2) | side as u64;
    g.ensure_stream(id);
    g.events.push(format!("open_bidi side={side} id={id}"));
    Poll::Ready(Ok(SimBidi {
        send: SimSend::new(net, side, id),
        recv: SimRecv::new(net, side, id),
    }))
}

fn do_close(net: &Net, side: usize, code: h3::error::Code, reason: &[u8]) {
    net.lock().close(side, code.value(), reason);
}

impl<B: Buf> quic::OpenStreams<B> for SimConn {
    type BidiStream = SimBidi<B>;
    type SendStream = SimSend<B>;
    fn poll_open_bidi(&mut self, cx: &mut Context<'_>) -> Poll<Result<Self::BidiStream, StreamErrorIncoming>> {
        open_bidi(&self.net, self.side, cx)
    }
    fn poll_open_send(&mut self, cx: &mut Context<'_>) -> Poll<Result<Self::SendStream, StreamErrorIncoming>> {
        open_uni(&self.net, self.side, cx)
    }
    fn close(&mut self, code: h3::error::Code, reason: &[u8]) {
        do_close(&self.net, self.side, code, reason)
    }
}

impl<B: Buf> quic::OpenStreams<B> for SimOpener {
    type BidiStream = SimBidi<B>;
    type SendStream = SimSend<B>;
    fn poll_open_bidi(&mut self, cx: &mut Context<'_>) -> Poll<Result<Self::BidiStream, StreamErrorIncoming>> {
        open_bidi(&self.net, self.side, cx)
    }
    fn poll_open_send(&mut self, cx: &mut Context<'_>) -> Poll<Result<Self::SendStream, StreamErrorIncoming>> {
        open_uni(&self.net, self.side, cx)
    }
    fn close(&mut self, code: h3::error::Code, reason: &[u8]) {
        do_close(&self.net, self.side, code, reason)
    }
}

impl<B: Buf> quic::Connection<B> for SimConn {
    type RecvStream = SimRecv;
    type OpenStreams = SimOpener;

    fn poll_accept_recv(&mut self, cx: &mut Context<'_>) -> Poll<Result<Self::RecvStream, ConnectionErrorIncoming>> {
        let mut g = self.net.lock();
        let side = &mut g.sides[self.side];
        if let Some(id) = side.accept_uni.pop_front() {
            return Poll::Ready(Ok(SimRecv::new(&self.net, self.side, id)));
        }
        if let Some(e) = &side.conn_err {
            return Poll::Ready(Err(conn_err(e)));
        }
        side.accept_uni_waker = Some(cx.waker().clone());
        Poll::Pending
    }

    fn poll_accept_bidi(&mut self, cx: &mut Context<'_>) -> Poll<Result<Self::BidiStream, ConnectionErrorIncoming>> {
        let mut g = self.net.lock();
        let side = &mut g.sides[self.side];
        if let Some(id) = side.accept_bidi.pop_front() {
            return Poll::Ready(Ok(SimBidi {
                send: SimSend::new(&self.net, self.side, id),
                recv: SimRecv::new(&self.net, self.side, id),
            }));
        }
        if let Some(e) = &side.conn_err {
            return Poll::Ready(Err(conn_err(e)));
        }
        side.accept_bidi_waker = Some(cx.waker().clone());
        Poll::Pending
    }

    fn opener(&self) -> Self::OpenStreams {
        SimOpener {
            net: self.net.clone(),
            side: self.side,
        }
    }
}

// ------------------------------------------------------------------------------------------
// send side

pub struct SimSend<B: Buf> {
    net: Net,
    side: usize,
    id: u64,
    writing: Option<WriteBuf<B>>,
    /// partial answers already given for the write in flight (bounds unbounded DFS)
    partials: usize,
    _b: PhantomData<B>,
}

const MAX_PARTIALS_PER_WRITE: usize = 3;

impl<B: Buf> SimSend<B> {
    fn new(net: &Net, side: usize, id: u64) -> Self {
        SimSend {
            net: net.clone(),
            side,
            id,
            writing: None,
            partials: 0,
            _b: PhantomData,
        }
    }
}

/// Move up to `budget` bytes from `data` to the pipe, through `chunk()`/`advance()` exactly as a
/// real transport does. Returns the number of bytes moved.
fn transfer<D: Buf>(g: &mut NetInner, side: usize, id: u64, data: &mut D, mut budget: usize, one_chunk: bool) -> usize {
    let mut moved = 0;
    while budget > 0 && data.has_remaining() {
        let c = data.chunk();
        if c.is_empty() {
            push_misuse(&mut g.sides[side].misuse, format!("stream {id}: Buf reports {} remaining but an empty chunk", data.remaining()));
            break;
        }
        let take = c.len().min(budget);
        let whole_chunk = take == c.len();
        let st = g.stream(id);
        let p = st.pipe_w(side).expect("write pipe");
        p.written.extend_from_slice(&c[..take]);
        if whole_chunk {
            let m = p.written.len();
            p.marks.push(m);
        }
        data.advance(take);
        budget -= take;
        moved += take;
        if one_chunk {
            break;
        }
    }
    if moved > 0 {
        if side == (id & 1) as usize {
            g.announce(id);
        }
        if let Some(w) = g.stream(id).pipe_w(side).unwrap().reader_waker.take() {
            w.wake();
        }
    }
    moved
}

fn write_cut_candidates(n: usize, first_chunk: usize) -> Vec<usize> {
    let mut k = vec![0usize, 1, 2];
    if first_chunk < n {
        k.extend([first_chunk.saturating_sub(1), first_chunk, first_chunk + 1]);
    }
    k.push(n - 1);
    k.retain(|&x| x < n);
    k.sort_unstable();
    k.dedup();
    k
}

impl<B: Buf> quic::SendStream<B> for SimSend<B> {
    fn poll_ready(&mut self, cx: &mut Context<'_>) -> Poll<Result<(), StreamErrorIncoming>> {
        let mut g = self.net.lock();
        if let Some(e) = &g.sides[self.side].conn_err {
            return Poll::Ready(Err(stream_conn_err(e)));
        }
        if let Some(code) = g.stream(self.id).pipe_w(self.side).unwrap().stop {
            // like the Quinn adapter (since 1462f61): a write that failed is forgotten, so that a later call on the
            // stream meets the peer's STOP_SENDING again instead of "a write is still in flight"
            // (`pending_write` keeps the number of bytes that never went out: the stream's tail is cut short)
            self.writing = None;
            return Poll::Ready(Err(StreamErrorIncoming::StreamTerminated { error_code: code }));
        }
        let Some(data) = self.writing.as_mut() else {
            return Poll::Ready(Ok(()));
        };
        let n = data.remaining();
        if n > 0 && g.stream(self.id).pipe_w(self.side).unwrap().written.len() > g.cfg.max_stream_bytes {
            let max = g.cfg.max_stream_bytes;
            push_misuse(&mut g.sides[self.side].misuse, format!("stream {}: runaway writer (more than {max} bytes written)", self.id));
            return Poll::Ready(Err(StreamErrorIncoming::ConnectionErrorIncoming {
                connection_error: ConnectionErrorIncoming::InternalError("runaway writer".into()),
            }));
        }
        if n > 0 {
            let policy = if g.focus(self.id) { g.cfg.write } else { Policy::Whole };
            let accept = match policy {
                Policy::Whole => n,
                Policy::PerByte => 1,
                Policy::Choose => {
                    if self.partials >= MAX_PARTIALS_PER_WRITE {
                        n
                    } else {
                        let cands = write_cut_candidates(n, data.chunk().len());
                        let c = choose(1 + cands.len(), "write-accept");
                        if c == 0 {
                            n
                        } else {
                            self.partials += 1;
                            cands[c - 1]
                        }
                    }
                }
            };
            transfer(&mut g, self.side, self.id, data, accept, false);
            let left = data.remaining();
            g.stream(self.id).pipe_w(self.side).unwrap().pending_write = left;
            if data.has_remaining() {
                // flow control: more credit arrives "later" - the task is re-polled
                cx.waker().wake_by_ref();
                return Poll::Pending;
            }
        }
        self.writing = None;
        self.partials = 0;
        Poll::Ready(Ok(()))
    }

    fn send_data<T: Into<WriteBuf<B>>>(&mut self, data: T) -> Result<(), StreamErrorIncoming> {
        if self.writing.is_some() {
            let mut g = self.net.lock();
            // after a connection error an interrupted write legitimately stays behind
            if g.sides[self.side].conn_err.is_none() {
                push_misuse(&mut g.sides[self.side].misuse, format!("stream {}: send_data while a write is in flight", self.id));
            }
            return Err(StreamErrorIncoming::ConnectionErrorIncoming {
                connection_error: ConnectionErrorIncoming::InternalError("send_data while not ready".into()),
            });
        }
        let w: WriteBuf<B> = data.into();
        {
            let mut g = self.net.lock();
            let n = w.remaining();
            g.stream(self.id).pipe_w(self.side).unwrap().pending_write = n;
        }
        self.writing = Some(w);
        self.partials = 0;
        Ok(())
    }

    fn poll_finish(&mut self, _cx: &mut Context<'_>) -> Poll<Result<(), StreamErrorIncoming>> {
        let mut g = self.net.lock();
        if let Some(e) = &g.sides[self.side].conn_err {
            return Poll::Ready(Err(stream_conn_err(e)));
        }
        if self.writing.as_ref().map(|w| w.has_remaining()).unwrap_or(false) {
            push_misuse(&mut g.sides[self.side].misuse, format!("stream {}: finish while a write is in flight", self.id));
        }
        let (side, id) = (self.side, self.id);
        if side == (id & 1) as usize {
            g.announce(id);
        }
        g.events.push(format!("fin side={side} id={id}"));
        let p = g.stream(id).pipe_w(side).unwrap();
        if let Some(code) = p.stop {
            return Poll::Ready(Err(StreamErrorIncoming::StreamTerminated { error_code: code }));
        }
        p.fin = true;
        if let Some(w) = p.reader_waker.take() {
            w.wake();
        }
        Poll::Ready(Ok(()))
    }

    fn reset(&mut self, reset_code: u64) {
        let mut g = self.net.lock();
        let (side, id) = (self.side, self.id);
        if side == (id & 1) as usize {
            g.announce(id);
        }
        g.events.push(format!("reset side={side} id={id} code={reset_code:#x}"));
        let p = g.stream(id).pipe_w(side).unwrap();
        p.reset_calls.push(reset_code);
        if p.reset.is_none() {
            p.reset = Some(reset_code);
        }
        if let Some(w) = p.reader_waker.take() {
            w.wake();
        }
    }

    fn send_id(&self) -> StreamId {
        sid(self.id)
    }
}

impl<B: Buf> quic::SendStreamUnframed<B> for SimSend<B> {
    fn poll_send<D: Buf>(&mut self, cx: &mut Context<'_>, buf: &mut D) -> Poll<Result<usize, StreamErrorIncoming>> {
        let mut g = self.net.lock();
        if let Some(e) = &g.sides[self.side].conn_err {
            return Poll::Ready(Err(stream_conn_err(e)));
        }
        if let Some(code) = g.stream(self.id).pipe_w(self.side).unwrap().stop {
            return Poll::Ready(Err(StreamErrorIncoming::StreamTerminated { error_code: code }));
        }
        if self.writing.is_some() {
            push_misuse(&mut g.sides[self.side].misuse, format!("stream {}: poll_send while a framed write is in flight", self.id));
        }
        let n = buf.chunk().len();
        if n == 0 {
            return Poll::Ready(Ok(0));
        }
        let policy = if g.focus(self.id) { g.cfg.write } else { Policy::Whole };
        let accept = match policy {
            Policy::Whole => n,
            Policy::PerByte => 1,
            Policy::Choose => {
                if self.partials >= MAX_PARTIALS_PER_WRITE {
                    n
                } else {
                    let mut cands = vec![1usize, 0];
                    if n > 2 {
                        cands.push(n - 1);
                    }
                    cands.retain(|&x| x < n);
                    let c = choose(1 + cands.len(), "send-accept");
                    if c == 0 {
                        n
                    } else {
                        self.partials += 1;
                        cands[c - 1]
                    }
                }
            }
        };
        if accept == 0 {
            cx.waker().wake_by_ref();
            return Poll::Pending;
        }
        let moved = transfer(&mut g, self.side, self.id, buf, accept, true);
        Poll::Ready(Ok(moved))
    }
}

// ------------------------------------------------------------------------------------------
// receive side

pub struct SimRecv {
    net: Net,
    side: usize,
    id: u64,
    delays: usize,
}

const MAX_DELAYS_PER_PIPE: usize = 2;
const MAX_MARKS_AHEAD: usize = 32;

impl SimRecv {
    fn new(net: &Net, side: usize, id: u64) -> Self {
        SimRecv {
            net: net.clone(),
            side,
            id,
            delays: 0,
        }
    }
}

fn read_cut_candidates(avail: usize, delivered: usize, marks: &[usize], dense_limit: usize) -> Vec<usize> {
    let mut k: Vec<usize> = Vec::new();
    if avail <= dense_limit {
        k.extend(1..avail);
    } else {
        k.extend([1, 2, avail - 1]);
        // the nearest write boundaries ahead (bounded: a runaway writer must not blow up the branching)
        let start = marks.partition_point(|m| *m <= delivered); // marks are pushed in write order (ascending)
        for &m in marks[start..].iter().take(MAX_MARKS_AHEAD) {
            let rel = m - delivered;
            for d in [rel.saturating_sub(1), rel, rel + 1] {
                k.push(d);
            }
        }
    }
    k.retain(|&x| x >= 1 && x < avail);
    k.sort_unstable();
    k.dedup();
    k
}

impl quic::RecvStream for SimRecv {
    type Buf = Bytes;

    fn poll_data(&mut self, cx: &mut Context<'_>) -> Poll<Result<Option<Bytes>, StreamErrorIncoming>> {
        let mut g = self.net.lock();
        let focus = g.focus(self.id);
        let (policy, allow_delay, dense) = (
            if focus { g.cfg.read } else { Policy::Whole },
            g.cfg.allow_delay && focus,
            g.cfg.dense_cut_limit,
        );
        let side = self.side;
        let conn_error = g.sides[side].conn_err.clone();
        let p = g.stream(self.id).pipe_r(side).expect("read pipe");
        if let Some(code) = p.reset {
            return Poll::Ready(Err(StreamErrorIncoming::StreamTerminated { error_code: code }));
        }
        if let Some(e) = p.read_conn_err.clone() {
            return Poll::Ready(Err(stream_conn_err(&e)));
        }
        let avail = p.available();
        if avail == 0 {
            if p.fin {
                if policy == Policy::Choose && allow_delay && !p.fin_delivered && self.delays < MAX_DELAYS_PER_PIPE {
                    if choose(2, "fin-delay") == 1 {
                        self.delays += 1;
                        cx.waker().wake_by_ref();
                        return Poll::Pending;
                    }
                }
                p.fin_delivered = true;
                return Poll::Ready(Ok(None));
            }
            if let Some(e) = conn_error {
                return Poll::Ready(Err(stream_conn_err(&e)));
            }
            p.reader_waker = Some(cx.waker().clone());
            return Poll::Pending;
        }
        let take = match policy {
            Policy::Whole => avail,
            Policy::PerByte => 1,
            Policy::Choose => {
                let cands = read_cut_candidates(avail, p.delivered, &p.marks, dense);
                let delay = allow_delay && self.delays < MAX_DELAYS_PER_PIPE;
                let c = choose(1 + cands.len() + delay as usize, "read-chunk");
                if c == 0 {
                    avail
                } else if c <= cands.len() {
                    cands[c - 1]
                } else {
                    self.delays += 1;
                    cx.waker().wake_by_ref();
                    return Poll::Pending;
                }
            }
        };
        let chunk = Bytes::copy_from_slice(&p.written[p.delivered..p.delivered + take]);
        p.delivered += take;
        Poll::Ready(Ok(Some(chunk)))
    }

    fn stop_sending(&mut self, error_code: u64) {
        let mut g = self.net.lock();
        let (side, id) = (self.side, self.id);
        g.events.push(format!("stop_sending side={side} id={id} code={error_code:#x}"));
        let p = g.stream(id).pipe_r(side).expect("read pipe");
        p.stop_calls.push(error_code);
        if p.stop.is_none() {
            p.stop = Some(error_code);
        }
        if let Some(w) = p.writer_waker.take() {
            w.wake();
        }
    }

    fn recv_id(&self) -> StreamId {
        sid(self.id)
    }
}

impl quic::Is0rtt for SimRecv {
    fn is_0rtt(&self) -> bool {
        false
    }
}

// ------------------------------------------------------------------------------------------
// bidirectional

pub struct SimBidi<B: Buf> {
    pub send: SimSend<B>,
    pub recv: SimRecv,
}

impl<B: Buf> quic::SendStream<B> for SimBidi<B> {
    fn poll_ready(&mut self, cx: &mut Context<'_>) -> Poll<Result<(), StreamErrorIncoming>> {
        self.send.poll_ready(cx)
    }
    fn send_data<T: Into<WriteBuf<B>>>(&mut self, data: T) -> Result<(), StreamErrorIncoming> {
        self.send.send_data(data)
    }
    fn poll_finish(&mut self, cx: &mut Context<'_>) -> Poll<Result<(), StreamErrorIncoming>> {
        self.send.poll_finish(cx)
    }
    fn reset(&mut self, reset_code: u64) {
        self.send.reset(reset_code)
    }
    fn send_id(&self) -> StreamId {
        self.send.send_id()
    }
}

impl<B: Buf> quic::SendStreamUnframed<B> for SimBidi<B> {
    fn poll_send<D: Buf>(&mut self, cx: &mut Context<'_>, buf: &mut D) -> Poll<Result<usize, StreamErrorIncoming>> {
        self.send.poll_send(cx, buf)
    }
}

impl<B: Buf> quic::RecvStream for SimBidi<B> {
    type Buf = Bytes;
    fn poll_data(&mut self, cx: &mut Context<'_>) -> Poll<Result<Option<Bytes>, StreamErrorIncoming>> {
        self.recv.poll_data(cx)
    }
    fn stop_sending(&mut self, error_code: u64) {
        self.recv.stop_sending(error_code)
    }
    fn recv_id(&self) -> StreamId {
        self.recv.recv_id()
    }
}

impl<B: Buf> quic::BidiStream<B> for SimBidi<B> {
    type SendStream = SimSend<B>;
    type RecvStream = SimRecv;
    fn split(self) -> (SimSend<B>, SimRecv) {
        (self.send, self.recv)
    }
}

impl<B: Buf> quic::Is0rtt for SimBidi<B> {
    fn is_0rtt(&self) -> bool {
        false
    }
}

// ------------------------------------------------------------------------------------------
// datagrams (h3-datagram extension)

pub struct SimDatagramSend {
    net: Net,
    side: usize,
}
pub struct SimDatagramRecv {
    net: Net,
    side: usize,
}

impl<B: Buf> h3_datagram::quic_traits::SendDatagram<B> for SimDatagramSend {
    fn send_datagram<T: Into<h3_datagram::datagram::EncodedDatagram<B>>>(
        &mut self,
        data: T,
    ) -> Result<(), h3_datagram::quic_traits::SendDatagramErrorIncoming> {
        let mut buf: h3_datagram::datagram::EncodedDatagram<B> = data.into();
        let mut g = self.net.lock();
        if let Some(e) = &g.sides[self.side].conn_err {
            return Err(h3_datagram::quic_traits::SendDatagramErrorIncoming::ConnectionError(conn_err(e)));
        }
        // consume chunk by chunk, the way a scatter/gather transport would
        let mut out = Vec::with_capacity(buf.remaining());
        while buf.has_remaining() {
            let c = buf.chunk();
            if c.is_empty() {
                push_misuse(&mut g.sides[self.side].misuse, "datagram Buf: remaining > 0 but empty chunk".into());
                break;
            }
            let n = c.len();
            out.extend_from_slice(c);
            buf.advance(n);
        }
        g.sides[self.side].datagrams_sent.push(out.clone());
        let peer = 1 - self.side;
        g.sides[peer].datagrams_in.push_back(out);
        if let Some(w) = g.sides[peer].datagram_waker.take() {
            w.wake();
        }
        Ok(())
    }
}

impl h3_datagram::quic_traits::RecvDatagram for SimDatagramRecv {
    type Buffer = Bytes;
    fn poll_incoming_datagram(&mut self, cx: &mut Context<'_>) -> Poll<Result<Bytes, ConnectionErrorIncoming>> {
        let mut g = self.net.lock();
        let s = &mut g.sides[self.side];
        if let Some(d) = s.datagrams_in.pop_front() {
            return Poll::Ready(Ok(Bytes::from(d)));
        }
        if let Some(e) = &s.conn_err {
            return Poll::Ready(Err(conn_err(e)));
        }
        s.datagram_waker = Some(cx.waker().clone());
        Poll::Pending
    }
}

impl<B: Buf> h3_datagram::quic_traits::DatagramConnectionExt<B> for SimConn {
    type SendDatagramHandler = SimDatagramSend;
    type RecvDatagramHandler = SimDatagramRecv;
    fn send_datagram_handler(&self) -> SimDatagramSend {
        SimDatagramSend {
            net: self.net.clone(),
            side: self.side,
        }
    }
    fn recv_datagram_handler(&self) -> SimDatagramRecv {
        SimDatagramRecv {
            net: self.net.clone(),
            side: self.side,
        }
    }
}
