//! String literals (RFC 7541 Section 5.2, RFC 9204 Section 4.1.2) with an N-bit prefix:
//! one Huffman flag bit `H` followed by an (N-1)-bit prefixed-integer length, then `length`
//! bytes of string data (Huffman-coded if H = 1).
//!
//! `prefix_bits` always COUNTS the H bit. QPACK uses:
//!   * 8: values everywhere ("H + 7-bit length"),
//!   * 4: literal names in field sections (`001N H LLL`, "3+" length),
//!   * 6: literal names on the encoder stream (`01 H LLLLL`, "5+" length).
//!
//! Error normalisation:
//!   * `Truncated`: fewer than `length` bytes follow a completely decoded length.
//!   * `Int(IntErr::Truncated)`: the input ends inside the length integer (or is empty).
//!   * `Int(IntErr::Overflow)`: the length does not fit in 62 bits.
//!   * `Huffman(_)`: H = 1 and the complete string data violates RFC 7541 Section 5.2.

use crate::huffman::{self, HuffErr};
use crate::qint::{self, IntErr};

#[derive(Debug, Clone, PartialEq, Eq)]
pub enum StrErr {
    Truncated,
    Int(IntErr),
    Huffman(HuffErr),
}

fn check_prefix(prefix_bits: u8) {
    assert!(
        (2..=8).contains(&prefix_bits),
        "string prefix_bits (including the H bit) must be in 2..=8, got {prefix_bits}"
    );
}

/// Result of `decode_raw`: the string as it is on the wire.
#[derive(Debug, Clone, PartialEq, Eq)]
pub struct RawStr<'a> {
    /// Bits of the first byte above the H bit, right-aligned.
    pub flags: u8,
    pub huffman: bool,
    /// The `length` bytes of string data, still Huffman-coded if `huffman`.
    pub data: &'a [u8],
    /// Total bytes consumed (length integer + data).
    pub consumed: usize,
}

/// Decodes the framing only (no Huffman decoding).
pub fn decode_raw(prefix_bits: u8, b: &[u8]) -> Result<RawStr<'_>, StrErr> {
    check_prefix(prefix_bits);
    let (flags_and_h, len, n) = qint::decode(prefix_bits - 1, b).map_err(StrErr::Int)?;
    let huffman = flags_and_h & 1 == 1;
    let flags = flags_and_h >> 1;
    let available = (b.len() - n) as u64;
    if len > available {
        return Err(StrErr::Truncated);
    }
    let len = len as usize;
    Ok(RawStr {
        flags,
        huffman,
        data: &b[n..n + len],
        consumed: n + len,
    })
}

/// `prefix_bits` counts the H bit: an "H + 7-bit length" string has prefix_bits = 8.
/// Returns (flags above the H bit, string bytes, consumed).
pub fn decode(prefix_bits: u8, b: &[u8]) -> Result<(u8, Vec<u8>, usize), StrErr> {
    let raw = decode_raw(prefix_bits, b)?;
    let s = if raw.huffman {
        huffman::decode(raw.data).map_err(StrErr::Huffman)?
    } else {
        raw.data.to_vec()
    };
    Ok((raw.flags, s, raw.consumed))
}

/// Encodes `s` with the given flags above the H bit. `huffman` selects H = 1 (always, even if
/// the Huffman form is longer).
pub fn encode(prefix_bits: u8, flags: u8, s: &[u8], huffman: bool) -> Vec<u8> {
    check_prefix(prefix_bits);
    assert!(
        (flags as u16) < (1u16 << (8 - prefix_bits)),
        "flags {flags:#x} do not fit above a {prefix_bits}-bit string prefix"
    );
    let data: Vec<u8> = if huffman { huffman::encode(s) } else { s.to_vec() };
    let flags_and_h = (flags << 1) | (huffman as u8);
    let mut out = qint::encode(prefix_bits - 1, flags_and_h, data.len() as u64);
    out.extend_from_slice(&data);
    out
}

#[cfg(test)]
mod tests {
    use super::*;

    #[test]
    fn rfc7541_c_examples() {
        // C.2.1 / C.3: "custom-key" as a plain 8-bit-prefix string: 0a 63 75 ...
        let mut expect = vec![0x0a];
        expect.extend_from_slice(b"custom-key");
        assert_eq!(encode(8, 0, b"custom-key", false), expect);
        assert_eq!(decode(8, &expect), Ok((0, b"custom-key".to_vec(), 11)));
        // C.4.1: "www.example.com" Huffman: 8c f1e3 c2e5 f23a 6ba0 ab90 f4ff
        let expect = vec![
            0x8c, 0xf1, 0xe3, 0xc2, 0xe5, 0xf2, 0x3a, 0x6b, 0xa0, 0xab, 0x90, 0xf4, 0xff,
        ];
        assert_eq!(encode(8, 0, b"www.example.com", true), expect);
        assert_eq!(decode(8, &expect), Ok((0, b"www.example.com".to_vec(), 13)));
    }

    #[test]
    fn prefixes_and_flags() {
        // QPACK literal field line with literal name: 001N H LLL, N = 1 -> flags 0b0011.
        let enc = encode(4, 0b0011, b"ab", false);
        assert_eq!(enc, vec![0b0011_0010, b'a', b'b']);
        assert_eq!(decode(4, &enc), Ok((0b0011, b"ab".to_vec(), 3)));
        // Encoder stream insert with literal name: 01 H LLLLL.
        let enc = encode(6, 0b01, b"ab", false);
        assert_eq!(enc, vec![0b0100_0010, b'a', b'b']);
        assert_eq!(decode(6, &enc), Ok((0b01, b"ab".to_vec(), 3)));
        // H bit position for each prefix.
        let enc = encode(4, 0b0010, b"0", true);
        assert_eq!(enc, vec![0b0010_1001, 0b0000_0111]);
        assert_eq!(decode(4, &enc), Ok((0b0010, b"0".to_vec(), 2)));
        let enc = encode(6, 0b01, b"0", true);
        assert_eq!(enc, vec![0b0110_0001, 0b0000_0111]);
        assert_eq!(decode(6, &enc), Ok((0b01, b"0".to_vec(), 2)));
    }

    #[test]
    fn length_boundaries_round_trip() {
        for &n in &[2u8, 4, 6, 8] {
            let pm = (1usize << (n - 1)) - 1;
            let flags_max: u8 = if n == 8 { 0 } else { ((1u16 << (8 - n)) - 1) as u8 };
            for &len in &[0usize, 1, pm.saturating_sub(1), pm, pm + 1, pm + 127, pm + 128, 300] {
                let s: Vec<u8> = (0..len).map(|i| (i * 7 + 3) as u8).collect();
                for &h in &[false, true] {
                    for &flags in &[0u8, flags_max] {
                        let enc = encode(n, flags, &s, h);
                        assert_eq!(decode(n, &enc), Ok((flags, s.clone(), enc.len())));
                        let raw = decode_raw(n, &enc).unwrap();
                        assert_eq!(raw.huffman, h);
                        assert_eq!(raw.flags, flags);
                        // trailing bytes are not consumed
                        let mut more = enc.clone();
                        more.push(0xff);
                        assert_eq!(decode(n, &more), Ok((flags, s.clone(), enc.len())));
                        // every strict prefix is truncated one way or the other
                        for cut in 0..enc.len() {
                            match decode(n, &enc[..cut]) {
                                Err(StrErr::Truncated) | Err(StrErr::Int(IntErr::Truncated)) => {}
                                other => panic!("n={n} len={len} cut={cut}: {other:?}"),
                            }
                        }
                    }
                }
            }
        }
    }

    #[test]
    fn errors() {
        assert_eq!(decode(8, &[]), Err(StrErr::Int(IntErr::Truncated)));
        assert_eq!(decode(8, &[0x7f]), Err(StrErr::Int(IntErr::Truncated)));
        assert_eq!(decode(8, &[0x03, b'a', b'b']), Err(StrErr::Truncated));
        // Length 2^62 does not fit.
        let mut b = qint::encode(7, 0, 1u64 << 62);
        b.push(0);
        assert_eq!(decode(8, &b), Err(StrErr::Int(IntErr::Overflow)));
        // Huffman errors surface.
        assert_eq!(
            decode(8, &[0x81, 0xff]),
            Err(StrErr::Huffman(HuffErr::PaddingTooLong))
        );
        assert_eq!(
            decode(8, &[0x81, 0b0000_0110]),
            Err(StrErr::Huffman(HuffErr::PaddingNotOnes))
        );
        assert_eq!(
            decode(8, &[0x84, 0xff, 0xff, 0xff, 0xff]),
            Err(StrErr::Huffman(HuffErr::EosInString))
        );
        // The same bytes with H = 0 are just bytes.
        assert_eq!(decode(8, &[0x01, 0xff]), Ok((0, vec![0xff], 2)));
        // Empty Huffman string.
        assert_eq!(decode(8, &[0x80]), Ok((0, vec![], 1)));
    }
}
