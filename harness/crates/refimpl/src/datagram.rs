//! RFC 9297 section 2.1: HTTP/3 Datagram = Quarter Stream ID (varint) || payload.

use crate::varint::{self, Decoded};

pub fn encode(stream_id: u64, payload: &[u8]) -> Option<Vec<u8>> {
    if stream_id % 4 != 0 {
        return None;
    }
    let mut out = varint::encode(stream_id / 4)?;
    out.extend_from_slice(payload);
    Some(out)
}

#[derive(Debug, Clone, PartialEq, Eq)]
pub enum DgErr {
    /// the Quarter Stream ID varint is cut off
    Truncated,
    /// quarter stream id > 2^60 - 1 (stream id would exceed 2^62 - 1)
    IdTooLarge,
}

/// (stream id, payload)
pub fn decode(b: &[u8]) -> Result<(u64, &[u8]), DgErr> {
    match varint::decode(b) {
        Decoded::Truncated => Err(DgErr::Truncated),
        Decoded::Ok(q, n) => {
            if q > (1u64 << 60) - 1 {
                Err(DgErr::IdTooLarge)
            } else {
                Ok((q * 4, &b[n..]))
            }
        }
    }
}

#[cfg(test)]
mod tests {
    use super::*;
    #[test]
    fn basics() {
        assert_eq!(encode(0, b"x").unwrap(), vec![0x00, b'x']);
        assert_eq!(encode(256, b"").unwrap(), vec![0x40, 0x40]);
        assert_eq!(encode(5, b""), None);
        assert_eq!(decode(&[0x40, 0x40, 9]), Ok((256, &[9u8][..])));
        assert_eq!(decode(&[0x40]), Err(DgErr::Truncated));
        assert_eq!(decode(&[0xd0, 0, 0, 0, 0, 0, 0, 0]), Err(DgErr::IdTooLarge));
        assert_eq!(decode(&[0xcf, 0xff, 0xff, 0xff, 0xff, 0xff, 0xff, 0xff]).unwrap().0, (1u64 << 62) - 4);
    }
}
