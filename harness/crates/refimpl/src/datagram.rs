//! (to be written)
