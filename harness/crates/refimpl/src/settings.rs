//! RFC 9114 section 7.2.4: SETTINGS payload = sequence of (identifier varint, value varint).

use crate::varint::{self, Decoded};

pub const QPACK_MAX_TABLE_CAPACITY: u64 = 0x01;
pub const MAX_FIELD_SECTION_SIZE: u64 = 0x06;
pub const QPACK_BLOCKED_STREAMS: u64 = 0x07;
/// RFC 9220
pub const ENABLE_CONNECT_PROTOCOL: u64 = 0x08;
/// RFC 9297
pub const H3_DATAGRAM: u64 = 0x33;
/// draft-ietf-webtrans-http3
pub const ENABLE_WEBTRANSPORT: u64 = 0x2b60_3742;
pub const WEBTRANSPORT_MAX_SESSIONS: u64 = 0x2b60_3743;

/// HTTP/2 settings with no HTTP/3 counterpart (RFC 9114 section 7.2.4.1, 11.2.2)
pub fn is_h2_reserved(id: u64) -> bool {
    matches!(id, 0x00 | 0x02 | 0x03 | 0x04 | 0x05)
}

/// 0x1f * N + 0x21
pub fn is_grease(id: u64) -> bool {
    id >= 0x21 && (id - 0x21) % 0x1f == 0
}

#[derive(Debug, Clone, PartialEq, Eq)]
pub enum SettingsErr {
    /// the payload ends inside an entry
    Truncated,
    /// "The same setting identifier MUST NOT occur more than once"
    Duplicate(u64),
    /// reserved HTTP/2 identifier
    Reserved(u64),
}

/// All entries in order; no semantic checks.
pub fn entries(payload: &[u8]) -> Result<Vec<(u64, u64)>, SettingsErr> {
    let mut out = Vec::new();
    let mut p = 0;
    while p < payload.len() {
        let Decoded::Ok(id, n) = varint::decode(&payload[p..]) else { return Err(SettingsErr::Truncated) };
        p += n;
        let Decoded::Ok(v, n) = varint::decode(&payload[p..]) else { return Err(SettingsErr::Truncated) };
        p += n;
        out.push((id, v));
    }
    Ok(out)
}

/// Entries with the RFC's MUST-level checks applied in stream order: the first offending entry
/// decides the error.
pub fn parse(payload: &[u8]) -> Result<Vec<(u64, u64)>, SettingsErr> {
    let mut out: Vec<(u64, u64)> = Vec::new();
    let mut p = 0;
    while p < payload.len() {
        let Decoded::Ok(id, n) = varint::decode(&payload[p..]) else { return Err(SettingsErr::Truncated) };
        p += n;
        let Decoded::Ok(v, n) = varint::decode(&payload[p..]) else { return Err(SettingsErr::Truncated) };
        p += n;
        if is_h2_reserved(id) {
            return Err(SettingsErr::Reserved(id));
        }
        if out.iter().any(|(i, _)| *i == id) {
            return Err(SettingsErr::Duplicate(id));
        }
        out.push((id, v));
    }
    Ok(out)
}

pub fn get(entries: &[(u64, u64)], id: u64) -> Option<u64> {
    entries.iter().find(|(i, _)| *i == id).map(|(_, v)| *v)
}

pub fn encode(entries: &[(u64, u64)]) -> Vec<u8> {
    let mut out = Vec::new();
    for (i, v) in entries {
        out.extend(varint::encode(*i).unwrap());
        out.extend(varint::encode(*v).unwrap());
    }
    out
}

#[cfg(test)]
mod tests {
    use super::*;
    #[test]
    fn basics() {
        assert_eq!(parse(&[0x06, 0x40, 0x64, 0x33, 0x01]), Ok(vec![(6, 100), (0x33, 1)]));
        assert_eq!(parse(&[0x06, 0x01, 0x06, 0x01]), Err(SettingsErr::Duplicate(6)));
        assert_eq!(parse(&[0x02, 0x01]), Err(SettingsErr::Reserved(2)));
        assert_eq!(parse(&[0x06]), Err(SettingsErr::Truncated));
        assert_eq!(parse(&[0x06, 0x40]), Err(SettingsErr::Truncated));
        assert!(is_grease(0x21) && is_grease(0x21 + 0x1f * 7) && !is_grease(0x22));
        assert_eq!(entries(&encode(&[(ENABLE_WEBTRANSPORT, 1)])), Ok(vec![(ENABLE_WEBTRANSPORT, 1)]));
    }
}
