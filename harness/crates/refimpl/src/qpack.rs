//! QPACK (RFC 9204): static table, field-line representations, encoder/decoder stream
//! instructions, dynamic table model and a reference decoder. Written from the RFC.
//!
//! Error normalisation (so that "need more bytes" is always exactly `QErr::Truncated`):
//!   * any kind of running out of input (inside an integer, inside a string length, inside
//!     string data, or before the 2-byte section prefix is complete) -> `QErr::Truncated`
//!   * integer too large (not a string length)                      -> `QErr::Int(IntErr::Overflow)`
//!   * string length too large                                       -> `QErr::Str(StrErr::Int(IntErr::Overflow))`
//!   * Huffman violation                                             -> `QErr::Str(StrErr::Huffman(_))`

use crate::qint::{self, IntErr};
use crate::qstr::{self, StrErr};
use std::collections::VecDeque;

// ---------------------------------------------------------------------------------------------
// Static table (RFC 9204 Appendix A)
// ---------------------------------------------------------------------------------------------

pub static STATIC_TABLE: [(&str, &str); 99] = [
    (":authority", ""),                                         // 0
    (":path", "/"),                                             // 1
    ("age", "0"),                                               // 2
    ("content-disposition", ""),                                // 3
    ("content-length", "0"),                                    // 4
    ("cookie", ""),                                             // 5
    ("date", ""),                                               // 6
    ("etag", ""),                                               // 7
    ("if-modified-since", ""),                                  // 8
    ("if-none-match", ""),                                      // 9
    ("last-modified", ""),                                      // 10
    ("link", ""),                                               // 11
    ("location", ""),                                           // 12
    ("referer", ""),                                            // 13
    ("set-cookie", ""),                                         // 14
    (":method", "CONNECT"),                                     // 15
    (":method", "DELETE"),                                      // 16
    (":method", "GET"),                                         // 17
    (":method", "HEAD"),                                        // 18
    (":method", "OPTIONS"),                                     // 19
    (":method", "POST"),                                        // 20
    (":method", "PUT"),                                         // 21
    (":scheme", "http"),                                        // 22
    (":scheme", "https"),                                       // 23
    (":status", "103"),                                         // 24
    (":status", "200"),                                         // 25
    (":status", "304"),                                         // 26
    (":status", "404"),                                         // 27
    (":status", "503"),                                         // 28
    ("accept", "*/*"),                                          // 29
    ("accept", "application/dns-message"),                      // 30
    ("accept-encoding", "gzip, deflate, br"),                   // 31
    ("accept-ranges", "bytes"),                                 // 32
    ("access-control-allow-headers", "cache-control"),          // 33
    ("access-control-allow-headers", "content-type"),           // 34
    ("access-control-allow-origin", "*"),                       // 35
    ("cache-control", "max-age=0"),                             // 36
    ("cache-control", "max-age=2592000"),                       // 37
    ("cache-control", "max-age=604800"),                        // 38
    ("cache-control", "no-cache"),                              // 39
    ("cache-control", "no-store"),                              // 40
    ("cache-control", "public, max-age=31536000"),              // 41
    ("content-encoding", "br"),                                 // 42
    ("content-encoding", "gzip"),                               // 43
    ("content-type", "application/dns-message"),                // 44
    ("content-type", "application/javascript"),                 // 45
    ("content-type", "application/json"),                       // 46
    ("content-type", "application/x-www-form-urlencoded"),      // 47
    ("content-type", "image/gif"),                              // 48
    ("content-type", "image/jpeg"),                             // 49
    ("content-type", "image/png"),                              // 50
    ("content-type", "text/css"),                               // 51
    ("content-type", "text/html; charset=utf-8"),               // 52
    ("content-type", "text/plain"),                             // 53
    ("content-type", "text/plain;charset=utf-8"),               // 54
    ("range", "bytes=0-"),                                      // 55
    ("strict-transport-security", "max-age=31536000"),          // 56
    ("strict-transport-security", "max-age=31536000; includesubdomains"), // 57
    ("strict-transport-security", "max-age=31536000; includesubdomains; preload"), // 58
    ("vary", "accept-encoding"),                                // 59
    ("vary", "origin"),                                         // 60
    ("x-content-type-options", "nosniff"),                      // 61
    ("x-xss-protection", "1; mode=block"),                      // 62
    (":status", "100"),                                         // 63
    (":status", "204"),                                         // 64
    (":status", "206"),                                         // 65
    (":status", "302"),                                         // 66
    (":status", "400"),                                         // 67
    (":status", "403"),                                         // 68
    (":status", "421"),                                         // 69
    (":status", "425"),                                         // 70
    (":status", "500"),                                         // 71
    ("accept-language", ""),                                    // 72
    ("access-control-allow-credentials", "FALSE"),              // 73
    ("access-control-allow-credentials", "TRUE"),               // 74
    ("access-control-allow-headers", "*"),                      // 75
    ("access-control-allow-methods", "get"),                    // 76
    ("access-control-allow-methods", "get, post, options"),     // 77
    ("access-control-allow-methods", "options"),                // 78
    ("access-control-expose-headers", "content-length"),        // 79
    ("access-control-request-headers", "content-type"),         // 80
    ("access-control-request-method", "get"),                   // 81
    ("access-control-request-method", "post"),                  // 82
    ("alt-svc", "clear"),                                       // 83
    ("authorization", ""),                                      // 84
    (
        "content-security-policy",
        "script-src 'none'; object-src 'none'; base-uri 'none'",
    ), // 85
    ("early-data", "1"),                                        // 86
    ("expect-ct", ""),                                          // 87
    ("forwarded", ""),                                          // 88
    ("if-range", ""),                                           // 89
    ("origin", ""),                                             // 90
    ("purpose", "prefetch"),                                    // 91
    ("server", ""),                                             // 92
    ("timing-allow-origin", "*"),                               // 93
    ("upgrade-insecure-requests", "1"),                         // 94
    ("user-agent", ""),                                         // 95
    ("x-forwarded-for", ""),                                    // 96
    ("x-frame-options", "deny"),                                // 97
    ("x-frame-options", "sameorigin"),                          // 98
];

/// Static table entry as an owned field, `None` if `index >= 99`.
pub fn static_field(index: u64) -> Option<Field> {
    if index >= STATIC_TABLE.len() as u64 {
        return None;
    }
    let (n, v) = STATIC_TABLE[index as usize];
    Some((n.as_bytes().to_vec(), v.as_bytes().to_vec()))
}

// ---------------------------------------------------------------------------------------------
// Types
// ---------------------------------------------------------------------------------------------

pub type Field = (Vec<u8>, Vec<u8>);

#[derive(Debug, Clone, PartialEq, Eq)]
pub enum QErr {
    Truncated,
    Int(IntErr),
    Str(StrErr),
    StaticIndexOutOfRange(u64),
    DynamicReference,
    NonZeroRequiredInsertCount(u64),
    NonZeroBase,
    InvalidIndex,
    Blocked(u64 /*required insert count*/),
    InvalidRequiredInsertCount,
    CapacityExceeded,
    InvalidInstruction,
}

#[derive(Debug, Clone, PartialEq, Eq)]
pub enum Repr {
    IndexedStatic(u64),
    IndexedDynamic(u64 /*relative to base*/),
    IndexedPostBase(u64),
    LiteralNameRefStatic { index: u64, never_indexed: bool, value: Vec<u8> },
    LiteralNameRefDynamic { index: u64, never_indexed: bool, value: Vec<u8> },
    LiteralPostBaseNameRef { index: u64, never_indexed: bool, value: Vec<u8> },
    LiteralName { never_indexed: bool, name: Vec<u8>, value: Vec<u8> },
}

#[derive(Debug, Clone, PartialEq, Eq)]
pub struct Section {
    pub encoded_ric: u64,
    pub sign: bool,
    pub delta_base: u64,
    pub reprs: Vec<Repr>,
}

fn int_err(e: IntErr) -> QErr {
    match e {
        IntErr::Truncated => QErr::Truncated,
        IntErr::Overflow => QErr::Int(IntErr::Overflow),
    }
}

fn str_err(e: StrErr) -> QErr {
    match e {
        StrErr::Truncated => QErr::Truncated,
        StrErr::Int(IntErr::Truncated) => QErr::Truncated,
        other => QErr::Str(other),
    }
}

// ---------------------------------------------------------------------------------------------
// Field sections: syntactic parsing (RFC 9204 Section 4.5)
// ---------------------------------------------------------------------------------------------

/// Parses the Encoded Field Section Prefix (Section 4.5.1).
/// Returns (encoded required insert count, sign, delta base, bytes consumed).
pub fn parse_prefix(b: &[u8]) -> Result<(u64, bool, u64, usize), QErr> {
    let (_, encoded_ric, n1) = qint::decode(8, b).map_err(int_err)?;
    let (s, delta_base, n2) = qint::decode(7, &b[n1..]).map_err(int_err)?;
    Ok((encoded_ric, s & 1 == 1, delta_base, n1 + n2))
}

/// Parses one field line representation at the start of `b`. Returns it and the bytes consumed.
pub fn parse_repr(b: &[u8]) -> Result<(Repr, usize), QErr> {
    let first = *b.first().ok_or(QErr::Truncated)?;
    if first & 0x80 != 0 {
        // 1 T index(6+): Indexed Field Line (4.5.2)
        let (flags, index, n) = qint::decode(6, b).map_err(int_err)?;
        let is_static = flags & 1 == 1;
        let r = if is_static { Repr::IndexedStatic(index) } else { Repr::IndexedDynamic(index) };
        Ok((r, n))
    } else if first & 0xc0 == 0x40 {
        // 0 1 N T index(4+), value: Literal Field Line with Name Reference (4.5.4)
        let (flags, index, n) = qint::decode(4, b).map_err(int_err)?;
        let never_indexed = flags & 0b10 != 0;
        let is_static = flags & 0b01 != 0;
        let (_, value, m) = qstr::decode(8, &b[n..]).map_err(str_err)?;
        let r = if is_static {
            Repr::LiteralNameRefStatic { index, never_indexed, value }
        } else {
            Repr::LiteralNameRefDynamic { index, never_indexed, value }
        };
        Ok((r, n + m))
    } else if first & 0xe0 == 0x20 {
        // 0 0 1 N H namelen(3+), name, value: Literal Field Line with Literal Name (4.5.6)
        let (flags, name, n) = qstr::decode(4, b).map_err(str_err)?;
        let never_indexed = flags & 1 == 1;
        let (_, value, m) = qstr::decode(8, &b[n..]).map_err(str_err)?;
        Ok((Repr::LiteralName { never_indexed, name, value }, n + m))
    } else if first & 0xf0 == 0x10 {
        // 0 0 0 1 index(4+): Indexed Field Line with Post-Base Index (4.5.3)
        let (_, index, n) = qint::decode(4, b).map_err(int_err)?;
        Ok((Repr::IndexedPostBase(index), n))
    } else {
        // 0 0 0 0 N index(3+), value: Literal Field Line with Post-Base Name Reference (4.5.5)
        let (flags, index, n) = qint::decode(3, b).map_err(int_err)?;
        let never_indexed = flags & 1 == 1;
        let (_, value, m) = qstr::decode(8, &b[n..]).map_err(str_err)?;
        Ok((Repr::LiteralPostBaseNameRef { index, never_indexed, value }, n + m))
    }
}

fn parse_reprs(b: &[u8]) -> Result<Vec<Repr>, QErr> {
    let mut reprs = Vec::new();
    let mut pos = 0usize;
    while pos < b.len() {
        let (r, n) = parse_repr(&b[pos..])?;
        reprs.push(r);
        pos += n;
    }
    Ok(reprs)
}

/// Purely syntactic parse of a whole encoded field section (prefix + field lines until the
/// end of `b`).
pub fn parse_section(b: &[u8]) -> Result<Section, QErr> {
    let (encoded_ric, sign, delta_base, n) = parse_prefix(b)?;
    let reprs = parse_reprs(&b[n..])?;
    Ok(Section { encoded_ric, sign, delta_base, reprs })
}

fn static_only_fields(reprs: &[Repr]) -> Result<Vec<Field>, QErr> {
    let mut fields = Vec::new();
    for r in reprs {
        match r {
            Repr::IndexedStatic(i) => {
                fields.push(static_field(*i).ok_or(QErr::StaticIndexOutOfRange(*i))?);
            }
            Repr::LiteralNameRefStatic { index, value, .. } => {
                let (name, _) = static_field(*index).ok_or(QErr::StaticIndexOutOfRange(*index))?;
                fields.push((name, value.clone()));
            }
            Repr::LiteralName { name, value, .. } => fields.push((name.clone(), value.clone())),
            Repr::IndexedDynamic(_)
            | Repr::IndexedPostBase(_)
            | Repr::LiteralNameRefDynamic { .. }
            | Repr::LiteralPostBaseNameRef { .. } => return Err(QErr::DynamicReference),
        }
    }
    Ok(fields)
}

/// Decoding for an endpoint with dynamic table capacity 0, following the RFC exactly.
///
/// * Encoded Required Insert Count != 0 -> `NonZeroRequiredInsertCount(encoded)`. (With a
///   maximum capacity of 0, MaxEntries = 0 and FullRange = 0, so Section 4.5.1.1 rejects every
///   non-zero encoded value.)
/// * Sign = 1 -> `NonZeroBase`: with Required Insert Count 0, "Required Insert Count <= Delta
///   Base" always holds, which Section 4.5.1.2 says MUST be treated as invalid (negative Base).
/// * Sign = 0 and Delta Base != 0 is ACCEPTED: Section 4.5.1.2 says "A field section that was
///   encoded without references to the dynamic table can use any value for the Base; setting
///   Delta Base to zero is one of the most efficient encodings." Use
///   `decode_static_only_zero_base` for the stricter (non-RFC) variant that rejects it.
/// * any dynamic / post-base representation -> `DynamicReference`.
/// * static index >= 99 -> `StaticIndexOutOfRange(index)`.
///
/// Check order: whole-section syntax first, then prefix, then representations in order.
pub fn decode_static_only(b: &[u8]) -> Result<Vec<Field>, QErr> {
    let s = parse_section(b)?;
    if s.encoded_ric != 0 {
        return Err(QErr::NonZeroRequiredInsertCount(s.encoded_ric));
    }
    if s.sign {
        return Err(QErr::NonZeroBase);
    }
    static_only_fields(&s.reprs)
}

/// Like `decode_static_only`, but additionally rejects Sign = 0 with Delta Base != 0 as
/// `NonZeroBase`. This is STRICTER than RFC 9204 (see `decode_static_only`).
pub fn decode_static_only_zero_base(b: &[u8]) -> Result<Vec<Field>, QErr> {
    let s = parse_section(b)?;
    if s.encoded_ric != 0 {
        return Err(QErr::NonZeroRequiredInsertCount(s.encoded_ric));
    }
    if s.sign || s.delta_base != 0 {
        return Err(QErr::NonZeroBase);
    }
    static_only_fields(&s.reprs)
}

// ---------------------------------------------------------------------------------------------
// Field sections: serialisation
// ---------------------------------------------------------------------------------------------

/// Serialises one representation. `huffman` selects H = 1 for every string.
pub fn encode_repr(r: &Repr, huffman: bool) -> Vec<u8> {
    match r {
        Repr::IndexedStatic(i) => qint::encode(6, 0b11, *i),
        Repr::IndexedDynamic(i) => qint::encode(6, 0b10, *i),
        Repr::IndexedPostBase(i) => qint::encode(4, 0b0001, *i),
        Repr::LiteralNameRefStatic { index, never_indexed, value } => {
            let flags = 0b0100 | ((*never_indexed as u8) << 1) | 1;
            let mut out = qint::encode(4, flags, *index);
            out.extend(qstr::encode(8, 0, value, huffman));
            out
        }
        Repr::LiteralNameRefDynamic { index, never_indexed, value } => {
            let flags = 0b0100 | ((*never_indexed as u8) << 1);
            let mut out = qint::encode(4, flags, *index);
            out.extend(qstr::encode(8, 0, value, huffman));
            out
        }
        Repr::LiteralPostBaseNameRef { index, never_indexed, value } => {
            let mut out = qint::encode(3, *never_indexed as u8, *index);
            out.extend(qstr::encode(8, 0, value, huffman));
            out
        }
        Repr::LiteralName { never_indexed, name, value } => {
            let flags = 0b0010 | (*never_indexed as u8);
            let mut out = qstr::encode(4, flags, name, huffman);
            out.extend(qstr::encode(8, 0, value, huffman));
            out
        }
    }
}

/// Serialise representations (for building test inputs). `huffman` selects H=1 for every string.
pub fn encode_section_raw(
    encoded_ric: u64,
    sign: bool,
    delta_base: u64,
    reprs: &[Repr],
    huffman: bool,
) -> Vec<u8> {
    let mut out = qint::encode(8, 0, encoded_ric);
    out.extend(qint::encode(7, sign as u8, delta_base));
    for r in reprs {
        out.extend(encode_repr(r, huffman));
    }
    out
}

/// Section `00 00` + one "literal field line with literal name" per field (arbitrary bytes allowed).
pub fn encode_literal_section(fields: &[Field], huffman: bool) -> Vec<u8> {
    let reprs: Vec<Repr> = fields
        .iter()
        .map(|(n, v)| Repr::LiteralName { never_indexed: false, name: n.clone(), value: v.clone() })
        .collect();
    encode_section_raw(0, false, 0, &reprs, huffman)
}

/// Best static-table representation of one field: indexed if (name, value) is in the static
/// table, literal with static name reference (first entry with that name) if only the name
/// is, else literal name. Comparison is bytewise (case-sensitive).
pub fn best_static_repr(name: &[u8], value: &[u8]) -> Repr {
    let mut name_match: Option<u64> = None;
    for (i, (n, v)) in STATIC_TABLE.iter().enumerate() {
        if n.as_bytes() == name {
            if v.as_bytes() == value {
                return Repr::IndexedStatic(i as u64);
            }
            if name_match.is_none() {
                name_match = Some(i as u64);
            }
        }
    }
    match name_match {
        Some(index) => {
            Repr::LiteralNameRefStatic { index, never_indexed: false, value: value.to_vec() }
        }
        None => Repr::LiteralName {
            never_indexed: false,
            name: name.to_vec(),
            value: value.to_vec(),
        },
    }
}

/// Section `00 00` + best static representation per field.
pub fn encode_static_section(fields: &[Field], huffman: bool) -> Vec<u8> {
    let reprs: Vec<Repr> = fields.iter().map(|(n, v)| best_static_repr(n, v)).collect();
    encode_section_raw(0, false, 0, &reprs, huffman)
}

/// RFC 9114 Section 4.2.2 field section size: sum of name.len() + value.len() + 32.
pub fn section_size(fields: &[Field]) -> u64 {
    fields.iter().map(|f| entry_size(f)).sum()
}

/// Size of one entry (RFC 9204 Section 3.2.1): name length + value length + 32.
pub fn entry_size(f: &Field) -> u64 {
    f.0.len() as u64 + f.1.len() as u64 + 32
}

// ---------------------------------------------------------------------------------------------
// Dynamic table (RFC 9204 Section 3.2)
// ---------------------------------------------------------------------------------------------

/// FIFO of fields. Absolute index `a` (Section 3.2.4) is the a-th inserted entry, counted
/// from 0; it never changes for the lifetime of the entry.
#[derive(Debug, Clone, PartialEq, Eq)]
pub struct DynTable {
    /// Oldest entry (absolute index `dropped`) at the front.
    entries: VecDeque<Field>,
    capacity: u64,
    size: u64,
    dropped: u64,
}

impl DynTable {
    pub fn new(capacity: u64) -> Self {
        DynTable { entries: VecDeque::new(), capacity, size: 0, dropped: 0 }
    }

    pub fn capacity(&self) -> u64 {
        self.capacity
    }

    /// Sum of name + value + 32 over all live entries.
    pub fn size(&self) -> u64 {
        self.size
    }

    /// Total insert count.
    pub fn inserted(&self) -> u64 {
        self.dropped + self.entries.len() as u64
    }

    /// Evicted count (= absolute index of the oldest live entry).
    pub fn dropped(&self) -> u64 {
        self.dropped
    }

    /// Number of live entries.
    pub fn len(&self) -> usize {
        self.entries.len()
    }

    pub fn is_empty(&self) -> bool {
        self.entries.is_empty()
    }

    /// Absolute index; `None` if evicted or not yet inserted.
    pub fn get_abs(&self, abs: u64) -> Option<&Field> {
        if abs < self.dropped {
            return None;
        }
        let off = abs - self.dropped;
        if off >= self.entries.len() as u64 {
            return None;
        }
        self.entries.get(off as usize)
    }

    fn evict_oldest(&mut self) {
        let f = self.entries.pop_front().expect("evict from empty table");
        self.size -= entry_size(&f);
        self.dropped += 1;
    }

    /// Sets the capacity, evicting oldest entries until size <= capacity (Section 3.2.3).
    /// The table itself knows no maximum, so this never fails; `RefDecoder::apply` enforces
    /// the maximum.
    pub fn set_capacity(&mut self, c: u64) -> Result<(), QErr> {
        self.capacity = c;
        while self.size > self.capacity {
            self.evict_oldest();
        }
        Ok(())
    }

    /// Section 3.2.2: evict oldest entries until the new one fits, then append it.
    /// `CapacityExceeded` (table unchanged) if the entry alone is larger than the capacity.
    pub fn insert(&mut self, f: Field) -> Result<(), QErr> {
        let sz = entry_size(&f);
        if sz > self.capacity {
            return Err(QErr::CapacityExceeded);
        }
        while self.size + sz > self.capacity {
            self.evict_oldest();
        }
        self.size += sz;
        self.entries.push_back(f);
        Ok(())
    }
}

// ---------------------------------------------------------------------------------------------
// Encoder stream (Section 4.3) and decoder stream (Section 4.4)
// ---------------------------------------------------------------------------------------------

#[derive(Debug, Clone, PartialEq, Eq)]
pub enum EncInstr {
    SetCapacity(u64),
    InsertNameRefStatic { index: u64, value: Vec<u8> },
    InsertNameRefDynamic { rel_index: u64, value: Vec<u8> },
    InsertLiteral { name: Vec<u8>, value: Vec<u8> },
    Duplicate(u64 /*relative*/),
}

/// Parses one encoder-stream instruction at the start of `b`.
pub fn parse_enc_instr(b: &[u8]) -> Result<(EncInstr, usize), QErr> {
    let first = *b.first().ok_or(QErr::Truncated)?;
    if first & 0x80 != 0 {
        // 1 T index(6+), value: Insert with Name Reference (4.3.2)
        let (flags, index, n) = qint::decode(6, b).map_err(int_err)?;
        let is_static = flags & 1 == 1;
        let (_, value, m) = qstr::decode(8, &b[n..]).map_err(str_err)?;
        let i = if is_static {
            EncInstr::InsertNameRefStatic { index, value }
        } else {
            EncInstr::InsertNameRefDynamic { rel_index: index, value }
        };
        Ok((i, n + m))
    } else if first & 0xc0 == 0x40 {
        // 0 1 H namelen(5+), name, value: Insert with Literal Name (4.3.3)
        let (_, name, n) = qstr::decode(6, b).map_err(str_err)?;
        let (_, value, m) = qstr::decode(8, &b[n..]).map_err(str_err)?;
        Ok((EncInstr::InsertLiteral { name, value }, n + m))
    } else if first & 0xe0 == 0x20 {
        // 0 0 1 capacity(5+): Set Dynamic Table Capacity (4.3.1)
        let (_, c, n) = qint::decode(5, b).map_err(int_err)?;
        Ok((EncInstr::SetCapacity(c), n))
    } else {
        // 0 0 0 index(5+): Duplicate (4.3.4)
        let (_, i, n) = qint::decode(5, b).map_err(int_err)?;
        Ok((EncInstr::Duplicate(i), n))
    }
}

/// Parse as many COMPLETE instructions as `b` holds. Returns (instruction, end offset in b)
/// pairs; bytes after the last end offset are an incomplete instruction. Err only for
/// malformed (not merely truncated) input.
pub fn parse_encoder_stream(b: &[u8]) -> Result<Vec<(EncInstr, usize)>, QErr> {
    let mut out = Vec::new();
    let mut pos = 0usize;
    while pos < b.len() {
        match parse_enc_instr(&b[pos..]) {
            Ok((i, n)) => {
                pos += n;
                out.push((i, pos));
            }
            Err(QErr::Truncated) => break,
            Err(e) => return Err(e),
        }
    }
    Ok(out)
}

/// Serialises an encoder-stream instruction. `huffman` selects H = 1 for every string.
pub fn encode_enc_instr(i: &EncInstr, huffman: bool) -> Vec<u8> {
    match i {
        EncInstr::SetCapacity(c) => qint::encode(5, 0b001, *c),
        EncInstr::InsertNameRefStatic { index, value } => {
            let mut out = qint::encode(6, 0b11, *index);
            out.extend(qstr::encode(8, 0, value, huffman));
            out
        }
        EncInstr::InsertNameRefDynamic { rel_index, value } => {
            let mut out = qint::encode(6, 0b10, *rel_index);
            out.extend(qstr::encode(8, 0, value, huffman));
            out
        }
        EncInstr::InsertLiteral { name, value } => {
            let mut out = qstr::encode(6, 0b01, name, huffman);
            out.extend(qstr::encode(8, 0, value, huffman));
            out
        }
        EncInstr::Duplicate(i) => qint::encode(5, 0b000, *i),
    }
}

#[derive(Debug, Clone, PartialEq, Eq)]
pub enum DecInstr {
    SectionAck(u64 /*stream id*/),
    StreamCancel(u64),
    InsertCountIncrement(u64),
}

/// Parses one decoder-stream instruction at the start of `b`.
pub fn parse_dec_instr(b: &[u8]) -> Result<(DecInstr, usize), QErr> {
    let first = *b.first().ok_or(QErr::Truncated)?;
    if first & 0x80 != 0 {
        // 1 stream id(7+): Section Acknowledgment (4.4.1)
        let (_, id, n) = qint::decode(7, b).map_err(int_err)?;
        Ok((DecInstr::SectionAck(id), n))
    } else if first & 0x40 != 0 {
        // 0 1 stream id(6+): Stream Cancellation (4.4.2)
        let (_, id, n) = qint::decode(6, b).map_err(int_err)?;
        Ok((DecInstr::StreamCancel(id), n))
    } else {
        // 0 0 increment(6+): Insert Count Increment (4.4.3)
        let (_, inc, n) = qint::decode(6, b).map_err(int_err)?;
        Ok((DecInstr::InsertCountIncrement(inc), n))
    }
}

/// Same contract as `parse_encoder_stream`, for the decoder stream.
pub fn parse_decoder_stream(b: &[u8]) -> Result<Vec<(DecInstr, usize)>, QErr> {
    let mut out = Vec::new();
    let mut pos = 0usize;
    while pos < b.len() {
        match parse_dec_instr(&b[pos..]) {
            Ok((i, n)) => {
                pos += n;
                out.push((i, pos));
            }
            Err(QErr::Truncated) => break,
            Err(e) => return Err(e),
        }
    }
    Ok(out)
}

pub fn encode_dec_instr(i: &DecInstr) -> Vec<u8> {
    match i {
        DecInstr::SectionAck(id) => qint::encode(7, 0b1, *id),
        DecInstr::StreamCancel(id) => qint::encode(6, 0b01, *id),
        DecInstr::InsertCountIncrement(n) => qint::encode(6, 0b00, *n),
    }
}

// ---------------------------------------------------------------------------------------------
// Required Insert Count (Section 4.5.1.1)
// ---------------------------------------------------------------------------------------------

/// Encoder side of Section 4.5.1.1: 0 if `ric` is 0, else (ric mod (2 * MaxEntries)) + 1,
/// with MaxEntries = floor(max_capacity / 32). Panics if ric != 0 and MaxEntries == 0.
pub fn encode_required_insert_count(ric: u64, max_capacity: u64) -> u64 {
    if ric == 0 {
        return 0;
    }
    let max_entries = max_capacity / 32;
    assert!(max_entries > 0, "non-zero Required Insert Count with MaxEntries = 0");
    (ric % (2 * max_entries)) + 1
}

/// Decoder side of Section 4.5.1.1, transcribed from the RFC's pseudocode.
pub fn reconstruct_required_insert_count(
    encoded: u64,
    max_capacity: u64,
    total_inserts: u64,
) -> Result<u64, QErr> {
    if encoded == 0 {
        return Ok(0);
    }
    // u128 so that nothing can wrap.
    let encoded = encoded as u128;
    let max_entries = (max_capacity / 32) as u128;
    let full_range = 2 * max_entries;
    if encoded > full_range {
        return Err(QErr::InvalidRequiredInsertCount);
    }
    // full_range >= encoded >= 1 from here on.
    let max_value = total_inserts as u128 + max_entries;
    let max_wrapped = (max_value / full_range) * full_range;
    let mut ric = max_wrapped + encoded - 1;
    if ric > max_value {
        if ric <= full_range {
            return Err(QErr::InvalidRequiredInsertCount);
        }
        ric -= full_range;
    }
    if ric == 0 {
        return Err(QErr::InvalidRequiredInsertCount);
    }
    if ric > u64::MAX as u128 {
        return Err(QErr::InvalidRequiredInsertCount);
    }
    Ok(ric as u64)
}

// ---------------------------------------------------------------------------------------------
// Reference decoder
// ---------------------------------------------------------------------------------------------

#[derive(Debug, Clone, PartialEq, Eq)]
pub struct RefDecoder {
    pub table: DynTable,
    /// SETTINGS_QPACK_MAX_TABLE_CAPACITY as advertised by this decoder.
    pub max_capacity: u64,
}

#[derive(Debug, Clone, PartialEq, Eq)]
pub struct DecodedSection {
    pub fields: Vec<Field>,
    pub required_insert_count: u64,
    pub base: u64,
    /// Absolute indices of every dynamic entry referenced, in order of appearance.
    pub refs: Vec<u64>,
}

impl RefDecoder {
    /// Table starts with capacity 0 until SetCapacity; SetCapacity > max_capacity is an error.
    pub fn new(max_capacity: u64) -> Self {
        RefDecoder { table: DynTable::new(0), max_capacity }
    }

    pub fn new_with_capacity(max_capacity: u64, initial_capacity: u64) -> Self {
        assert!(initial_capacity <= max_capacity);
        RefDecoder { table: DynTable::new(initial_capacity), max_capacity }
    }

    /// Encoder-stream relative index (Section 3.2.5): 0 = most recently inserted entry.
    fn enc_relative(&self, rel: u64) -> Result<&Field, QErr> {
        let inserted = self.table.inserted();
        if rel >= inserted {
            return Err(QErr::InvalidIndex);
        }
        self.table.get_abs(inserted - 1 - rel).ok_or(QErr::InvalidIndex)
    }

    /// Applies one encoder-stream instruction. Errors (all QPACK_ENCODER_STREAM_ERROR in the
    /// RFC; the table is left unchanged):
    ///   * SetCapacity above `max_capacity`                       -> `CapacityExceeded`
    ///   * entry larger than the current capacity                 -> `CapacityExceeded`
    ///   * static name index >= 99                                -> `StaticIndexOutOfRange`
    ///   * relative index to an evicted / never inserted entry    -> `InvalidIndex`
    pub fn apply(&mut self, i: &EncInstr) -> Result<(), QErr> {
        match i {
            EncInstr::SetCapacity(c) => {
                if *c > self.max_capacity {
                    return Err(QErr::CapacityExceeded);
                }
                self.table.set_capacity(*c)
            }
            EncInstr::InsertNameRefStatic { index, value } => {
                let (name, _) = static_field(*index).ok_or(QErr::StaticIndexOutOfRange(*index))?;
                self.table.insert((name, value.clone()))
            }
            EncInstr::InsertNameRefDynamic { rel_index, value } => {
                // Copy the name before inserting: the referenced entry may be evicted by
                // this very insertion (Section 3.2.2), which is legal.
                let name = self.enc_relative(*rel_index)?.0.clone();
                self.table.insert((name, value.clone()))
            }
            EncInstr::InsertLiteral { name, value } => {
                self.table.insert((name.clone(), value.clone()))
            }
            EncInstr::Duplicate(rel) => {
                let f = self.enc_relative(*rel)?.clone();
                self.table.insert(f)
            }
        }
    }

    /// Full Section 4.5.1 reconstruction of Required Insert Count and Base, then resolution
    /// of every representation.
    ///
    /// Check order:
    ///   1. prefix syntax (`Truncated` / `Int`)
    ///   2. Required Insert Count reconstruction (`InvalidRequiredInsertCount`)
    ///   3. Base: Sign = 1 with Required Insert Count <= Delta Base (negative Base), or Base
    ///      not representable in u64                               -> `InvalidIndex`
    ///   4. Required Insert Count > table.inserted()               -> `Blocked(ric)`
    ///   5. field lines, in order; syntax errors, `StaticIndexOutOfRange`, or `InvalidIndex`
    ///      for a dynamic reference whose absolute index is negative, >= Required Insert
    ///      Count (Section 2.2.3), or already evicted.
    pub fn decode_section(&self, b: &[u8]) -> Result<DecodedSection, QErr> {
        let (encoded_ric, sign, delta_base, n) = parse_prefix(b)?;
        let ric = reconstruct_required_insert_count(
            encoded_ric,
            self.max_capacity,
            self.table.inserted(),
        )?;
        let base: u64 = if sign {
            if ric <= delta_base {
                return Err(QErr::InvalidIndex);
            }
            ric - delta_base - 1
        } else {
            ric.checked_add(delta_base).ok_or(QErr::InvalidIndex)?
        };
        if ric > self.table.inserted() {
            return Err(QErr::Blocked(ric));
        }

        let mut fields = Vec::new();
        let mut refs = Vec::new();
        let mut pos = n;
        while pos < b.len() {
            let (r, m) = parse_repr(&b[pos..])?;
            pos += m;
            match r {
                Repr::IndexedStatic(i) => {
                    fields.push(static_field(i).ok_or(QErr::StaticIndexOutOfRange(i))?);
                }
                Repr::LiteralNameRefStatic { index, value, .. } => {
                    let (name, _) =
                        static_field(index).ok_or(QErr::StaticIndexOutOfRange(index))?;
                    fields.push((name, value));
                }
                Repr::LiteralName { name, value, .. } => fields.push((name, value)),
                Repr::IndexedDynamic(rel) => {
                    let abs = relative_to_abs(base, rel)?;
                    fields.push(self.lookup(abs, ric)?.clone());
                    refs.push(abs);
                }
                Repr::IndexedPostBase(p) => {
                    let abs = post_base_to_abs(base, p)?;
                    fields.push(self.lookup(abs, ric)?.clone());
                    refs.push(abs);
                }
                Repr::LiteralNameRefDynamic { index, value, .. } => {
                    let abs = relative_to_abs(base, index)?;
                    let name = self.lookup(abs, ric)?.0.clone();
                    fields.push((name, value));
                    refs.push(abs);
                }
                Repr::LiteralPostBaseNameRef { index, value, .. } => {
                    let abs = post_base_to_abs(base, index)?;
                    let name = self.lookup(abs, ric)?.0.clone();
                    fields.push((name, value));
                    refs.push(abs);
                }
            }
        }
        Ok(DecodedSection { fields, required_insert_count: ric, base, refs })
    }

    fn lookup(&self, abs: u64, ric: u64) -> Result<&Field, QErr> {
        if abs >= ric {
            return Err(QErr::InvalidIndex);
        }
        self.table.get_abs(abs).ok_or(QErr::InvalidIndex)
    }
}

/// Field-section relative index (Section 3.2.5): 0 refers to absolute index Base - 1.
fn relative_to_abs(base: u64, rel: u64) -> Result<u64, QErr> {
    if rel >= base {
        return Err(QErr::InvalidIndex);
    }
    Ok(base - 1 - rel)
}

/// Post-Base index (Section 3.2.6): 0 refers to absolute index Base.
fn post_base_to_abs(base: u64, p: u64) -> Result<u64, QErr> {
    base.checked_add(p).ok_or(QErr::InvalidIndex)
}

#[cfg(test)]
mod tests {
    use super::*;
    use crate::huffman::HuffErr;

    fn unhex(s: &str) -> Vec<u8> {
        let digits: Vec<u8> = s
            .bytes()
            .filter(|c| !c.is_ascii_whitespace())
            .map(|c| (c as char).to_digit(16).expect("hex digit") as u8)
            .collect();
        assert!(digits.len() % 2 == 0);
        digits.chunks(2).map(|p| (p[0] << 4) | p[1]).collect()
    }

    fn f(n: &str, v: &str) -> Field {
        (n.as_bytes().to_vec(), v.as_bytes().to_vec())
    }

    // ----- static table -----

    #[test]
    fn static_table_spot_checks() {
        assert_eq!(STATIC_TABLE.len(), 99);
        let expect: &[(usize, &str, &str)] = &[
            (0, ":authority", ""),
            (1, ":path", "/"),
            (2, "age", "0"),
            (4, "content-length", "0"),
            (15, ":method", "CONNECT"),
            (16, ":method", "DELETE"),
            (17, ":method", "GET"),
            (18, ":method", "HEAD"),
            (19, ":method", "OPTIONS"),
            (20, ":method", "POST"),
            (21, ":method", "PUT"),
            (22, ":scheme", "http"),
            (23, ":scheme", "https"),
            (24, ":status", "103"),
            (25, ":status", "200"),
            (26, ":status", "304"),
            (27, ":status", "404"),
            (28, ":status", "503"),
            (29, "accept", "*/*"),
            (31, "accept-encoding", "gzip, deflate, br"),
            (44, "content-type", "application/dns-message"),
            (45, "content-type", "application/javascript"),
            (46, "content-type", "application/json"),
            (47, "content-type", "application/x-www-form-urlencoded"),
            (48, "content-type", "image/gif"),
            (49, "content-type", "image/jpeg"),
            (50, "content-type", "image/png"),
            (51, "content-type", "text/css"),
            (52, "content-type", "text/html; charset=utf-8"),
            (53, "content-type", "text/plain"),
            (54, "content-type", "text/plain;charset=utf-8"),
            (63, ":status", "100"),
            (64, ":status", "204"),
            (65, ":status", "206"),
            (66, ":status", "302"),
            (67, ":status", "400"),
            (68, ":status", "403"),
            (69, ":status", "421"),
            (70, ":status", "425"),
            (71, ":status", "500"),
            (95, "user-agent", ""),
            (96, "x-forwarded-for", ""),
            (97, "x-frame-options", "deny"),
            (98, "x-frame-options", "sameorigin"),
        ];
        for &(i, n, v) in expect {
            assert_eq!(STATIC_TABLE[i], (n, v), "static index {i}");
        }
    }

    #[test]
    fn static_table_name_order() {
        // Names in RFC 9204 Appendix A order, with the number of consecutive entries each has.
        let runs: &[(&str, usize)] = &[
            (":authority", 1),
            (":path", 1),
            ("age", 1),
            ("content-disposition", 1),
            ("content-length", 1),
            ("cookie", 1),
            ("date", 1),
            ("etag", 1),
            ("if-modified-since", 1),
            ("if-none-match", 1),
            ("last-modified", 1),
            ("link", 1),
            ("location", 1),
            ("referer", 1),
            ("set-cookie", 1),
            (":method", 7),
            (":scheme", 2),
            (":status", 5),
            ("accept", 2),
            ("accept-encoding", 1),
            ("accept-ranges", 1),
            ("access-control-allow-headers", 2),
            ("access-control-allow-origin", 1),
            ("cache-control", 6),
            ("content-encoding", 2),
            ("content-type", 11),
            ("range", 1),
            ("strict-transport-security", 3),
            ("vary", 2),
            ("x-content-type-options", 1),
            ("x-xss-protection", 1),
            (":status", 9),
            ("accept-language", 1),
            ("access-control-allow-credentials", 2),
            ("access-control-allow-headers", 1),
            ("access-control-allow-methods", 3),
            ("access-control-expose-headers", 1),
            ("access-control-request-headers", 1),
            ("access-control-request-method", 2),
            ("alt-svc", 1),
            ("authorization", 1),
            ("content-security-policy", 1),
            ("early-data", 1),
            ("expect-ct", 1),
            ("forwarded", 1),
            ("if-range", 1),
            ("origin", 1),
            ("purpose", 1),
            ("server", 1),
            ("timing-allow-origin", 1),
            ("upgrade-insecure-requests", 1),
            ("user-agent", 1),
            ("x-forwarded-for", 1),
            ("x-frame-options", 2),
        ];
        let mut i = 0usize;
        for &(name, count) in runs {
            for _ in 0..count {
                assert_eq!(STATIC_TABLE[i].0, name, "static index {i}");
                i += 1;
            }
        }
        assert_eq!(i, 99);
        // Structural properties of Appendix A: all names lower-case; within each of the two
        // halves (0..=14 | 15..=62 | 63..=98) names are sorted; no duplicate (name, value).
        for (n, _) in STATIC_TABLE.iter() {
            assert!(!n.bytes().any(|c| c.is_ascii_uppercase()));
        }
        for range in [0..15usize, 15..63, 63..99] {
            let names: Vec<&str> = STATIC_TABLE[range].iter().map(|e| e.0).collect();
            let mut sorted = names.clone();
            sorted.sort();
            assert_eq!(names, sorted);
        }
        for a in 0..99 {
            for b in a + 1..99 {
                assert_ne!(STATIC_TABLE[a], STATIC_TABLE[b], "{a} == {b}");
            }
        }
        assert_eq!(static_field(98), Some(f("x-frame-options", "sameorigin")));
        assert_eq!(static_field(99), None);
    }

    // ----- field sections -----

    #[test]
    fn rfc9204_b1_literal_with_name_reference() {
        let b = unhex("0000 510b 2f69 6e64 6578 2e68 746d 6c");
        let s = parse_section(&b).unwrap();
        assert_eq!(
            s,
            Section {
                encoded_ric: 0,
                sign: false,
                delta_base: 0,
                reprs: vec![Repr::LiteralNameRefStatic {
                    index: 1,
                    never_indexed: false,
                    value: b"/index.html".to_vec()
                }],
            }
        );
        assert_eq!(decode_static_only(&b), Ok(vec![f(":path", "/index.html")]));
        assert_eq!(encode_static_section(&[f(":path", "/index.html")], false), b);
        assert_eq!(
            encode_section_raw(0, false, 0, &s.reprs, false),
            b,
            "re-serialisation is byte-identical"
        );
        let d = RefDecoder::new(0).decode_section(&b).unwrap();
        assert_eq!(d.fields, vec![f(":path", "/index.html")]);
        assert_eq!((d.required_insert_count, d.base, d.refs.len()), (0, 0, 0));
    }

    #[test]
    fn first_byte_patterns() {
        // One of each representation with hand-assembled bytes.
        let b: Vec<u8> = vec![
            0x00, 0x00, // prefix
            0b1101_0001, // indexed static 17
            0b1000_0011, // indexed dynamic 3
            0b0001_0010, // indexed post-base 2
            0b0111_0001, 0x01, b'x', // literal name ref: N=1 T=1 index 1, value "x"
            0b0100_0101, 0x01, b'y', // literal name ref: N=0 T=0 index 5, value "y"
            0b0000_1010, 0x01, b'z', // literal post-base name ref: N=1 index 2, value "z"
            0b0011_0001, b'n', 0x01, b'v', // literal name: N=1 H=0 len 1 "n", value "v"
        ];
        let s = parse_section(&b).unwrap();
        let expect = vec![
            Repr::IndexedStatic(17),
            Repr::IndexedDynamic(3),
            Repr::IndexedPostBase(2),
            Repr::LiteralNameRefStatic { index: 1, never_indexed: true, value: b"x".to_vec() },
            Repr::LiteralNameRefDynamic { index: 5, never_indexed: false, value: b"y".to_vec() },
            Repr::LiteralPostBaseNameRef { index: 2, never_indexed: true, value: b"z".to_vec() },
            Repr::LiteralName { never_indexed: true, name: b"n".to_vec(), value: b"v".to_vec() },
        ];
        assert_eq!(s.reprs, expect);
        assert_eq!(encode_section_raw(0, false, 0, &expect, false), b);
        assert_eq!(decode_static_only(&b), Err(QErr::DynamicReference));
    }

    #[test]
    fn repr_round_trips_at_prefix_boundaries() {
        let idx = [0u64, 1, 6, 7, 8, 14, 15, 16, 62, 63, 64, 98, 99, 200, 1 << 20, (1 << 62) - 1];
        let vals: [&[u8]; 4] = [b"", b"v", &[0u8; 126], &[0xffu8; 200]];
        let mut reprs = Vec::new();
        for &i in &idx {
            reprs.push(Repr::IndexedStatic(i));
            reprs.push(Repr::IndexedDynamic(i));
            reprs.push(Repr::IndexedPostBase(i));
            for &v in &vals {
                for &n in &[false, true] {
                    reprs.push(Repr::LiteralNameRefStatic {
                        index: i,
                        never_indexed: n,
                        value: v.to_vec(),
                    });
                    reprs.push(Repr::LiteralNameRefDynamic {
                        index: i,
                        never_indexed: n,
                        value: v.to_vec(),
                    });
                    reprs.push(Repr::LiteralPostBaseNameRef {
                        index: i,
                        never_indexed: n,
                        value: v.to_vec(),
                    });
                }
            }
        }
        for name_len in [0usize, 1, 6, 7, 8, 134, 135, 300] {
            let name: Vec<u8> = (0..name_len).map(|i| b'a' + (i % 26) as u8).collect();
            for &n in &[false, true] {
                reprs.push(Repr::LiteralName {
                    never_indexed: n,
                    name: name.clone(),
                    value: b"val".to_vec(),
                });
            }
        }
        for &h in &[false, true] {
            for &(ric, sign, db) in
                &[(0u64, false, 0u64), (254, true, 126), (255, false, 127), (1 << 40, true, 1 << 40)]
            {
                let b = encode_section_raw(ric, sign, db, &reprs, h);
                let s = parse_section(&b).unwrap();
                assert_eq!((s.encoded_ric, s.sign, s.delta_base), (ric, sign, db));
                assert_eq!(s.reprs, reprs);
            }
            // One at a time, and every strict prefix of a single representation is Truncated.
            for r in &reprs {
                let e = encode_repr(r, h);
                assert_eq!(parse_repr(&e), Ok((r.clone(), e.len())));
                for cut in 0..e.len() {
                    assert_eq!(parse_repr(&e[..cut]), Err(QErr::Truncated), "{r:?} cut {cut}");
                }
            }
        }
    }

    #[test]
    fn section_prefix_errors() {
        assert_eq!(parse_section(&[]), Err(QErr::Truncated));
        assert_eq!(parse_section(&[0x00]), Err(QErr::Truncated));
        assert_eq!(parse_section(&[0xff]), Err(QErr::Truncated));
        assert_eq!(parse_section(&[0x00, 0x7f]), Err(QErr::Truncated));
        assert_eq!(
            parse_section(&[0x00, 0x00]),
            Ok(Section { encoded_ric: 0, sign: false, delta_base: 0, reprs: vec![] })
        );
        assert_eq!(decode_static_only(&[0x00, 0x00]), Ok(vec![]));
        // RIC too large for 62 bits.
        let mut b = qint::encode(8, 0, 1 << 62);
        b.push(0);
        assert_eq!(parse_section(&b), Err(QErr::Int(IntErr::Overflow)));
    }

    #[test]
    fn static_only_rules() {
        let body = [0b1101_0001u8]; // :method GET
        let mk = |ric: u64, s: bool, db: u64| {
            let mut b = qint::encode(8, 0, ric);
            b.extend(qint::encode(7, s as u8, db));
            b.extend_from_slice(&body);
            b
        };
        let get = vec![f(":method", "GET")];
        assert_eq!(decode_static_only(&mk(0, false, 0)), Ok(get.clone()));
        assert_eq!(decode_static_only(&mk(1, false, 0)), Err(QErr::NonZeroRequiredInsertCount(1)));
        assert_eq!(
            decode_static_only(&mk(300, true, 3)),
            Err(QErr::NonZeroRequiredInsertCount(300))
        );
        // Sign = 1 with RIC 0: Base would be negative, MUST be rejected.
        assert_eq!(decode_static_only(&mk(0, true, 0)), Err(QErr::NonZeroBase));
        assert_eq!(decode_static_only(&mk(0, true, 5)), Err(QErr::NonZeroBase));
        // Sign = 0, Delta Base != 0, no dynamic references: legal per Section 4.5.1.2.
        assert_eq!(decode_static_only(&mk(0, false, 5)), Ok(get.clone()));
        assert_eq!(decode_static_only_zero_base(&mk(0, false, 5)), Err(QErr::NonZeroBase));
        assert_eq!(decode_static_only_zero_base(&mk(0, false, 0)), Ok(get.clone()));
        // The general decoder agrees on all three.
        let d = RefDecoder::new(0);
        assert_eq!(d.decode_section(&mk(0, false, 5)).map(|s| s.fields), Ok(get.clone()));
        assert_eq!(d.decode_section(&mk(0, true, 0)), Err(QErr::InvalidIndex));
        assert_eq!(d.decode_section(&mk(1, false, 0)), Err(QErr::InvalidRequiredInsertCount));

        // Static index range.
        assert_eq!(
            decode_static_only(&[0, 0, 0b1111_1111, 35]), // 63 + 35 = 98
            Ok(vec![f("x-frame-options", "sameorigin")])
        );
        assert_eq!(
            decode_static_only(&[0, 0, 0b1111_1111, 36]),
            Err(QErr::StaticIndexOutOfRange(99))
        );
        // Name reference 4-bit prefix: 15 + 84 = 99.
        assert_eq!(
            decode_static_only(&[0, 0, 0b0101_1111, 84, 0x00]),
            Err(QErr::StaticIndexOutOfRange(99))
        );
        assert_eq!(
            decode_static_only(&[0, 0, 0b0101_1111, 83, 0x00]),
            Ok(vec![f("x-frame-options", "")])
        );
        // Each dynamic form.
        for body in [
            vec![0b1000_0000u8],
            vec![0b0001_0000],
            vec![0b0100_0000, 0x00],
            vec![0b0000_0000, 0x00],
        ] {
            let mut b = vec![0u8, 0];
            b.extend(body);
            assert_eq!(decode_static_only(&b), Err(QErr::DynamicReference));
        }
        // Truncated / Huffman errors in field lines.
        assert_eq!(decode_static_only(&[0, 0, 0x51, 0x0b, b'/']), Err(QErr::Truncated));
        assert_eq!(decode_static_only(&[0, 0, 0x51]), Err(QErr::Truncated));
        assert_eq!(decode_static_only(&[0, 0, 0x27]), Err(QErr::Truncated));
        assert_eq!(
            decode_static_only(&[0, 0, 0x51, 0x81, 0xff]),
            Err(QErr::Str(StrErr::Huffman(HuffErr::PaddingTooLong)))
        );
        assert_eq!(
            decode_static_only(&[0, 0, 0b0010_1001, 0b0000_0110, 0x00]),
            Err(QErr::Str(StrErr::Huffman(HuffErr::PaddingNotOnes)))
        );
        assert_eq!(
            decode_static_only(&[0, 0, 0x51, 0x84, 0xff, 0xff, 0xff, 0xff]),
            Err(QErr::Str(StrErr::Huffman(HuffErr::EosInString)))
        );
    }

    #[test]
    fn encoders_round_trip_through_decoders() {
        let fields = vec![
            f(":method", "GET"),
            f(":scheme", "https"),
            f(":path", "/"),
            f(":path", "/index.html"),
            f(":authority", "www.example.com"),
            f("user-agent", "x"),
            f("x-custom", "some value"),
            f("", ""),
            (vec![0x00, 0xff, b'A'], vec![0x80, b'\n', b'\r', 0x00]),
            (b"long-name-".repeat(30), b"v".repeat(1000)),
            f(":METHOD", "GET"), // not in the static table: bytewise comparison
        ];
        for &h in &[false, true] {
            let lit = encode_literal_section(&fields, h);
            assert_eq!(&lit[..2], &[0, 0]);
            assert_eq!(decode_static_only(&lit), Ok(fields.clone()));
            let s = parse_section(&lit).unwrap();
            assert!(s.reprs.iter().all(|r| matches!(r, Repr::LiteralName { .. })));
            assert_eq!(s.reprs.len(), fields.len());

            let st = encode_static_section(&fields, h);
            assert_eq!(&st[..2], &[0, 0]);
            assert_eq!(decode_static_only(&st), Ok(fields.clone()));
            assert_eq!(RefDecoder::new(4096).decode_section(&st).unwrap().fields, fields);
            let s = parse_section(&st).unwrap();
            assert_eq!(s.reprs[0], Repr::IndexedStatic(17));
            assert_eq!(s.reprs[1], Repr::IndexedStatic(23));
            assert_eq!(s.reprs[2], Repr::IndexedStatic(1));
            assert!(matches!(s.reprs[3], Repr::LiteralNameRefStatic { index: 1, .. }));
            assert!(matches!(s.reprs[4], Repr::LiteralNameRefStatic { index: 0, .. }));
            assert!(matches!(s.reprs[5], Repr::LiteralNameRefStatic { index: 95, .. }));
            assert!(matches!(s.reprs[6], Repr::LiteralName { .. }));
            assert!(matches!(s.reprs[10], Repr::LiteralName { .. }));
        }
        // Every static entry encodes to exactly its own index.
        for i in 0..99u64 {
            let fl = static_field(i).unwrap();
            assert_eq!(best_static_repr(&fl.0, &fl.1), Repr::IndexedStatic(i));
        }
        assert_eq!(
            encode_static_section(&[f(":method", "GET")], false),
            vec![0x00, 0x00, 0xd1]
        );
    }

    #[test]
    fn sizes() {
        assert_eq!(section_size(&[]), 0);
        assert_eq!(section_size(&[f("", "")]), 32);
        assert_eq!(section_size(&[f(":authority", "www.example.com"), f("a", "bc")]), 57 + 35);
    }

    // ----- dynamic table -----

    #[test]
    fn dyn_table_fifo_and_eviction() {
        let mut t = DynTable::new(100);
        assert_eq!((t.capacity(), t.size(), t.inserted(), t.dropped()), (100, 0, 0, 0));
        assert_eq!(t.get_abs(0), None);
        t.insert(f("a", "1")).unwrap(); // 34
        t.insert(f("b", "2")).unwrap(); // 68
        assert_eq!((t.size(), t.inserted(), t.dropped()), (68, 2, 0));
        t.insert(f("c", "3")).unwrap(); // 102 > 100: evict "a"
        assert_eq!((t.size(), t.inserted(), t.dropped()), (68, 3, 1));
        assert_eq!(t.get_abs(0), None);
        assert_eq!(t.get_abs(1), Some(&f("b", "2")));
        assert_eq!(t.get_abs(2), Some(&f("c", "3")));
        assert_eq!(t.get_abs(3), None);
        // Exactly fitting entry evicts everything else.
        let big = (vec![b'n'; 34], vec![b'v'; 34]); // 100
        t.insert(big.clone()).unwrap();
        assert_eq!((t.size(), t.inserted(), t.dropped(), t.len()), (100, 4, 3, 1));
        assert_eq!(t.get_abs(3), Some(&big));
        // One byte too large: error, table unchanged.
        let too_big = (vec![b'n'; 35], vec![b'v'; 34]);
        assert_eq!(t.insert(too_big), Err(QErr::CapacityExceeded));
        assert_eq!((t.size(), t.inserted(), t.dropped(), t.len()), (100, 4, 3, 1));
        // Shrinking evicts.
        t.set_capacity(99).unwrap();
        assert_eq!((t.capacity(), t.size(), t.inserted(), t.dropped()), (99, 0, 4, 4));
        assert!(t.is_empty());
        // Capacity 0 accepts nothing, not even the empty field (size 32).
        t.set_capacity(0).unwrap();
        assert_eq!(t.insert(f("", "")), Err(QErr::CapacityExceeded));
        t.set_capacity(32).unwrap();
        t.insert(f("", "")).unwrap();
        assert_eq!((t.size(), t.inserted(), t.dropped()), (32, 5, 4));
    }

    // ----- encoder / decoder streams -----

    #[test]
    fn encoder_stream_patterns_and_truncation() {
        let instrs = vec![
            EncInstr::SetCapacity(220),
            EncInstr::InsertNameRefStatic { index: 0, value: b"www.example.com".to_vec() },
            EncInstr::InsertNameRefDynamic { rel_index: 70, value: b"".to_vec() },
            EncInstr::InsertLiteral { name: b"custom-key".to_vec(), value: b"custom-value".to_vec() },
            EncInstr::InsertLiteral { name: vec![b'n'; 31], value: vec![0xff; 127] },
            EncInstr::Duplicate(2),
            EncInstr::Duplicate(31),
            EncInstr::SetCapacity(0),
            EncInstr::SetCapacity(30),
            EncInstr::SetCapacity(31),
        ];
        for &h in &[false, true] {
            let mut b = Vec::new();
            let mut ends = Vec::new();
            for i in &instrs {
                b.extend(encode_enc_instr(i, h));
                ends.push(b.len());
            }
            let parsed = parse_encoder_stream(&b).unwrap();
            assert_eq!(parsed.len(), instrs.len());
            for (k, (i, end)) in parsed.iter().enumerate() {
                assert_eq!(i, &instrs[k]);
                assert_eq!(*end, ends[k]);
            }
            // Every cut point yields exactly the instructions that are complete.
            for cut in 0..=b.len() {
                let p = parse_encoder_stream(&b[..cut]).unwrap();
                let complete = ends.iter().filter(|&&e| e <= cut).count();
                assert_eq!(p.len(), complete, "cut {cut}");
                if let Some((_, e)) = p.last() {
                    assert_eq!(*e, ends[complete - 1]);
                }
            }
        }
        // Hand-assembled first bytes.
        assert_eq!(parse_enc_instr(&[0x3f, 0xbd, 0x01]), Ok((EncInstr::SetCapacity(220), 3)));
        assert_eq!(parse_enc_instr(&[0x02]), Ok((EncInstr::Duplicate(2), 1)));
        assert_eq!(
            parse_enc_instr(&[0xc1, 0x01, b'/']),
            Ok((EncInstr::InsertNameRefStatic { index: 1, value: b"/".to_vec() }, 3))
        );
        assert_eq!(
            parse_enc_instr(&[0x81, 0x00]),
            Ok((EncInstr::InsertNameRefDynamic { rel_index: 1, value: vec![] }, 2))
        );
        assert_eq!(
            parse_enc_instr(&[0x41, b'n', 0x01, b'v']),
            Ok((EncInstr::InsertLiteral { name: b"n".to_vec(), value: b"v".to_vec() }, 4))
        );
        // Huffman name on the encoder stream: 01 H=1 len=1, '0' = 00000 + 111.
        assert_eq!(
            parse_enc_instr(&[0b0110_0001, 0b0000_0111, 0x00]),
            Ok((EncInstr::InsertLiteral { name: b"0".to_vec(), value: vec![] }, 3))
        );
        // Malformed (not truncated): bad Huffman padding, integer overflow.
        assert_eq!(
            parse_encoder_stream(&[0x02, 0b0110_0001, 0b0000_0110, 0x00]),
            Err(QErr::Str(StrErr::Huffman(HuffErr::PaddingNotOnes)))
        );
        let mut b = vec![0x02];
        b.extend(qint::encode(5, 0b001, 1 << 62));
        assert_eq!(parse_encoder_stream(&b), Err(QErr::Int(IntErr::Overflow)));
        assert_eq!(parse_encoder_stream(&[]), Ok(vec![]));
    }

    #[test]
    fn decoder_stream_patterns() {
        let instrs = vec![
            DecInstr::SectionAck(4),
            DecInstr::InsertCountIncrement(1),
            DecInstr::StreamCancel(8),
            DecInstr::SectionAck(126),
            DecInstr::SectionAck(127),
            DecInstr::SectionAck((1 << 62) - 1),
            DecInstr::StreamCancel(62),
            DecInstr::StreamCancel(63),
            DecInstr::InsertCountIncrement(0),
            DecInstr::InsertCountIncrement(63),
            DecInstr::InsertCountIncrement(1000),
        ];
        let mut b = Vec::new();
        let mut ends = Vec::new();
        for i in &instrs {
            b.extend(encode_dec_instr(i));
            ends.push(b.len());
        }
        assert_eq!(&b[..3], &[0x84, 0x01, 0x48]);
        let parsed = parse_decoder_stream(&b).unwrap();
        assert_eq!(parsed.iter().map(|p| p.0.clone()).collect::<Vec<_>>(), instrs);
        assert_eq!(parsed.iter().map(|p| p.1).collect::<Vec<_>>(), ends);
        for cut in 0..=b.len() {
            let p = parse_decoder_stream(&b[..cut]).unwrap();
            assert_eq!(p.len(), ends.iter().filter(|&&e| e <= cut).count());
        }
        let bad = qint::encode(7, 1, 1 << 62);
        assert_eq!(parse_decoder_stream(&bad), Err(QErr::Int(IntErr::Overflow)));
    }

    // ----- Required Insert Count -----

    #[test]
    fn required_insert_count_reconstruction() {
        // Capacity 0..31: MaxEntries = 0, every non-zero encoding is invalid.
        for cap in [0u64, 31] {
            assert_eq!(reconstruct_required_insert_count(0, cap, 0), Ok(0));
            assert_eq!(
                reconstruct_required_insert_count(1, cap, 0),
                Err(QErr::InvalidRequiredInsertCount)
            );
        }
        // The worked example in Section 4.5.1.1: capacity 100 -> MaxEntries 3, FullRange 6;
        // decoder has received 10 inserts; encoded value 4 -> Required Insert Count 9.
        assert_eq!(reconstruct_required_insert_count(4, 100, 10), Ok(9));
        // Appendix B.2 / B.4 values with capacity 220 (MaxEntries 6, FullRange 12).
        assert_eq!(reconstruct_required_insert_count(3, 220, 2), Ok(2));
        assert_eq!(reconstruct_required_insert_count(5, 220, 4), Ok(4));
        // Encoded value above FullRange.
        assert_eq!(reconstruct_required_insert_count(12, 220, 5), Ok(11));
        assert_eq!(
            reconstruct_required_insert_count(12, 220, 0), // 11 > MaxValue 6, 11 <= FullRange
            Err(QErr::InvalidRequiredInsertCount)
        );
        assert_eq!(
            reconstruct_required_insert_count(13, 220, 5),
            Err(QErr::InvalidRequiredInsertCount)
        );
        // Would have to be <= 0 after unwrapping: with 0 inserts MaxValue = 6, encoded 8 -> 7 >
        // 6 and 7 <= FullRange.
        assert_eq!(
            reconstruct_required_insert_count(8, 220, 0),
            Err(QErr::InvalidRequiredInsertCount)
        );
        assert_eq!(reconstruct_required_insert_count(7, 220, 0), Ok(6));
        // Exhaustive consistency with the encoder formula: for every decoder state and every
        // RIC the encoder may legally use (ric <= inserts + MaxEntries, and ric > inserts -
        // MaxEntries because at most MaxEntries entries are live ... the window the RFC
        // guarantees is (MaxValue - FullRange, MaxValue]).
        for cap in [32u64, 64, 100, 220, 4096] {
            let me = cap / 32;
            let fr = 2 * me;
            for inserts in 0..(5 * fr + 3) {
                let max_value = inserts + me;
                let lo = max_value.saturating_sub(fr) + 1; // smallest value in the window, >= 1
                for ric in lo.max(1)..=max_value {
                    let enc = encode_required_insert_count(ric, cap);
                    assert!(enc >= 1 && enc <= fr);
                    assert_eq!(
                        reconstruct_required_insert_count(enc, cap, inserts),
                        Ok(ric),
                        "cap {cap} inserts {inserts} ric {ric}"
                    );
                }
                // And every encoded value in 1..=FullRange either errors or lands in the window.
                for enc in 1..=fr {
                    match reconstruct_required_insert_count(enc, cap, inserts) {
                        Ok(r) => {
                            assert!(r >= 1 && r <= max_value && r + fr > max_value);
                            assert_eq!(encode_required_insert_count(r, cap), enc);
                        }
                        Err(e) => assert_eq!(e, QErr::InvalidRequiredInsertCount),
                    }
                }
            }
        }
    }

    // ----- RFC 9204 Appendix B.2 .. B.5 -----

    /// Feeds an encoder stream through the parser and the decoder.
    fn feed(d: &mut RefDecoder, stream: &[u8]) -> Vec<EncInstr> {
        let parsed = parse_encoder_stream(stream).unwrap();
        assert_eq!(parsed.last().map(|p| p.1).unwrap_or(0), stream.len(), "complete instructions");
        let mut out = Vec::new();
        for (i, _) in parsed {
            d.apply(&i).unwrap();
            out.push(i);
        }
        out
    }

    #[test]
    fn rfc9204_appendix_b2_to_b5() {
        let mut d = RefDecoder::new(220);

        // B.2 Dynamic Table
        let enc = unhex(
            "3fbd01 c00f 7777 772e 6578 616d 706c 652e 636f 6d c10c 2f73 616d 706c 652f 7061 7468",
        );
        let section = unhex("0381 10 11");
        // Before the encoder stream arrives the section is blocked on Required Insert Count 2.
        assert_eq!(d.decode_section(&section), Err(QErr::Blocked(2)));
        let instrs = feed(&mut d, &enc);
        assert_eq!(
            instrs,
            vec![
                EncInstr::SetCapacity(220),
                EncInstr::InsertNameRefStatic { index: 0, value: b"www.example.com".to_vec() },
                EncInstr::InsertNameRefStatic { index: 1, value: b"/sample/path".to_vec() },
            ]
        );
        assert_eq!(d.table.capacity(), 220);
        assert_eq!(d.table.inserted(), 2);
        assert_eq!(d.table.size(), 57 + 49);
        assert_eq!(d.table.get_abs(0), Some(&f(":authority", "www.example.com")));
        assert_eq!(d.table.get_abs(1), Some(&f(":path", "/sample/path")));
        let s = parse_section(&section).unwrap();
        assert_eq!(
            s,
            Section {
                encoded_ric: 3,
                sign: true,
                delta_base: 1,
                reprs: vec![Repr::IndexedPostBase(0), Repr::IndexedPostBase(1)],
            }
        );
        let dec = d.decode_section(&section).unwrap();
        assert_eq!(
            dec,
            DecodedSection {
                fields: vec![f(":authority", "www.example.com"), f(":path", "/sample/path")],
                required_insert_count: 2,
                base: 0,
                refs: vec![0, 1],
            }
        );
        // A stateless decoder must refuse it.
        assert_eq!(decode_static_only(&section), Err(QErr::NonZeroRequiredInsertCount(3)));

        // B.3 Speculative Insert: custom-key=custom-value, then Section Ack 4 / ICI 1.
        let mut enc = vec![0x4a];
        enc.extend_from_slice(b"custom-key");
        enc.push(0x0c);
        enc.extend_from_slice(b"custom-value");
        let instrs = feed(&mut d, &enc);
        assert_eq!(
            instrs,
            vec![EncInstr::InsertLiteral {
                name: b"custom-key".to_vec(),
                value: b"custom-value".to_vec()
            }]
        );
        assert_eq!(d.table.inserted(), 3);
        assert_eq!(d.table.size(), 57 + 49 + 54);
        assert_eq!(
            parse_decoder_stream(&[0x84, 0x01]),
            Ok(vec![(DecInstr::SectionAck(4), 1), (DecInstr::InsertCountIncrement(1), 2)])
        );

        // B.4 Duplicate Instruction, Stream Cancellation.
        let instrs = feed(&mut d, &[0x02]);
        assert_eq!(instrs, vec![EncInstr::Duplicate(2)]);
        assert_eq!(d.table.inserted(), 4);
        assert_eq!(d.table.size(), 217);
        assert_eq!(d.table.get_abs(3), Some(&f(":authority", "www.example.com")));
        let section = unhex("0500 80 c1 81");
        let dec = d.decode_section(&section).unwrap();
        assert_eq!(
            dec,
            DecodedSection {
                fields: vec![
                    f(":authority", "www.example.com"),
                    f(":path", "/"),
                    f("custom-key", "custom-value"),
                ],
                required_insert_count: 4,
                base: 4,
                refs: vec![3, 2],
            }
        );
        assert_eq!(parse_decoder_stream(&[0x48]), Ok(vec![(DecInstr::StreamCancel(8), 1)]));

        // B.5 Dynamic Table Insert, Eviction: custom-key=custom-value2 evicts absolute index 0.
        let mut enc = vec![0x81, 0x0d];
        enc.extend_from_slice(b"custom-value2");
        let instrs = feed(&mut d, &enc);
        assert_eq!(
            instrs,
            vec![EncInstr::InsertNameRefDynamic { rel_index: 1, value: b"custom-value2".to_vec() }]
        );
        assert_eq!(d.table.inserted(), 5);
        assert_eq!(d.table.dropped(), 1);
        assert_eq!(d.table.size(), 215);
        assert_eq!(d.table.get_abs(0), None);
        assert_eq!(d.table.get_abs(1), Some(&f(":path", "/sample/path")));
        assert_eq!(d.table.get_abs(4), Some(&f("custom-key", "custom-value2")));
        // The B.2 section now references an evicted entry.
        assert_eq!(d.decode_section(&unhex("0381 10 11")), Err(QErr::InvalidIndex));
    }

    // ----- reference decoder: index arithmetic and errors -----

    #[test]
    fn ref_decoder_indexing() {
        let mut d = RefDecoder::new_with_capacity(4096, 4096);
        for i in 0..5u8 {
            d.apply(&EncInstr::InsertLiteral { name: vec![b'n', b'0' + i], value: vec![b'v', b'0' + i] })
                .unwrap();
        }
        let e = |i: u8| (vec![b'n', b'0' + i], vec![b'v', b'0' + i]);
        let enc_ric = |r| encode_required_insert_count(r, 4096);

        // Base = 3 (RIC 5, S=1, Delta 1): relative 0,1,2 -> abs 2,1,0; post-base 0,1 -> abs 3,4.
        let reprs = vec![
            Repr::IndexedDynamic(0),
            Repr::IndexedDynamic(2),
            Repr::IndexedPostBase(0),
            Repr::IndexedPostBase(1),
            Repr::LiteralNameRefDynamic { index: 1, never_indexed: true, value: b"x".to_vec() },
            Repr::LiteralPostBaseNameRef { index: 1, never_indexed: false, value: b"y".to_vec() },
            Repr::IndexedStatic(25),
        ];
        let b = encode_section_raw(enc_ric(5), true, 1, &reprs, true);
        let dec = d.decode_section(&b).unwrap();
        assert_eq!(dec.required_insert_count, 5);
        assert_eq!(dec.base, 3);
        assert_eq!(dec.refs, vec![2, 0, 3, 4, 1, 4]);
        assert_eq!(
            dec.fields,
            vec![
                e(2),
                e(0),
                e(3),
                e(4),
                (b"n1".to_vec(), b"x".to_vec()),
                (b"n4".to_vec(), b"y".to_vec()),
                f(":status", "200"),
            ]
        );

        // Relative index reaching below absolute 0.
        let b = encode_section_raw(enc_ric(5), true, 1, &[Repr::IndexedDynamic(3)], false);
        assert_eq!(d.decode_section(&b), Err(QErr::InvalidIndex));
        // Post-base index at / beyond Required Insert Count (Section 2.2.3).
        let b = encode_section_raw(enc_ric(5), true, 1, &[Repr::IndexedPostBase(2)], false);
        assert_eq!(d.decode_section(&b), Err(QErr::InvalidIndex));
        // Entry exists (abs 4) but RIC says 4: reference >= RIC is invalid.
        let b = encode_section_raw(enc_ric(4), false, 1, &[Repr::IndexedDynamic(0)], false);
        assert_eq!(d.decode_section(&b), Err(QErr::InvalidIndex));
        let b = encode_section_raw(enc_ric(4), false, 1, &[Repr::IndexedDynamic(1)], false);
        assert_eq!(d.decode_section(&b).map(|s| (s.base, s.refs)), Ok((5, vec![3])));
        // Negative base.
        let b = encode_section_raw(enc_ric(5), true, 5, &[], false);
        assert_eq!(d.decode_section(&b), Err(QErr::InvalidIndex));
        let b = encode_section_raw(enc_ric(5), true, 4, &[Repr::IndexedPostBase(0)], false);
        assert_eq!(d.decode_section(&b).map(|s| (s.base, s.refs)), Ok((0, vec![0])));
        // Blocked.
        let b = encode_section_raw(enc_ric(6), false, 0, &[Repr::IndexedDynamic(0)], false);
        assert_eq!(d.decode_section(&b), Err(QErr::Blocked(6)));
        d.apply(&EncInstr::Duplicate(0)).unwrap();
        assert_eq!(d.decode_section(&b).map(|s| s.fields), Ok(vec![e(4)]));
        // RIC = 0 with a dynamic reference.
        let b = encode_section_raw(0, false, 3, &[Repr::IndexedDynamic(0)], false);
        assert_eq!(d.decode_section(&b), Err(QErr::InvalidIndex));
        // Static index out of range through the general decoder.
        let b = encode_section_raw(0, false, 0, &[Repr::IndexedStatic(99)], false);
        assert_eq!(d.decode_section(&b), Err(QErr::StaticIndexOutOfRange(99)));
        // Truncated field line.
        assert_eq!(d.decode_section(&[0x00, 0x00, 0x51, 0x05, b'a']), Err(QErr::Truncated));
        assert_eq!(d.decode_section(&[0x00]), Err(QErr::Truncated));
    }

    #[test]
    fn ref_decoder_encoder_stream_errors() {
        let mut d = RefDecoder::new(100);
        assert_eq!(d.table.capacity(), 0);
        // Nothing fits before Set Dynamic Table Capacity.
        assert_eq!(
            d.apply(&EncInstr::InsertLiteral { name: vec![], value: vec![] }),
            Err(QErr::CapacityExceeded)
        );
        assert_eq!(d.apply(&EncInstr::SetCapacity(101)), Err(QErr::CapacityExceeded));
        assert_eq!(d.table.capacity(), 0);
        d.apply(&EncInstr::SetCapacity(100)).unwrap();
        assert_eq!(d.apply(&EncInstr::Duplicate(0)), Err(QErr::InvalidIndex));
        assert_eq!(
            d.apply(&EncInstr::InsertNameRefDynamic { rel_index: 0, value: vec![] }),
            Err(QErr::InvalidIndex)
        );
        assert_eq!(
            d.apply(&EncInstr::InsertNameRefStatic { index: 99, value: vec![] }),
            Err(QErr::StaticIndexOutOfRange(99))
        );
        d.apply(&EncInstr::InsertNameRefStatic { index: 98, value: b"v".to_vec() }).unwrap(); // 15+1+32 = 48
        d.apply(&EncInstr::InsertLiteral { name: b"k".to_vec(), value: b"w".to_vec() }).unwrap(); // 34
        assert_eq!((d.table.inserted(), d.table.size()), (2, 82));
        assert_eq!(d.apply(&EncInstr::Duplicate(2)), Err(QErr::InvalidIndex));
        // Name reference to an entry that this very insertion evicts (legal, Section 3.2.2).
        d.apply(&EncInstr::InsertNameRefDynamic { rel_index: 1, value: b"zz".to_vec() }).unwrap(); // 49
        assert_eq!((d.table.inserted(), d.table.dropped(), d.table.size()), (3, 1, 83));
        assert_eq!(d.table.get_abs(2), Some(&f("x-frame-options", "zz")));
        // Relative index now pointing at the evicted entry.
        assert_eq!(d.apply(&EncInstr::Duplicate(2)), Err(QErr::InvalidIndex));
        // Duplicate of the oldest live entry, which the duplication itself evicts.
        d.apply(&EncInstr::Duplicate(1)).unwrap();
        assert_eq!((d.table.inserted(), d.table.dropped(), d.table.size()), (4, 2, 83));
        assert_eq!(d.table.get_abs(3), Some(&f("k", "w")));
        // Entry larger than the capacity.
        assert_eq!(
            d.apply(&EncInstr::InsertLiteral { name: vec![b'n'; 69], value: vec![] }),
            Err(QErr::CapacityExceeded)
        );
        assert_eq!((d.table.inserted(), d.table.dropped(), d.table.size()), (4, 2, 83));
        // Reducing the capacity evicts; 0 empties the table.
        d.apply(&EncInstr::SetCapacity(40)).unwrap();
        assert_eq!((d.table.inserted(), d.table.dropped(), d.table.size()), (4, 3, 34));
        d.apply(&EncInstr::SetCapacity(0)).unwrap();
        assert_eq!((d.table.inserted(), d.table.dropped(), d.table.size()), (4, 4, 0));
    }
}
