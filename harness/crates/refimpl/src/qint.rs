//! Prefixed integers, RFC 7541 Section 5.1 (used unchanged by QPACK, RFC 9204 Section 4.1.1).
//!
//! All arithmetic is done in u128 so that nothing can wrap.
//!
//! Error normalisation:
//!   * `Truncated`: the input ends while another byte is still required (including empty input).
//!   * `Overflow`: the mathematical value is larger than the limit. Because the value can only
//!     grow with every continuation byte, `Overflow` is reported as soon as the partial sum
//!     exceeds the limit, even if the input is also truncated after that point.
//!
//! `decode` / `decode_max` put no limit on the NUMBER of continuation bytes: non-minimal
//! encodings padded with any number of `0x80` bytes decode to their mathematical value
//! (RFC 7541 allows, but does not require, an implementation to reject over-long encodings).
//! `decode_exact` reads at most 16 continuation bytes.

#[derive(Debug, Clone, PartialEq, Eq)]
pub enum IntErr {
    Truncated,
    Overflow,
}

/// Largest value `decode` accepts: 2^62 - 1 (RFC 9204 Section 4.1.1: QPACK implementations
/// MUST be able to decode integers up to and including 62 bits long).
pub const MAX_62: u64 = (1u64 << 62) - 1;

fn check_prefix(prefix_bits: u8) {
    assert!(
        (1..=8).contains(&prefix_bits),
        "prefix_bits must be in 1..=8, got {prefix_bits}"
    );
}

/// 2^N - 1 for an N-bit prefix.
fn prefix_max(prefix_bits: u8) -> u16 {
    (1u16 << prefix_bits) - 1
}

/// Splits the first byte into (flags, prefix value).
fn split_first(prefix_bits: u8, first: u8) -> (u8, u16) {
    let flags = ((first as u16) >> prefix_bits) as u8;
    let low = (first as u16) & prefix_max(prefix_bits);
    (flags, low)
}

/// Minimal encoding of `value` with an N-bit prefix.
/// `prefix_bits` in 1..=8. `flags` are the (8 - prefix_bits) high bits of the first byte,
/// right-aligned.
pub fn encode(prefix_bits: u8, flags: u8, value: u64) -> Vec<u8> {
    check_prefix(prefix_bits);
    assert!(
        (flags as u16) < (1u16 << (8 - prefix_bits)),
        "flags {flags:#x} do not fit above a {prefix_bits}-bit prefix"
    );
    let high: u8 = (((flags as u16) << prefix_bits) & 0xff) as u8;
    let max = prefix_max(prefix_bits) as u64;
    let mut out = Vec::new();
    if value < max {
        out.push(high | value as u8);
        return out;
    }
    out.push(high | max as u8);
    let mut rest = value - max;
    while rest >= 128 {
        out.push((rest % 128) as u8 | 0x80);
        rest /= 128;
    }
    out.push(rest as u8);
    out
}

/// Like `encode`, then appends `extra` redundant continuation bytes (the previous last byte
/// gets its continuation bit set, `extra - 1` bytes of 0x80 and a final 0x00 follow).
/// Only possible when the value does not fit in the prefix; for test-input construction.
pub fn encode_padded(prefix_bits: u8, flags: u8, value: u64, extra: usize) -> Vec<u8> {
    let mut out = encode(prefix_bits, flags, value);
    if extra == 0 {
        return out;
    }
    assert!(
        out.len() >= 2,
        "a value that fits in the prefix has no non-minimal encoding"
    );
    let last = out.len() - 1;
    out[last] |= 0x80;
    for _ in 0..extra - 1 {
        out.push(0x80);
    }
    out.push(0x00);
    out
}

/// Returns (flags, value, bytes_consumed). `Overflow` if the value does not fit in 62 bits.
pub fn decode(prefix_bits: u8, b: &[u8]) -> Result<(u8, u64, usize), IntErr> {
    decode_max(prefix_bits, b, MAX_62)
}

/// Same as `decode` but with an explicit limit: values > `max` are `Overflow`.
pub fn decode_max(prefix_bits: u8, b: &[u8], max: u64) -> Result<(u8, u64, usize), IntErr> {
    check_prefix(prefix_bits);
    let first = *b.first().ok_or(IntErr::Truncated)?;
    let (flags, low) = split_first(prefix_bits, first);
    let max = max as u128;
    let mut value: u128 = low as u128;
    if value > max {
        return Err(IntErr::Overflow);
    }
    if low < prefix_max(prefix_bits) {
        return Ok((flags, value as u64, 1));
    }
    let mut pos: usize = 1;
    let mut shift: u32 = 0;
    loop {
        let byte = *b.get(pos).ok_or(IntErr::Truncated)?;
        pos += 1;
        let low7 = (byte & 0x7f) as u128;
        if low7 != 0 {
            // low7 << shift >= 2^shift; with shift >= 64 that is above any u64 limit.
            if shift >= 64 {
                return Err(IntErr::Overflow);
            }
            value += low7 << shift;
            if value > max {
                return Err(IntErr::Overflow);
            }
        }
        shift = shift.saturating_add(7);
        if byte & 0x80 == 0 {
            return Ok((flags, value as u64, pos));
        }
    }
}

/// The exact mathematical value as u128 with no limit other than: at most 16 continuation
/// bytes are read (`Overflow` if the 16th still has its continuation bit set). Used to tell
/// "exact or error" apart from "wrapped".
pub fn decode_exact(prefix_bits: u8, b: &[u8]) -> Result<(u8, u128, usize), IntErr> {
    check_prefix(prefix_bits);
    let first = *b.first().ok_or(IntErr::Truncated)?;
    let (flags, low) = split_first(prefix_bits, first);
    let mut value: u128 = low as u128;
    if low < prefix_max(prefix_bits) {
        return Ok((flags, value, 1));
    }
    for i in 0..16usize {
        let byte = *b.get(1 + i).ok_or(IntErr::Truncated)?;
        // Max shift is 7 * 15 = 105, so (0x7f << 105) < 2^112: no u128 overflow possible.
        value += ((byte & 0x7f) as u128) << (7 * i as u32);
        if byte & 0x80 == 0 {
            return Ok((flags, value, 2 + i));
        }
    }
    Err(IntErr::Overflow)
}

#[cfg(test)]
mod tests {
    use super::*;

    #[test]
    fn rfc7541_c1_examples() {
        // C.1.1: 10 with a 5-bit prefix.
        assert_eq!(encode(5, 0, 10), vec![0b0000_1010]);
        assert_eq!(decode(5, &[0b0000_1010]), Ok((0, 10, 1)));
        // C.1.2: 1337 with a 5-bit prefix.
        assert_eq!(encode(5, 0, 1337), vec![0b0001_1111, 0b1001_1010, 0b0000_1010]);
        assert_eq!(decode(5, &[0b0001_1111, 0b1001_1010, 0b0000_1010]), Ok((0, 1337, 3)));
        // C.1.3: 42 at an octet boundary (8-bit prefix).
        assert_eq!(encode(8, 0, 42), vec![42]);
        assert_eq!(decode(8, &[42]), Ok((0, 42, 1)));
    }

    #[test]
    fn flags_are_preserved() {
        assert_eq!(encode(5, 0b101, 10), vec![0b1010_1010]);
        assert_eq!(decode(5, &[0b1010_1010]), Ok((0b101, 10, 1)));
        assert_eq!(decode(5, &[0b1011_1111, 0x00]), Ok((0b101, 31, 2)));
        assert_eq!(decode(1, &[0b1111_1110]), Ok((0b111_1111, 0, 1)));
        assert_eq!(decode(1, &[0b0000_0001, 0x05]), Ok((0, 6, 2)));
        assert_eq!(decode(8, &[0xff, 0x00]), Ok((0, 255, 2)));
    }

    #[test]
    fn prefix_boundaries_round_trip() {
        for n in 1..=8u8 {
            let pm = ((1u16 << n) - 1) as u64;
            let flags_max: u8 = if n == 8 { 0 } else { ((1u16 << (8 - n)) - 1) as u8 };
            let values = [
                0,
                1,
                pm.saturating_sub(1),
                pm,
                pm + 1,
                pm + 127,
                pm + 128,
                pm + 129,
                pm + 16383,
                pm + 16384,
                65535,
                1 << 32,
                MAX_62 - 1,
                MAX_62,
            ];
            for &v in &values {
                for &flags in &[0u8, flags_max] {
                    let enc = encode(n, flags, v);
                    // single byte iff v < 2^n - 1
                    assert_eq!(enc.len() == 1, v < pm, "n={n} v={v}");
                    assert_eq!(decode(n, &enc), Ok((flags, v, enc.len())), "n={n} v={v}");
                    assert_eq!(
                        decode_exact(n, &enc),
                        Ok((flags, v as u128, enc.len())),
                        "n={n} v={v}"
                    );
                    // trailing garbage is not consumed
                    let mut more = enc.clone();
                    more.extend_from_slice(&[0xaa, 0x55]);
                    assert_eq!(decode(n, &more), Ok((flags, v, enc.len())));
                    // every strict prefix is Truncated
                    for cut in 0..enc.len() {
                        assert_eq!(decode(n, &enc[..cut]), Err(IntErr::Truncated));
                        assert_eq!(decode_exact(n, &enc[..cut]), Err(IntErr::Truncated));
                    }
                }
            }
        }
    }

    #[test]
    fn limits() {
        // 2^62 with 8-bit prefix: one above the limit.
        let enc = encode(8, 0, 1u64 << 62);
        assert_eq!(decode(8, &enc), Err(IntErr::Overflow));
        assert_eq!(decode_exact(8, &enc), Ok((0, 1u128 << 62, enc.len())));
        assert_eq!(decode_max(8, &enc, u64::MAX), Ok((0, 1u64 << 62, enc.len())));
        // u64::MAX round trips with max = u64::MAX.
        let enc = encode(3, 0b10101, u64::MAX);
        assert_eq!(decode_max(3, &enc, u64::MAX), Ok((0b10101, u64::MAX, enc.len())));
        assert_eq!(decode(3, &enc), Err(IntErr::Overflow));
        // Small explicit limit, also applied to values held in the prefix alone.
        assert_eq!(decode_max(6, &[0x05], 5), Ok((0, 5, 1)));
        assert_eq!(decode_max(6, &[0x06], 5), Err(IntErr::Overflow));
        assert_eq!(decode_max(6, &[0x3f, 0x00], 63), Ok((0, 63, 2)));
        assert_eq!(decode_max(6, &[0x3f, 0x01], 63), Err(IntErr::Overflow));
        // 2^64 exactly: 8-bit prefix 255 + (2^64 - 255).
        let mut b = vec![0xffu8];
        let mut rest: u128 = (1u128 << 64) - 255;
        while rest >= 128 {
            b.push((rest % 128) as u8 | 0x80);
            rest /= 128;
        }
        b.push(rest as u8);
        assert_eq!(decode_exact(8, &b), Ok((0, 1u128 << 64, b.len())));
        assert_eq!(decode_max(8, &b, u64::MAX), Err(IntErr::Overflow));
        assert_eq!(decode(8, &b), Err(IntErr::Overflow));
    }

    #[test]
    fn non_minimal_encodings() {
        // 31 + 0 with redundant continuation bytes.
        assert_eq!(decode(5, &[0x1f, 0x80, 0x00]), Ok((0, 31, 3)));
        assert_eq!(decode(5, &[0x1f, 0x80, 0x80, 0x80, 0x00]), Ok((0, 31, 5)));
        assert_eq!(decode_exact(5, &[0x1f, 0x80, 0x80, 0x80, 0x00]), Ok((0, 31, 5)));
        assert_eq!(encode_padded(5, 0, 1337, 2), vec![0x1f, 0x9a, 0x8a, 0x80, 0x00]);
        assert_eq!(decode(5, &encode_padded(5, 0, 1337, 2)), Ok((0, 1337, 5)));
        assert_eq!(decode(5, &encode_padded(5, 0, 1337, 1)), Ok((0, 1337, 4)));
        // `decode` has no length limit: 40 padding bytes still give the mathematical value.
        let long = encode_padded(5, 0, 1337, 40);
        assert_eq!(decode(5, &long), Ok((0, 1337, long.len())));
        // `decode_exact` reads at most 16 continuation bytes.
        assert_eq!(decode_exact(5, &long), Err(IntErr::Overflow));
        let sixteen = encode_padded(5, 0, 1337, 14); // 2 + 14 continuation bytes
        assert_eq!(sixteen.len(), 17);
        assert_eq!(decode_exact(5, &sixteen), Ok((0, 1337, 17)));
        let seventeen = encode_padded(5, 0, 1337, 15);
        assert_eq!(decode_exact(5, &seventeen), Err(IntErr::Overflow));
        // A non-zero digit far beyond 64 bits is an overflow, not a wrap.
        let mut b = vec![0x1f];
        b.extend(std::iter::repeat(0x80).take(12));
        b.push(0x01);
        assert_eq!(decode_max(5, &b, u64::MAX), Err(IntErr::Overflow));
        assert_eq!(decode_exact(5, &b), Ok((0, 31 + (1u128 << 84), b.len())));
        // Truncated padding.
        assert_eq!(decode(5, &[0x1f, 0x80, 0x80]), Err(IntErr::Truncated));
    }

    #[test]
    fn empty_is_truncated() {
        for n in 1..=8 {
            assert_eq!(decode(n, &[]), Err(IntErr::Truncated));
            assert_eq!(decode_exact(n, &[]), Err(IntErr::Truncated));
        }
    }
}
