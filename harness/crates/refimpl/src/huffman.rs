//! HPACK Huffman coding (RFC 7541 Section 5.2 and Appendix B), as reused by QPACK (RFC 9204 Section 4.1.2).
//!
//! The decoder is deliberately literal: it walks a binary trie one bit at a time and applies
//! the three Section 5.2 error rules exactly:
//!   * a decoded EOS symbol is an error,
//!   * padding longer than 7 bits is an error,
//!   * padding that is not a prefix of EOS (i.e. not all 1-bits) is an error.

use crate::huffman_table::ENCODE_TABLE;
use std::sync::OnceLock;

/// RFC 7541 Section 5.2 decoding errors.
#[derive(Debug, Clone, PartialEq, Eq)]
pub enum HuffErr {
    /// The EOS symbol (256) was fully decoded inside the string.
    EosInString,
    /// More than 7 bits are left over after the last complete symbol.
    PaddingTooLong,
    /// The (at most 7) left-over bits are not all 1.
    PaddingNotOnes,
}

/// Symbol number of EOS.
pub const EOS: usize = 256;

/// (number of bits, code right-aligned) of symbol `sym` (0..=256).
pub fn code(sym: usize) -> (u32, u64) {
    let (nbits, code) = ENCODE_TABLE[sym];
    (nbits as u32, code)
}

/// Huffman-encode `data`: codes are written MSB first, the last byte is padded with 1-bits.
pub fn encode(data: &[u8]) -> Vec<u8> {
    let mut out = Vec::new();
    let mut acc: u8 = 0;
    let mut nacc: u32 = 0;
    for &byte in data {
        let (nbits, c) = code(byte as usize);
        for i in (0..nbits).rev() {
            let bit = ((c >> i) & 1) as u8;
            acc = (acc << 1) | bit;
            nacc += 1;
            if nacc == 8 {
                out.push(acc);
                acc = 0;
                nacc = 0;
            }
        }
    }
    if nacc > 0 {
        while nacc < 8 {
            acc = (acc << 1) | 1;
            nacc += 1;
        }
        out.push(acc);
    }
    out
}

/// Number of bytes `encode(data)` produces.
pub fn encoded_len(data: &[u8]) -> usize {
    let mut bits: usize = 0;
    for &byte in data {
        bits += code(byte as usize).0 as usize;
    }
    (bits + 7) / 8
}

#[derive(Clone, Copy, Debug)]
enum Child {
    Empty,
    Inner(usize),
    Leaf(usize),
}

struct Trie {
    /// nodes[0] is the root; nodes[n][bit] is the child reached by `bit`.
    nodes: Vec<[Child; 2]>,
}

fn build_trie() -> Trie {
    let mut nodes: Vec<[Child; 2]> = vec![[Child::Empty, Child::Empty]];
    for sym in 0..=EOS {
        let (nbits, c) = code(sym);
        assert!(nbits >= 1 && nbits <= 30, "bad code length for symbol {sym}");
        let mut cur = 0usize;
        for i in (0..nbits).rev() {
            let bit = ((c >> i) & 1) as usize;
            let last = i == 0;
            if last {
                match nodes[cur][bit] {
                    Child::Empty => nodes[cur][bit] = Child::Leaf(sym),
                    _ => panic!("Huffman table is not prefix-free at symbol {sym}"),
                }
            } else {
                match nodes[cur][bit] {
                    Child::Empty => {
                        nodes.push([Child::Empty, Child::Empty]);
                        let idx = nodes.len() - 1;
                        nodes[cur][bit] = Child::Inner(idx);
                        cur = idx;
                    }
                    Child::Inner(idx) => cur = idx,
                    Child::Leaf(_) => panic!("Huffman table is not prefix-free at symbol {sym}"),
                }
            }
        }
    }
    Trie { nodes }
}

fn trie() -> &'static Trie {
    static TRIE: OnceLock<Trie> = OnceLock::new();
    TRIE.get_or_init(build_trie)
}

/// Strict RFC 7541 Section 5.2 Huffman decoding.
///
/// Precedence of the padding errors: if more than 7 bits are left over -> `PaddingTooLong`
/// (whatever their values), otherwise if they are not all ones -> `PaddingNotOnes`.
pub fn decode(data: &[u8]) -> Result<Vec<u8>, HuffErr> {
    let t = trie();
    let mut out = Vec::new();
    let mut cur = 0usize;
    // Bits consumed since the last emitted symbol (= candidate padding at end of input).
    let mut pending_bits: u32 = 0;
    let mut pending_all_ones = true;
    for &byte in data {
        for i in (0..8).rev() {
            let bit = ((byte >> i) & 1) as usize;
            pending_bits += 1;
            if bit == 0 {
                pending_all_ones = false;
            }
            match t.nodes[cur][bit] {
                Child::Inner(idx) => cur = idx,
                Child::Leaf(sym) => {
                    if sym == EOS {
                        return Err(HuffErr::EosInString);
                    }
                    out.push(sym as u8);
                    cur = 0;
                    pending_bits = 0;
                    pending_all_ones = true;
                }
                // The code is complete (Kraft sum == 1, see self_check), so every bit
                // sequence leads to a leaf.
                Child::Empty => panic!("Huffman code is not complete"),
            }
        }
    }
    if pending_bits > 7 {
        return Err(HuffErr::PaddingTooLong);
    }
    if !pending_all_ones {
        return Err(HuffErr::PaddingNotOnes);
    }
    Ok(out)
}

/// What a bit-at-a-time walk over `data` finds, without judging it: the symbols completed
/// (EOS is reported as 256 and the walk goes on), and the bits left over at the end.
#[derive(Debug, Clone, PartialEq, Eq)]
pub struct Walk {
    pub symbols: Vec<usize>,
    /// bits consumed since the last completed symbol
    pub leftover_bits: u32,
    pub leftover_all_ones: bool,
}

pub fn walk(data: &[u8]) -> Walk {
    let t = trie();
    let mut w = Walk { symbols: Vec::new(), leftover_bits: 0, leftover_all_ones: true };
    let mut cur = 0usize;
    for &byte in data {
        for i in (0..8).rev() {
            let bit = ((byte >> i) & 1) as usize;
            w.leftover_bits += 1;
            if bit == 0 {
                w.leftover_all_ones = false;
            }
            match t.nodes[cur][bit] {
                Child::Inner(idx) => cur = idx,
                Child::Leaf(sym) => {
                    w.symbols.push(sym);
                    cur = 0;
                    w.leftover_bits = 0;
                    w.leftover_all_ones = true;
                }
                Child::Empty => panic!("Huffman code is not complete"),
            }
        }
    }
    w
}

fn unhex(s: &str) -> Vec<u8> {
    let digits: Vec<u8> = s
        .bytes()
        .filter(|c| !c.is_ascii_whitespace())
        .map(|c| (c as char).to_digit(16).expect("hex digit") as u8)
        .collect();
    assert!(digits.len() % 2 == 0);
    digits.chunks(2).map(|p| (p[0] << 4) | p[1]).collect()
}

/// Validates the table and the codec against structural invariants and RFC 7541 Appendix C.
pub fn self_check() -> Result<(), String> {
    // Lengths in range, codes fit their length.
    for sym in 0..=EOS {
        let (n, c) = code(sym);
        if n < 5 || n > 30 {
            return Err(format!("symbol {sym}: length {n} outside 5..=30"));
        }
        if c >> n != 0 {
            return Err(format!("symbol {sym}: code {c:#x} does not fit in {n} bits"));
        }
    }

    // Kraft sum == 1 exactly, in units of 2^-30.
    let mut kraft: u64 = 0;
    for sym in 0..=EOS {
        let (n, _) = code(sym);
        kraft += 1u64 << (30 - n);
    }
    if kraft != 1u64 << 30 {
        return Err(format!("Kraft sum is {kraft} / 2^30, expected exactly 1"));
    }

    // Canonical: sorted by (length, symbol), first code is 0, each code is (previous + 1)
    // left-shifted by the length difference.
    let mut order: Vec<usize> = (0..=EOS).collect();
    order.sort_by_key(|&s| (code(s).0, s));
    let mut prev: Option<(u32, u64)> = None;
    for &sym in &order {
        let (n, c) = code(sym);
        let expected = match prev {
            None => 0,
            Some((pn, pc)) => (pc + 1) << (n - pn),
        };
        if c != expected {
            return Err(format!(
                "symbol {sym}: code {c:#x}/{n} is not canonical (expected {expected:#x})"
            ));
        }
        prev = Some((n, c));
    }

    // EOS is 30 one-bits.
    if code(EOS) != (30, 0x3fff_ffff) {
        return Err(format!("EOS is {:?}, expected 30 one-bits", code(EOS)));
    }

    // A few codes I know by heart from RFC 7541 Appendix B.
    let known: [(usize, u32, u64); 12] = [
        (b'0' as usize, 5, 0x0),
        (b'1' as usize, 5, 0x1),
        (b'2' as usize, 5, 0x2),
        (b'a' as usize, 5, 0x3),
        (b'c' as usize, 5, 0x4),
        (b'e' as usize, 5, 0x5),
        (b'i' as usize, 5, 0x6),
        (b'o' as usize, 5, 0x7),
        (b's' as usize, 5, 0x8),
        (b't' as usize, 5, 0x9),
        (b' ' as usize, 6, 0x14),
        (0, 13, 0x1ff8),
    ];
    for (sym, n, c) in known {
        if code(sym) != (n, c) {
            return Err(format!("symbol {sym}: {:?}, expected ({n}, {c:#x})", code(sym)));
        }
    }

    // Every symbol decodes to itself through the trie (single symbol + 1-padding), as long as
    // the padding needed is <= 7 bits, which is always the case for one symbol.
    for sym in 0..=255usize {
        let enc = encode(&[sym as u8]);
        match decode(&enc) {
            Ok(d) if d == [sym as u8] => {}
            other => return Err(format!("symbol {sym}: round trip gave {other:?}")),
        }
    }

    // RFC 7541 Appendix C.4 / C.6 examples.
    let examples: [(&str, &str); 6] = [
        ("www.example.com", "f1e3 c2e5 f23a 6ba0 ab90 f4ff"),
        ("no-cache", "a8eb 1064 9cbf"),
        ("custom-key", "25a8 49e9 5ba9 7d7f"),
        ("custom-value", "25a8 49e9 5bb8 e8b4 bf"),
        ("302", "6402"),
        ("private", "aec3 771a 4b"),
    ];
    for (plain, hex) in examples {
        let bytes = unhex(hex);
        let enc = encode(plain.as_bytes());
        if enc != bytes {
            return Err(format!("encode({plain:?}) = {enc:02x?}, expected {bytes:02x?}"));
        }
        if enc.len() != encoded_len(plain.as_bytes()) {
            return Err(format!("encoded_len({plain:?}) is wrong"));
        }
        match decode(&bytes) {
            Ok(d) if d == plain.as_bytes() => {}
            other => return Err(format!("decode({hex}) = {other:?}, expected {plain:?}")),
        }
    }
    Ok(())
}

#[cfg(test)]
mod tests {
    use super::*;

    #[test]
    fn self_check_passes() {
        self_check().unwrap();
    }

    #[test]
    fn empty() {
        assert_eq!(encode(b""), Vec::<u8>::new());
        assert_eq!(decode(b""), Ok(vec![]));
    }

    #[test]
    fn all_bytes_round_trip() {
        let all: Vec<u8> = (0..=255u8).collect();
        assert_eq!(decode(&encode(&all)), Ok(all.clone()));
        let rev: Vec<u8> = (0..=255u8).rev().collect();
        assert_eq!(decode(&encode(&rev)), Ok(rev));
    }

    #[test]
    fn padding_rules() {
        // '0' is 00000 (5 bits). 00000 111 is '0' + 3 bits of valid padding.
        assert_eq!(decode(&[0b0000_0111]), Ok(b"0".to_vec()));
        // 00000 110: padding not all ones.
        assert_eq!(decode(&[0b0000_0110]), Err(HuffErr::PaddingNotOnes));
        // 00000 000: '0' then three 0 bits: a partial code that is not a prefix of EOS.
        assert_eq!(decode(&[0b0000_0000]), Err(HuffErr::PaddingNotOnes));
        // 7 bits of all-ones padding is still fine: 'a' = 00011 -> 00011 111 would be 3 bits;
        // use a symbol with a 9-bit... simpler: '0' '0' '0' = 15 bits + 1 bit padding.
        assert_eq!(decode(&[0b0000_0000, 0b0000_0001]), Ok(b"000".to_vec()));
        // A whole byte of ones after a complete symbol boundary is 8 bits of padding: too long.
        // '0' 111 | 11111111
        assert_eq!(decode(&[0b0000_0111, 0xff]), Err(HuffErr::PaddingTooLong));
        // Just 0xff: 8 one-bits, no symbol: too long.
        assert_eq!(decode(&[0xff]), Err(HuffErr::PaddingTooLong));
        assert_eq!(decode(&[0xff, 0xff, 0xff]), Err(HuffErr::PaddingTooLong));
        // > 7 left-over bits that also contain a zero: PaddingTooLong takes precedence.
        // 0xff 0xfe: 15 ones then a 0; no code is that short with that prefix?  Codes starting
        // with 15 ones are >= 19 bits long, so all 16 bits are pending.
        assert_eq!(decode(&[0xff, 0xfe]), Err(HuffErr::PaddingTooLong));
    }

    #[test]
    fn eos_in_string() {
        // 30 ones followed by 2 more ones.
        assert_eq!(decode(&[0xff, 0xff, 0xff, 0xff]), Err(HuffErr::EosInString));
        // '0' (00000) then EOS (30 ones) then 5 ones of padding = 40 bits.
        assert_eq!(
            decode(&[0b0000_0111, 0xff, 0xff, 0xff, 0xff]),
            Err(HuffErr::EosInString)
        );
    }

    #[test]
    fn seven_bit_padding_ok() {
        // Find a string whose encoding leaves exactly 7 bits of padding: total bits = 1 mod 8.
        // '0' x5 = 25 bits -> 7 bits of padding.
        let enc = encode(b"00000");
        assert_eq!(enc.len(), 4);
        assert_eq!(enc[3], 0b0111_1111);
        assert_eq!(decode(&enc), Ok(b"00000".to_vec()));
    }
}
