//! Independent reference codecs and protocol automata, written from the RFCs.
//! This crate shares no code and no tables with hyperium/h3 (it does not depend on it).
pub mod varint;
