//! Independent reference codecs and protocol automata, written from the RFCs.
//! This crate shares no code and no tables with hyperium/h3 (it does not depend on it).
pub mod datagram;
pub mod fields;
pub mod frames;
pub mod h3auto;
pub mod huffman;
pub mod huffman_table;
pub mod qint;
pub mod qpack;
pub mod qstr;
pub mod settings;
pub mod varint;
