//! RFC 9114 section 7.1 / 7.2: type-length-payload segmentation of a stream's bytes and the
//! per-type payload grammar, on plain byte slices.

use crate::varint::{self, Decoded};

pub const DATA: u64 = 0x0;
pub const HEADERS: u64 = 0x1;
pub const CANCEL_PUSH: u64 = 0x3;
pub const SETTINGS: u64 = 0x4;
pub const PUSH_PROMISE: u64 = 0x5;
pub const GOAWAY: u64 = 0x7;
pub const MAX_PUSH_ID: u64 = 0xd;
/// HTTP/2 frame types with no HTTP/3 counterpart (RFC 9114 section 7.2.8, 11.2.1)
pub const H2_RESERVED: [u64; 4] = [0x2, 0x6, 0x8, 0x9];

pub fn is_known(ty: u64) -> bool {
    matches!(ty, DATA | HEADERS | CANCEL_PUSH | SETTINGS | PUSH_PROMISE | GOAWAY | MAX_PUSH_ID)
}
pub fn is_h2_reserved(ty: u64) -> bool {
    H2_RESERVED.contains(&ty)
}
/// 0x1f * N + 0x21 (RFC 9114 section 7.2.8): reserved to exercise "ignore unknown"
pub fn is_grease(v: u64) -> bool {
    v >= 0x21 && (v - 0x21) % 0x1f == 0
}

#[derive(Debug, Clone, PartialEq, Eq)]
pub struct Frame {
    pub ty: u64,
    pub payload: Vec<u8>,
    /// offset of the first byte of the frame header
    pub start: usize,
    pub payload_start: usize,
    /// offset one past the last payload byte
    pub end: usize,
}

#[derive(Debug, Clone, PartialEq, Eq)]
pub enum Tail {
    /// the bytes end exactly at a frame boundary
    Clean,
    /// the bytes end inside a frame (header or payload)
    Partial {
        start: usize,
        /// Some(type) once the type varint is complete
        ty: Option<u64>,
        /// Some(declared length) once the length varint is complete
        len: Option<u64>,
        /// payload bytes present so far
        have: usize,
    },
}

/// Pure TLV segmentation: complete frames, then what is left.
pub fn segment(b: &[u8]) -> (Vec<Frame>, Tail) {
    let mut frames = Vec::new();
    let mut pos = 0usize;
    loop {
        if pos == b.len() {
            return (frames, Tail::Clean);
        }
        let start = pos;
        let (ty, n1) = match varint::decode(&b[pos..]) {
            Decoded::Ok(v, n) => (v, n),
            Decoded::Truncated => {
                return (frames, Tail::Partial { start, ty: None, len: None, have: 0 });
            }
        };
        let (len, n2) = match varint::decode(&b[pos + n1..]) {
            Decoded::Ok(v, n) => (v, n),
            Decoded::Truncated => {
                return (frames, Tail::Partial { start, ty: Some(ty), len: None, have: 0 });
            }
        };
        let payload_start = pos + n1 + n2;
        let have = b.len() - payload_start;
        if (have as u64) < len {
            return (frames, Tail::Partial { start, ty: Some(ty), len: Some(len), have });
        }
        let end = payload_start + len as usize;
        frames.push(Frame {
            ty,
            payload: b[payload_start..end].to_vec(),
            start,
            payload_start,
            end,
        });
        pos = end;
    }
}

#[derive(Debug, Clone, Copy, PartialEq, Eq)]
pub enum PayloadFault {
    /// the payload ends before the end of the identified fields
    TooShort,
    /// additional bytes after the identified fields
    TooLong,
}

/// RFC 9114 section 7.1: "A frame payload that contains additional bytes after the identified
/// fields or a frame payload that terminates before the end of the identified fields MUST be
/// treated as a connection error of type H3_FRAME_ERROR."
pub fn payload_fault(ty: u64, payload: &[u8]) -> Option<PayloadFault> {
    match ty {
        CANCEL_PUSH | GOAWAY | MAX_PUSH_ID => match varint::decode(payload) {
            Decoded::Truncated => Some(PayloadFault::TooShort),
            Decoded::Ok(_, n) if n < payload.len() => Some(PayloadFault::TooLong),
            Decoded::Ok(..) => None,
        },
        SETTINGS => {
            let mut p = 0;
            while p < payload.len() {
                match varint::decode(&payload[p..]) {
                    Decoded::Truncated => return Some(PayloadFault::TooShort),
                    Decoded::Ok(_, n) => p += n,
                }
                match varint::decode(&payload[p..]) {
                    Decoded::Truncated => return Some(PayloadFault::TooShort),
                    Decoded::Ok(_, n) => p += n,
                }
            }
            None
        }
        PUSH_PROMISE => match varint::decode(payload) {
            Decoded::Truncated => Some(PayloadFault::TooShort),
            Decoded::Ok(..) => None,
        },
        _ => None, // DATA, HEADERS, unknown: opaque
    }
}

/// For a frame whose payload has not completely arrived: is every possible completion malformed?
/// (Then reporting H3_FRAME_ERROR early is as correct as waiting.)
pub fn doomed(ty: u64, declared_len: u64, payload_so_far: &[u8]) -> bool {
    match ty {
        CANCEL_PUSH | GOAWAY | MAX_PUSH_ID => {
            if !matches!(declared_len, 1 | 2 | 4 | 8) {
                return true;
            }
            match payload_so_far.first() {
                Some(&b) => varint::announced_len(b) as u64 != declared_len,
                None => false,
            }
        }
        PUSH_PROMISE => declared_len == 0,
        _ => false,
    }
}

/// The single varint carried by CANCEL_PUSH / GOAWAY / MAX_PUSH_ID (payload must be fault-free).
pub fn single_varint(payload: &[u8]) -> Option<u64> {
    match varint::decode(payload) {
        Decoded::Ok(v, n) if n == payload.len() => Some(v),
        _ => None,
    }
}

/// Serialise one frame with chosen varint length forms (None = shortest).
pub fn encode(ty: u64, ty_form: Option<usize>, declared_len: u64, len_form: Option<usize>, payload: &[u8]) -> Vec<u8> {
    let mut out = match ty_form {
        Some(n) => varint::encode_len(ty, n).expect("type does not fit the form"),
        None => varint::encode(ty).expect("type < 2^62"),
    };
    out.extend(match len_form {
        Some(n) => varint::encode_len(declared_len, n).expect("length does not fit the form"),
        None => varint::encode(declared_len).expect("length < 2^62"),
    });
    out.extend_from_slice(payload);
    out
}

/// Shortest-form frame with the payload's own length.
pub fn frame(ty: u64, payload: &[u8]) -> Vec<u8> {
    encode(ty, None, payload.len() as u64, None, payload)
}

#[cfg(test)]
mod tests {
    use super::*;
    #[test]
    fn segmentation() {
        // DATA(2) "ab", unknown 0x21 (len 1), GOAWAY(4), then a partial HEADERS
        let b = [0x00, 0x02, b'a', b'b', 0x21, 0x01, 0xff, 0x07, 0x01, 0x04, 0x01, 0x05, 0x01];
        let (f, t) = segment(&b);
        assert_eq!(f.len(), 3);
        assert_eq!((f[0].ty, &f[0].payload[..]), (0, &b"ab"[..]));
        assert_eq!((f[1].ty, &f[1].payload[..]), (0x21, &[0xff][..]));
        assert_eq!(single_varint(&f[2].payload), Some(4));
        assert_eq!(t, Tail::Partial { start: 10, ty: Some(1), len: Some(5), have: 1 });
        assert_eq!(payload_fault(GOAWAY, &[0x04, 0x00]), Some(PayloadFault::TooLong));
        assert_eq!(payload_fault(GOAWAY, &[0x40]), Some(PayloadFault::TooShort));
        assert_eq!(payload_fault(SETTINGS, &[0x06, 0x40]), Some(PayloadFault::TooShort));
        assert_eq!(payload_fault(SETTINGS, &[0x06, 0x40, 0x10]), None);
        assert!(is_grease(0x21) && is_grease(0x40) && !is_grease(0x41));
        assert!(doomed(GOAWAY, 3, &[]) && doomed(GOAWAY, 2, &[0x04]) && !doomed(GOAWAY, 2, &[0x44]));
    }
}
